//! lopdf-conform: conformance harness binding the TLA+ specification in /verif/spec to lopdf.
//!
//! * `wire`  — the one projection pi : lopdf values -> abstract JSON (and back), shared by both
//!             directions (spec -> impl replay, impl -> spec trace recording).
//! * `flt`   — pure object filters for filtered loading, shared with the rayon-free build.
//! * `rng`   — seeded generator for the recorded drivers (all randomness comes from VERIF_SEED).
//! * `io`    — ndjson helpers.
//! * `guard` — run code under test so that a panic is *data* (reported), not a harness failure.
//! * `sup`   — supervisor: run cases in child worker processes so that aborts, stack overflows and
//!             hangs are data too.

pub mod flt;
pub mod gen;
pub mod guard;
pub mod io;
pub mod rng;
pub mod sup;
pub mod wire;
