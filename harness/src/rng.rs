//! Small deterministic generator (splitmix64) so recorded drivers depend on VERIF_SEED only.
#[derive(Clone)]
pub struct Rng(pub u64);

impl Rng {
    pub fn new(seed: u64) -> Self {
        Rng(seed ^ 0x9E37_79B9_7F4A_7C15)
    }
    pub fn next_u64(&mut self) -> u64 {
        self.0 = self.0.wrapping_add(0x9E37_79B9_7F4A_7C15);
        let mut z = self.0;
        z = (z ^ (z >> 30)).wrapping_mul(0xBF58_476D_1CE4_E5B9);
        z = (z ^ (z >> 27)).wrapping_mul(0x94D0_49BB_1331_11EB);
        z ^ (z >> 31)
    }
    /// uniform in 0..n (n > 0)
    pub fn below(&mut self, n: usize) -> usize {
        (self.next_u64() % (n as u64)) as usize
    }
    /// uniform in lo..=hi
    pub fn range(&mut self, lo: i64, hi: i64) -> i64 {
        lo + (self.next_u64() % ((hi - lo + 1) as u64)) as i64
    }
    pub fn chance(&mut self, num: u32, den: u32) -> bool {
        (self.next_u64() % den as u64) < num as u64
    }
    pub fn pick<'a, T>(&mut self, xs: &'a [T]) -> &'a T {
        &xs[self.below(xs.len())]
    }
    pub fn byte(&mut self) -> u8 {
        self.next_u64() as u8
    }
    pub fn shuffle<T>(&mut self, xs: &mut [T]) {
        for i in (1..xs.len()).rev() {
            let j = self.below(i + 1);
            xs.swap(i, j);
        }
    }
}
