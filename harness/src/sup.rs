//! Supervisor: cases are sent one per line to a child worker process (`<exe> <args..>`), which
//! answers one line per case.  A child that dies (abort, stack overflow, OOM kill) or does not
//! answer within the time limit yields `Outcome::Crash` / `Outcome::Hang` for the case in flight and
//! is respawned, so such events are data about lopdf.
use std::io::{BufRead, BufReader, Write};
use std::process::{Child, ChildStdin, Command, Stdio};
use std::sync::mpsc::{channel, Receiver};
use std::time::Duration;

#[derive(Debug, Clone)]
pub enum Outcome {
    Line(String),
    Crash(String),
    Hang,
}

struct Worker {
    child: Child,
    stdin: ChildStdin,
    rx: Receiver<String>,
}

fn spawn(exe: &str, args: &[String], mem_limit_mb: u64) -> Worker {
    let mut cmd = Command::new(exe);
    cmd.args(args).stdin(Stdio::piped()).stdout(Stdio::piped()).stderr(Stdio::null());
    cmd.env("VERIF_WORKER_MEM_MB", mem_limit_mb.to_string());
    let mut child = cmd.spawn().expect("spawn worker");
    let stdin = child.stdin.take().unwrap();
    let stdout = child.stdout.take().unwrap();
    let (tx, rx) = channel();
    std::thread::spawn(move || {
        for l in BufReader::new(stdout).lines() {
            match l {
                Ok(l) => {
                    if tx.send(l).is_err() {
                        break;
                    }
                }
                Err(_) => break,
            }
        }
    });
    Worker { child, stdin, rx }
}

pub fn run_cases(exe: &str, args: &[String], cases: &[String], timeout: Duration, mem_limit_mb: u64) -> Vec<Outcome> {
    let mut out = Vec::with_capacity(cases.len());
    let mut w: Option<Worker> = None;
    for c in cases {
        if w.is_none() {
            w = Some(spawn(exe, args, mem_limit_mb));
        }
        let wk = w.as_mut().unwrap();
        let sent = wk.stdin.write_all(c.as_bytes()).and_then(|_| wk.stdin.write_all(b"\n")).and_then(|_| wk.stdin.flush());
        if sent.is_err() {
            let st = wk.child.wait().map(|s| format!("{s}")).unwrap_or_default();
            out.push(Outcome::Crash(format!("worker gone before case: {st}")));
            w = None;
            continue;
        }
        match wk.rx.recv_timeout(timeout) {
            Ok(l) => out.push(Outcome::Line(l)),
            Err(std::sync::mpsc::RecvTimeoutError::Timeout) => {
                let _ = wk.child.kill();
                let _ = wk.child.wait();
                out.push(Outcome::Hang);
                w = None;
            }
            Err(std::sync::mpsc::RecvTimeoutError::Disconnected) => {
                let st = wk.child.wait().map(|s| format!("{s}")).unwrap_or_default();
                out.push(Outcome::Crash(st));
                w = None;
            }
        }
    }
    if let Some(mut wk) = w {
        drop(wk.stdin);
        let _ = wk.child.wait();
    }
    out
}

/// Worker side: read cases from stdin, answer each with one line.
pub fn worker_loop(mut f: impl FnMut(&str) -> String) {
    let stdin = std::io::stdin();
    let stdout = std::io::stdout();
    for l in stdin.lock().lines() {
        let l = match l {
            Ok(l) => l,
            Err(_) => break,
        };
        let r = f(&l);
        let mut o = stdout.lock();
        let _ = o.write_all(r.as_bytes());
        let _ = o.write_all(b"\n");
        let _ = o.flush();
    }
}
