//! The projection pi between lopdf values and the abstract JSON state of the specification
//! (DESIGN.md Appendix B).  No JSON null is ever produced, every JSON number is < 2^31, i64 and
//! f32-bit values travel as decimal strings, bytes are arrays of small integers, dictionaries are
//! arrays of [key-bytes, value] pairs sorted by key (lopdf's Dictionary equality is
//! order-insensitive).

use lopdf::{Dictionary, Document, Object, ObjectId, Stream, StringFormat};
use serde_json::{json, Map, Value};

pub fn bytes_to_json(b: &[u8]) -> Value {
    Value::Array(b.iter().map(|x| Value::from(*x as u64)).collect())
}

pub fn json_to_bytes(v: &Value) -> Vec<u8> {
    match v {
        Value::Array(a) => a.iter().map(|x| x.as_u64().expect("byte") as u8).collect(),
        Value::String(s) => s.as_bytes().to_vec(),
        _ => panic!("json_to_bytes: not bytes: {v}"),
    }
}

pub fn dict_to_json(d: &Dictionary) -> Value {
    let mut pairs: Vec<(&Vec<u8>, &Object)> = d.iter().collect();
    pairs.sort_by(|a, b| a.0.cmp(b.0));
    Value::Array(
        pairs
            .into_iter()
            .map(|(k, v)| Value::Array(vec![bytes_to_json(k), obj_to_json(v)]))
            .collect(),
    )
}

pub fn obj_to_json(o: &Object) -> Value {
    match o {
        Object::Null => json!({"k":"null"}),
        Object::Boolean(b) => json!({"k":"bool","v":*b}),
        Object::Integer(i) => json!({"k":"int","v":i.to_string()}),
        Object::Real(r) => json!({"k":"real","bits":r.to_bits().to_string()}),
        Object::Name(n) => json!({"k":"name","v":bytes_to_json(n)}),
        Object::String(s, f) => json!({"k":"str","v":bytes_to_json(s),
            "f": match f { StringFormat::Literal => "lit", StringFormat::Hexadecimal => "hex" }}),
        Object::Array(a) => json!({"k":"arr","v":Value::Array(a.iter().map(obj_to_json).collect())}),
        Object::Dictionary(d) => json!({"k":"dict","v":dict_to_json(d)}),
        Object::Stream(s) => json!({"k":"stream","d":dict_to_json(&s.dict),"c":bytes_to_json(&s.content)}),
        Object::Reference(id) => json!({"k":"ref","n":id.0,"g":id.1}),
    }
}

pub fn json_to_dict(v: &Value) -> Dictionary {
    let mut d = Dictionary::new();
    for pair in v.as_array().expect("dict pairs") {
        let p = pair.as_array().expect("pair");
        d.set(json_to_bytes(&p[0]), json_to_obj(&p[1]));
    }
    d
}

pub fn json_to_obj(v: &Value) -> Object {
    let k = v["k"].as_str().unwrap_or_else(|| panic!("json_to_obj: no kind in {v}"));
    match k {
        "null" => Object::Null,
        "bool" => Object::Boolean(v["v"].as_bool().expect("bool")),
        "int" => Object::Integer(match &v["v"] {
            Value::String(s) => s.parse::<i64>().expect("int string"),
            x => x.as_i64().expect("int"),
        }),
        "real" => Object::Real(f32::from_bits(match &v["bits"] {
            Value::String(s) => s.parse::<u32>().expect("bits"),
            x => x.as_u64().expect("bits") as u32,
        })),
        "name" => Object::Name(json_to_bytes(&v["v"])),
        "str" => Object::String(
            json_to_bytes(&v["v"]),
            if v["f"].as_str() == Some("hex") { StringFormat::Hexadecimal } else { StringFormat::Literal },
        ),
        "arr" => Object::Array(v["v"].as_array().expect("arr").iter().map(json_to_obj).collect()),
        "dict" => Object::Dictionary(json_to_dict(&v["v"])),
        "stream" => {
            let mut s = Stream::new(json_to_dict(&v["d"]), json_to_bytes(&v["c"]));
            // Stream::new sets Length; keep exactly the dictionary we were given plus Length.
            s.allows_compression = v.get("ac").and_then(Value::as_bool).unwrap_or(true);
            Object::Stream(s)
        }
        "ref" => Object::Reference((v["n"].as_u64().expect("n") as u32, v["g"].as_u64().unwrap_or(0) as u16)),
        _ => panic!("json_to_obj: unknown kind {k}"),
    }
}

pub fn id_to_json(id: ObjectId) -> Value {
    json!([id.0, id.1])
}

pub fn json_to_id(v: &Value) -> ObjectId {
    let a = v.as_array().expect("id");
    (a[0].as_u64().expect("n") as u32, a[1].as_u64().expect("g") as u16)
}

/// pi(Document): the abstract state the specification talks about.
pub fn doc_to_json(d: &Document) -> Value {
    let mut m = Map::new();
    m.insert("version".into(), bytes_to_json(d.version.as_bytes()));
    m.insert("binmark".into(), bytes_to_json(&d.binary_mark));
    m.insert("max_id".into(), Value::from(d.max_id));
    m.insert("trailer".into(), dict_to_json(&d.trailer));
    m.insert(
        "objects".into(),
        Value::Array(
            d.objects
                .iter()
                .map(|(id, o)| json!([id.0, id.1, obj_to_json(o)]))
                .collect(),
        ),
    );
    Value::Object(m)
}

pub fn json_to_doc(v: &Value) -> Document {
    let mut d = Document::new();
    if let Some(ver) = v.get("version") {
        d.version = String::from_utf8_lossy(&json_to_bytes(ver)).to_string();
    }
    if let Some(b) = v.get("binmark") {
        d.binary_mark = json_to_bytes(b);
    }
    if let Some(t) = v.get("trailer") {
        d.trailer = json_to_dict(t);
    }
    let mut maxn = 0;
    if let Some(objs) = v.get("objects").and_then(Value::as_array) {
        for e in objs {
            let a = e.as_array().expect("obj entry");
            let id = (a[0].as_u64().unwrap() as u32, a[1].as_u64().unwrap() as u16);
            maxn = maxn.max(id.0);
            d.objects.insert(id, json_to_obj(&a[2]));
        }
    }
    d.max_id = v.get("max_id").and_then(Value::as_u64).map(|x| x as u32).unwrap_or(maxn);
    d
}

/// Error -> short stable tag.
pub fn err_tag(e: &lopdf::Error) -> String {
    let s = format!("{e:?}");
    let cut = s.find(|c: char| !(c.is_alphanumeric() || c == '_')).unwrap_or(s.len());
    s[..cut].to_string()
}

// ---------------------------------------------------------------------------------------------
// TLA-flavoured projection (spec/PdfObjects.tla): integers as sign + decimal digit arrays, reals
// with the exact decimal expansion of their f32 rounding interval, dictionaries as pair arrays.

fn digits_of_str(s: &str) -> Vec<u8> {
    s.bytes().filter(|b| b.is_ascii_digit()).map(|b| b - b'0').collect()
}

/// decimal digits (most significant first) of n * 2^p as (integer digits, fraction digits), exact.
fn exact_decimal(n: u64, p: i32) -> (Vec<u8>, Vec<u8>) {
    // big decimal as little-endian digit vector
    let mut d: Vec<u8> = n.to_string().bytes().rev().map(|b| b - b'0').collect();
    let mul = |d: &mut Vec<u8>, m: u32| {
        let mut carry = 0u32;
        for x in d.iter_mut() {
            let v = *x as u32 * m + carry;
            *x = (v % 10) as u8;
            carry = v / 10;
        }
        while carry > 0 {
            d.push((carry % 10) as u8);
            carry /= 10;
        }
    };
    if p >= 0 {
        for _ in 0..p {
            mul(&mut d, 2);
        }
        d.reverse();
        (strip_leading(d), vec![])
    } else {
        let k = (-p) as usize;
        for _ in 0..k {
            mul(&mut d, 5);
        }
        // value = d / 10^k
        while d.len() <= k {
            d.push(0);
        }
        let frac: Vec<u8> = d[..k].iter().rev().copied().collect();
        let int: Vec<u8> = d[k..].iter().rev().copied().collect();
        let mut frac = frac;
        while frac.last() == Some(&0) {
            frac.pop();
        }
        (strip_leading(int), frac)
    }
}

fn strip_leading(mut v: Vec<u8>) -> Vec<u8> {
    while v.len() > 1 && v[0] == 0 {
        v.remove(0);
    }
    if v.is_empty() {
        v.push(0);
    }
    v
}

fn dec_json(d: (Vec<u8>, Vec<u8>)) -> Value {
    json!({"ip": d.0, "fp": d.1})
}

/// The set of decimals that denote the finite f32 `x` under round-to-nearest-even:
/// [lo, hi] on the magnitude, closed iff the mantissa is even.
pub fn real_to_tla(x: f32) -> Value {
    let bits = x.to_bits();
    let neg = bits >> 31 == 1;
    let exp = ((bits >> 23) & 0xff) as i32;
    let frac = (bits & 0x7f_ffff) as u64;
    if exp == 0xff {
        return json!({"k": "real", "neg": neg, "nonfinite": true, "bits": bits.to_string()});
    }
    let (m, e) = if exp == 0 { (frac, -149) } else { (frac | 0x80_0000, exp - 150) };
    // value = m * 2^e.  hi = (2m+1) * 2^(e-1);  lo = (2m-1) * 2^(e-1), or at a binade boundary (4m-1) * 2^(e-2)
    let hi = exact_decimal(2 * m + 1, e - 1);
    let lo = if m == 0 {
        (vec![0], vec![])
    } else if frac == 0 && exp > 1 {
        exact_decimal(4 * m - 1, e - 2)
    } else {
        exact_decimal(2 * m - 1, e - 1)
    };
    let integral = x.fract() == 0.0;
    let iv = if integral { exact_decimal(m, e).0 } else { vec![] };
    json!({"k": "real", "neg": neg, "lo": dec_json(lo), "hi": dec_json(hi), "incl": m % 2 == 0,
           "int": integral, "iv": iv})
}

pub fn dict_to_tla(d: &Dictionary) -> Value {
    let mut pairs: Vec<(&Vec<u8>, &Object)> = d.iter().collect();
    pairs.sort_by(|a, b| a.0.cmp(b.0));
    Value::Array(pairs.into_iter().map(|(k, v)| Value::Array(vec![bytes_to_json(k), obj_to_tla(v)])).collect())
}

pub fn obj_to_tla(o: &Object) -> Value {
    match o {
        Object::Null => json!({"k":"null"}),
        Object::Boolean(b) => json!({"k":"bool","v":*b}),
        Object::Integer(i) => json!({"k":"int","neg": *i < 0, "v": digits_of_str(&i.to_string())}),
        Object::Real(r) => real_to_tla(*r),
        Object::Name(n) => json!({"k":"name","v":bytes_to_json(n)}),
        Object::String(s, _) => json!({"k":"str","v":bytes_to_json(s)}),
        Object::Array(a) => json!({"k":"arr","v":Value::Array(a.iter().map(obj_to_tla).collect())}),
        Object::Dictionary(d) => json!({"k":"dict","v":dict_to_tla(d)}),
        Object::Stream(s) => json!({"k":"stream","v":dict_to_tla(&s.dict),"w":bytes_to_json(&s.content)}),
        Object::Reference(id) => json!({"k":"ref","v":id.0,"w":id.1}),
    }
}

/// pi(Document) in the TLA flavour.
pub fn doc_to_tla(d: &Document) -> Value {
    json!({
        "version": bytes_to_json(d.version.as_bytes()),
        "binmark": bytes_to_json(&d.binary_mark),
        "max_id": d.max_id,
        "trailer": dict_to_tla(&d.trailer),
        "objects": Value::Array(d.objects.iter().map(|(id, o)| json!([id.0, id.1, obj_to_tla(o)])).collect()),
    })
}

#[cfg(test)]
mod tests {
    use super::*;
    #[test]
    fn intervals() {
        // 0.5 = 2^-1: binade boundary; neighbours 0.5 - 2^-25 and 0.5 + 2^-24
        let v = real_to_tla(0.5);
        assert_eq!(v["hi"]["ip"], json!([0]));
        let hi: Vec<u64> = v["hi"]["fp"].as_array().unwrap().iter().map(|x| x.as_u64().unwrap()).collect();
        // hi = 0.5 + 2^-25 = 0.500000029802322387695312500
        assert_eq!(&hi[..9], &[5, 0, 0, 0, 0, 0, 0, 2, 9]);
        let v = real_to_tla(1e20);
        assert_eq!(v["int"], json!(true));
        assert_eq!(v["iv"].as_array().unwrap().len(), 21);
        let v = real_to_tla(3.0);
        assert_eq!(v["iv"], json!([3]));
    }
}

// ---------------------------------------------------------------------------------------------
// File-side values for the Producer (spec/SyntaxProducer.tla): reals as decimal tokens.

pub fn real_token(x: f32) -> Value {
    // Rust's Display prints the shortest decimal that round-trips, without exponent
    let s = format!("{}", x.abs());
    let (ip, fp) = match s.split_once('.') {
        Some((a, b)) => (a.to_string(), b.to_string()),
        None => (s.clone(), String::new()),
    };
    let mut fpd = digits_of_str(&fp);
    while fpd.last() == Some(&0) {
        fpd.pop();
    }
    json!({"k": "real", "neg": x.is_sign_negative() , "v": strip_leading(digits_of_str(&ip)), "w": fpd})
}

pub fn dict_to_file_tla(d: &Dictionary) -> Value {
    let mut pairs: Vec<(&Vec<u8>, &Object)> = d.iter().collect();
    pairs.sort_by(|a, b| a.0.cmp(b.0));
    Value::Array(pairs.into_iter().map(|(k, v)| Value::Array(vec![bytes_to_json(k), obj_to_file_tla(v)])).collect())
}

pub fn obj_to_file_tla(o: &Object) -> Value {
    match o {
        Object::Real(r) => real_token(*r),
        Object::Array(a) => json!({"k":"arr","v":Value::Array(a.iter().map(obj_to_file_tla).collect())}),
        Object::Dictionary(d) => json!({"k":"dict","v":dict_to_file_tla(d)}),
        Object::Stream(s) => json!({"k":"stream","v":dict_to_file_tla(&s.dict),"w":bytes_to_json(&s.content)}),
        other => obj_to_tla(other),
    }
}
