//! The projection pi between lopdf values and the abstract JSON state of the specification
//! (DESIGN.md Appendix B).  No JSON null is ever produced, every JSON number is < 2^31, i64 and
//! f32-bit values travel as decimal strings, bytes are arrays of small integers, dictionaries are
//! arrays of [key-bytes, value] pairs sorted by key (lopdf's Dictionary equality is
//! order-insensitive).

use lopdf::{Dictionary, Document, Object, ObjectId, Stream, StringFormat};
use serde_json::{json, Map, Value};

pub fn bytes_to_json(b: &[u8]) -> Value {
    Value::Array(b.iter().map(|x| Value::from(*x as u64)).collect())
}

pub fn json_to_bytes(v: &Value) -> Vec<u8> {
    match v {
        Value::Array(a) => a.iter().map(|x| x.as_u64().expect("byte") as u8).collect(),
        Value::String(s) => s.as_bytes().to_vec(),
        _ => panic!("json_to_bytes: not bytes: {v}"),
    }
}

pub fn dict_to_json(d: &Dictionary) -> Value {
    let mut pairs: Vec<(&Vec<u8>, &Object)> = d.iter().collect();
    pairs.sort_by(|a, b| a.0.cmp(b.0));
    Value::Array(
        pairs
            .into_iter()
            .map(|(k, v)| Value::Array(vec![bytes_to_json(k), obj_to_json(v)]))
            .collect(),
    )
}

pub fn obj_to_json(o: &Object) -> Value {
    match o {
        Object::Null => json!({"k":"null"}),
        Object::Boolean(b) => json!({"k":"bool","v":*b}),
        Object::Integer(i) => json!({"k":"int","v":i.to_string()}),
        Object::Real(r) => json!({"k":"real","bits":r.to_bits().to_string()}),
        Object::Name(n) => json!({"k":"name","v":bytes_to_json(n)}),
        Object::String(s, f) => json!({"k":"str","v":bytes_to_json(s),
            "f": match f { StringFormat::Literal => "lit", StringFormat::Hexadecimal => "hex" }}),
        Object::Array(a) => json!({"k":"arr","v":Value::Array(a.iter().map(obj_to_json).collect())}),
        Object::Dictionary(d) => json!({"k":"dict","v":dict_to_json(d)}),
        Object::Stream(s) => json!({"k":"stream","d":dict_to_json(&s.dict),"c":bytes_to_json(&s.content)}),
        Object::Reference(id) => json!({"k":"ref","n":id.0,"g":id.1}),
    }
}

pub fn json_to_dict(v: &Value) -> Dictionary {
    let mut d = Dictionary::new();
    for pair in v.as_array().expect("dict pairs") {
        let p = pair.as_array().expect("pair");
        d.set(json_to_bytes(&p[0]), json_to_obj(&p[1]));
    }
    d
}

pub fn json_to_obj(v: &Value) -> Object {
    let k = v["k"].as_str().unwrap_or_else(|| panic!("json_to_obj: no kind in {v}"));
    match k {
        "null" => Object::Null,
        "bool" => Object::Boolean(v["v"].as_bool().expect("bool")),
        "int" => Object::Integer(match &v["v"] {
            Value::String(s) => s.parse::<i64>().expect("int string"),
            x => x.as_i64().expect("int"),
        }),
        "real" => Object::Real(f32::from_bits(match &v["bits"] {
            Value::String(s) => s.parse::<u32>().expect("bits"),
            x => x.as_u64().expect("bits") as u32,
        })),
        "name" => Object::Name(json_to_bytes(&v["v"])),
        "str" => Object::String(
            json_to_bytes(&v["v"]),
            if v["f"].as_str() == Some("hex") { StringFormat::Hexadecimal } else { StringFormat::Literal },
        ),
        "arr" => Object::Array(v["v"].as_array().expect("arr").iter().map(json_to_obj).collect()),
        "dict" => Object::Dictionary(json_to_dict(&v["v"])),
        "stream" => {
            let mut s = Stream::new(json_to_dict(&v["d"]), json_to_bytes(&v["c"]));
            // Stream::new sets Length; keep exactly the dictionary we were given plus Length.
            s.allows_compression = v.get("ac").and_then(Value::as_bool).unwrap_or(true);
            Object::Stream(s)
        }
        "ref" => Object::Reference((v["n"].as_u64().expect("n") as u32, v["g"].as_u64().unwrap_or(0) as u16)),
        _ => panic!("json_to_obj: unknown kind {k}"),
    }
}

pub fn id_to_json(id: ObjectId) -> Value {
    json!([id.0, id.1])
}

pub fn json_to_id(v: &Value) -> ObjectId {
    let a = v.as_array().expect("id");
    (a[0].as_u64().expect("n") as u32, a[1].as_u64().expect("g") as u16)
}

/// pi(Document): the abstract state the specification talks about.
pub fn doc_to_json(d: &Document) -> Value {
    let mut m = Map::new();
    m.insert("version".into(), bytes_to_json(d.version.as_bytes()));
    m.insert("binmark".into(), bytes_to_json(&d.binary_mark));
    m.insert("max_id".into(), Value::from(d.max_id));
    m.insert("trailer".into(), dict_to_json(&d.trailer));
    m.insert(
        "objects".into(),
        Value::Array(
            d.objects
                .iter()
                .map(|(id, o)| json!([id.0, id.1, obj_to_json(o)]))
                .collect(),
        ),
    );
    Value::Object(m)
}

pub fn json_to_doc(v: &Value) -> Document {
    let mut d = Document::new();
    if let Some(ver) = v.get("version") {
        d.version = String::from_utf8_lossy(&json_to_bytes(ver)).to_string();
    }
    if let Some(b) = v.get("binmark") {
        d.binary_mark = json_to_bytes(b);
    }
    if let Some(t) = v.get("trailer") {
        d.trailer = json_to_dict(t);
    }
    let mut maxn = 0;
    if let Some(objs) = v.get("objects").and_then(Value::as_array) {
        for e in objs {
            let a = e.as_array().expect("obj entry");
            let id = (a[0].as_u64().unwrap() as u32, a[1].as_u64().unwrap() as u16);
            maxn = maxn.max(id.0);
            d.objects.insert(id, json_to_obj(&a[2]));
        }
    }
    d.max_id = v.get("max_id").and_then(Value::as_u64).map(|x| x as u32).unwrap_or(maxn);
    d
}

/// Error -> short stable tag.
pub fn err_tag(e: &lopdf::Error) -> String {
    let s = format!("{e:?}");
    let cut = s.find(|c: char| !(c.is_alphanumeric() || c == '_')).unwrap_or(s.len());
    s[..cut].to_string()
}
