//! C19 — saving through a faulty / chunking sink.
//!
//! `Sink` is an instrumented `std::io::Write`: it accepts bytes in configurable chunks, injects
//! `ErrorKind::Interrupted` before every n-th call, answers `Ok(0)` or a hard error when a given byte
//! offset is reached (once = transient, or from then on = sticky), or follows a scripted schedule
//! (spec -> impl replay of the schedules TLC enumerated on MC_SaveSink).  It logs every inner
//! `write(len) -> result` call; `write_all` is *not* overridden, so std's documented loop runs.
//!
//! `record`: for each seeded document x {table, xref-stream} x {plain, incremental}: the reference
//! output from a clone saved to a healthy sink (its call log is the writer's program W), then every
//! byte offset k x {Err, Ok0}, chunkings 1,2,3,7,random<=16 alone and with Interrupted before every
//! n-th call, random combinations; after a failed save the same document is saved again to a healthy
//! Vec, loaded with load_mem and compared (content projection via lopdf_conform::wire) with what the
//! reference loads to.  One ndjson record per save for Trace_SaveSink.  The harness only computes data
//! plumbing (lengths, "delivered is a prefix of the reference", "same projection", "the first j calls
//! are the reference's first j calls"); what must happen after which sink response is judged in TLA+.
//!
//! Panics are data (guard::guarded); a writer that never terminates exhausts the sink's call budget,
//! which is reported as a panic of its own kind.
use lopdf::xref::{XrefEntry, XrefType};
use lopdf::{Dictionary, Document, IncrementalDocument, Object, Stream, StringFormat};
use lopdf_conform::{guard::guarded, io::*, rng::Rng, sup, wire};
use serde_json::{json, Value};
use std::io::{self, Write};

// ------------------------------------------------------------------------------------------ sink

const R_INTR: i64 = -1;
const R_ERR: i64 = -2;

#[derive(Clone, Copy, PartialEq, Debug)]
enum Kind {
    Err,
    Ok0,
    /// one Interrupted answer when the offset is reached (the call before is cut short at the offset)
    Intr,
    /// only the short write that ends at the offset, no failure
    Short,
}

#[derive(Clone, Copy, PartialEq, Debug)]
enum Chunk {
    Full,
    Fixed(usize),
    Random(usize),
}

#[derive(Clone, Debug)]
struct Plan {
    chunk: Chunk,
    intr_every: usize,
    fail_at: Option<usize>,
    kind: Kind,
    sticky: bool,
    script: Vec<i64>,
}

impl Plan {
    fn healthy() -> Plan {
        Plan { chunk: Chunk::Full, intr_every: 0, fail_at: None, kind: Kind::Err, sticky: false, script: vec![] }
    }
    fn json(&self) -> Value {
        let mut j = self.json0();
        if !self.script.is_empty() {
            j["script"] = json!(self.script);
        }
        j
    }
    fn json0(&self) -> Value {
        json!({
            "chunk": match self.chunk { Chunk::Full => 0, Chunk::Fixed(c) => c as i64, Chunk::Random(m) => -(m as i64) },
            "intr": self.intr_every,
            "k": self.fail_at.map(|k| k as i64).unwrap_or(-1),
            "kind": match (self.fail_at, self.kind) {
                (None, _) => "none",
                (_, Kind::Err) => "err",
                (_, Kind::Ok0) => "ok0",
                (_, Kind::Intr) => "intr",
                (_, Kind::Short) => "short",
            },
            "sticky": self.sticky,
        })
    }
}

struct Sink {
    plan: Plan,
    rng: Rng,
    out: Vec<u8>,
    log: Vec<(usize, i64)>,
    calls: usize,
    zero_calls: usize,
    flushes: usize,
    failed_once: bool,
    budget: usize,
}

impl Sink {
    fn new(plan: Plan, seed: u64, budget: usize) -> Sink {
        Sink { plan, rng: Rng::new(seed), out: vec![], log: vec![], calls: 0, zero_calls: 0, flushes: 0, failed_once: false, budget }
    }
    fn fail(&mut self, len: usize, kind: Kind) -> io::Result<usize> {
        match kind {
            Kind::Ok0 => {
                self.log.push((len, 0));
                Ok(0)
            }
            Kind::Err => {
                self.log.push((len, R_ERR));
                Err(io::Error::new(io::ErrorKind::Other, "injected sink failure"))
            }
            Kind::Intr => {
                self.log.push((len, R_INTR));
                Err(io::Error::new(io::ErrorKind::Interrupted, "injected EINTR"))
            }
            Kind::Short => unreachable!(),
        }
    }
    fn accept(&mut self, buf: &[u8], take: usize) -> io::Result<usize> {
        self.out.extend_from_slice(&buf[..take]);
        self.log.push((buf.len(), take as i64));
        Ok(take)
    }
}

impl Write for Sink {
    fn write(&mut self, buf: &[u8]) -> io::Result<usize> {
        let len = buf.len();
        if len == 0 {
            // not a sink decision: an empty write always yields Ok(0); write_all never issues one
            self.zero_calls += 1;
            return Ok(0);
        }
        self.calls += 1;
        if self.calls > self.budget {
            panic!("sink call budget exceeded: the writer does not terminate");
        }
        if let Some(&r) = self.plan.script.get(self.calls - 1) {
            return match r {
                R_INTR => {
                    self.log.push((len, R_INTR));
                    Err(io::Error::new(io::ErrorKind::Interrupted, "injected EINTR"))
                }
                R_ERR => self.fail(len, Kind::Err),
                0 => self.fail(len, Kind::Ok0),
                k => self.accept(buf, (k as usize).min(len)),
            };
        }
        if self.plan.intr_every > 0 && self.calls % self.plan.intr_every == 0 {
            self.log.push((len, R_INTR));
            return Err(io::Error::new(io::ErrorKind::Interrupted, "injected EINTR"));
        }
        let mut take = len;
        if let Some(k) = self.plan.fail_at {
            // a sticky failure keeps failing; Interrupted is always one-shot (a sink that interrupts for ever
            // makes every correct writer retry for ever)
            let again = self.plan.sticky && matches!(self.plan.kind, Kind::Err | Kind::Ok0);
            if self.out.len() == k && self.plan.kind != Kind::Short && (again || !self.failed_once) {
                self.failed_once = true;
                return self.fail(len, self.plan.kind);
            }
            if self.out.len() < k {
                take = take.min(k - self.out.len());
            }
        }
        take = match self.plan.chunk {
            Chunk::Full => take,
            Chunk::Fixed(c) => take.min(c),
            Chunk::Random(m) => take.min(1 + self.rng.below(m)),
        };
        self.accept(buf, take)
    }
    fn flush(&mut self) -> io::Result<()> {
        self.flushes += 1;
        Ok(())
    }
}

// ------------------------------------------------------------------------------------ documents

fn rand_bytes(rng: &mut Rng, n: usize, alphabet: &[u8]) -> Vec<u8> {
    (0..n).map(|_| if alphabet.is_empty() { rng.byte() } else { *rng.pick(alphabet) }).collect()
}

fn rand_name(rng: &mut Rng) -> Vec<u8> {
    let n = 1 + rng.below(6);
    if rng.chance(1, 4) {
        rand_bytes(rng, n, b"Ab z#/(%\x00\x7f\x80\xfe")
    } else {
        rand_bytes(rng, n, b"ABCDEFGHIJKLMNOPQRSTUVWXYZabcdefghijklmnopqrstuvwxyz0123456789")
    }
}

fn rand_obj(rng: &mut Rng, depth: u32, ids: &[(u32, u16)]) -> Object {
    let top = if depth == 0 { 8 } else { 11 };
    match rng.below(top) {
        0 => Object::Null,
        1 => Object::Boolean(rng.chance(1, 2)),
        2 => Object::Integer(*rng.pick(&[0i64, 7, -1, 42, 65535, -2147483648, 1234567890123])),
        3 => Object::Real(*rng.pick(&[0.5f32, -1.25, 3.0, 100.125, 0.001])),
        4 => Object::Name(rand_name(rng)),
        5 => {
            let n = rng.below(9);
            let s = if rng.chance(1, 2) { rand_bytes(rng, n, b"ab (()\\\r\n)\x00\xff") } else { rand_bytes(rng, n, b"") };
            Object::String(s, if rng.chance(1, 3) { StringFormat::Hexadecimal } else { StringFormat::Literal })
        }
        6 => {
            if ids.is_empty() {
                Object::Reference((1, 0))
            } else {
                Object::Reference(*rng.pick(ids))
            }
        }
        7 => Object::Integer(rng.range(-300, 300)),
        8 => Object::Array((0..rng.below(4)).map(|_| rand_obj(rng, depth - 1, ids)).collect()),
        9 => {
            let mut d = Dictionary::new();
            for _ in 0..rng.below(4) {
                d.set(rand_name(rng), rand_obj(rng, depth - 1, ids));
            }
            Object::Dictionary(d)
        }
        _ => {
            let mut d = Dictionary::new();
            if rng.chance(1, 2) {
                d.set(rand_name(rng), rand_obj(rng, depth - 1, ids));
            }
            let n = rng.below(24);
            Object::Stream(Stream::new(d, rand_bytes(rng, n, b"")))
        }
    }
}

/// A literal string that takes write_string's slow path (some byte needs escaping): a marker
/// `Snn:`, a plain run longer than every chunk size used, then runs of plain text (letters, blanks,
/// LF, balanced parentheses) separated by backslashes, CRs and unbalanced parentheses; 20..=max bytes.
fn esc_string(rng: &mut Rng, max: usize) -> Object {
    let target = 20 + rng.below(max.max(21) - 19);
    let mut s = format!("S{:02}:", rng.below(100)).into_bytes();
    let plain = b"abcdefghijklmnopqrstuvwxyz ABCDEFGH 0123456789\n.,;-";
    let mut first = true;
    let mut sure = false;
    while s.len() < target {
        let run = if first { 17 + rng.below(24) } else { rng.below(32) };
        first = false;
        let mut j = 0;
        while j < run {
            if rng.chance(1, 12) {
                s.extend_from_slice(b"(ok)");
                j += 4;
            } else {
                s.push(*rng.pick(plain));
                j += 1;
            }
        }
        let e = *rng.pick(&[b'\\', b'\r', b')', b'(', b'\\', b'\r']);
        sure |= e == b'\\' || e == b'\r';
        s.push(e);
        if rng.chance(1, 5) {
            s.push(*rng.pick(&[b'\\', b')', b'\r'])); // adjacent escapes: empty run in between
        }
    }
    s.truncate(target.max(24));
    if !sure || !s.iter().any(|b| *b == b'\\' || *b == b'\r') {
        let at = s.len() - 1 - rng.below(3);
        s[at] = b'\\';
    }
    Object::String(s, StringFormat::Literal)
}

/// Byte ranges [start, end) of the literal strings made by `esc_string` that contain an escape, found
/// in a saved file by their marker (plumbing for coverage accounting and for naming failing classes).
fn esc_ranges(bytes: &[u8]) -> Vec<(usize, usize)> {
    let mut out = vec![];
    let mut i = 0;
    while i + 5 < bytes.len() {
        if bytes[i] == b'(' && bytes[i + 1] == b'S' && bytes[i + 2].is_ascii_digit() && bytes[i + 3].is_ascii_digit() && bytes[i + 4] == b':' {
            let (mut j, mut depth, mut esc) = (i + 1, 1usize, false);
            while j < bytes.len() && depth > 0 {
                match bytes[j] {
                    b'\\' => {
                        esc = true;
                        j += 1;
                    }
                    b'(' => depth += 1,
                    b')' => depth -= 1,
                    _ => {}
                }
                j += 1;
            }
            if esc && depth == 0 {
                out.push((i, j.min(bytes.len())));
                i = j;
                continue;
            }
        }
        i += 1;
    }
    out
}

/// A small document with a page tree, an Info dictionary and a few random objects.  `size` scales
/// stream lengths, `strmax` the literal strings that need escaping (in the Info dictionary, the
/// trailer, the page, a stream dictionary and an array).
fn gen_doc(rng: &mut Rng, size: usize, strmax: usize) -> Document {
    let mut doc = Document::with_version(*rng.pick(&["1.4", "1.5", "1.7", "2.0"]));
    if rng.chance(1, 4) {
        doc.binary_mark = (0..rng.below(6)).map(|_| 128 + (rng.byte() & 0x7f)).collect();
    }
    let gap = rng.chance(1, 3);
    let mut next = 1u32;
    let mut fresh = |rng: &mut Rng| {
        let id = next;
        next += if gap && rng.chance(1, 3) { 2 } else { 1 };
        id
    };
    let catalog = (fresh(rng), 0u16);
    let pages = (fresh(rng), 0u16);
    let page = (fresh(rng), 0u16);
    let content = (fresh(rng), 0u16);
    let info = (fresh(rng), 0u16);
    let notes = (fresh(rng), 0u16);
    let mut ids = vec![catalog, pages, page, content, info, notes];
    let extra = rng.below(4);
    let mut extra_ids = vec![];
    for _ in 0..extra {
        let id = (fresh(rng), if rng.chance(1, 6) { 1 + rng.below(3) as u16 } else { 0 });
        ids.push(id);
        extra_ids.push(id);
    }
    let mut cat = Dictionary::new();
    cat.set("Type", Object::Name(b"Catalog".to_vec()));
    cat.set("Pages", Object::Reference(pages));
    doc.objects.insert(catalog, Object::Dictionary(cat));
    let mut pg = Dictionary::new();
    pg.set("Type", Object::Name(b"Pages".to_vec()));
    pg.set("Kids", Object::Array(vec![Object::Reference(page)]));
    pg.set("Count", Object::Integer(1));
    doc.objects.insert(pages, Object::Dictionary(pg));
    let mut p = Dictionary::new();
    p.set("Type", Object::Name(b"Page".to_vec()));
    p.set("Parent", Object::Reference(pages));
    p.set("MediaBox", Object::Array(vec![Object::Integer(0), Object::Integer(0), Object::Real(595.5), Object::Integer(842)]));
    p.set("Contents", Object::Reference(content));
    p.set("Label", esc_string(rng, strmax));
    doc.objects.insert(page, Object::Dictionary(p));
    let mut inf = Dictionary::new();
    inf.set("Title", esc_string(rng, strmax));
    inf.set("Subject", esc_string(rng, strmax / 2));
    inf.set("Producer", Object::String(b"plain (balanced) text".to_vec(), StringFormat::Literal));
    doc.objects.insert(info, Object::Dictionary(inf));
    doc.objects.insert(
        notes,
        Object::Array(vec![esc_string(rng, strmax), Object::Integer(7), esc_string(rng, 40), Object::Name(b"N".to_vec())]),
    );
    let clen = rng.below(1 + size);
    let body = if rng.chance(1, 2) { rand_bytes(rng, clen, b"BT ET 0 1 Tf (x) Tj\n") } else { rand_bytes(rng, clen, b"") };
    let mut cd = Dictionary::new();
    cd.set("Desc", esc_string(rng, strmax / 2));
    doc.objects.insert(content, Object::Stream(Stream::new(cd, body)));
    for id in extra_ids {
        let o = rand_obj(rng, 2, &ids);
        doc.objects.insert(id, o);
    }
    doc.max_id = ids.iter().map(|i| i.0).max().unwrap() + if rng.chance(1, 5) { 1 } else { 0 };
    doc.trailer.set("Root", Object::Reference(catalog));
    doc.trailer.set("Info", Object::Reference(info));
    doc.trailer.set("Note", esc_string(rng, strmax / 2));
    if rng.chance(1, 2) {
        let a = rand_bytes(rng, 4, b"");
        doc.trailer.set(
            "ID",
            Object::Array(vec![
                Object::String(a.clone(), StringFormat::Hexadecimal),
                Object::String(a, StringFormat::Hexadecimal),
            ]),
        );
    }
    doc
}

#[derive(Clone)]
enum Saver {
    Plain(Document),
    Incr(IncrementalDocument),
}

impl Saver {
    fn save_to<W: Write>(&mut self, w: &mut W) -> io::Result<()> {
        match self {
            Saver::Plain(d) => d.save_to(w),
            Saver::Incr(d) => d.save_to(w),
        }
    }
    fn base_len(&self) -> usize {
        match self {
            Saver::Plain(_) => 0,
            Saver::Incr(d) => d.get_prev_documents_bytes().len(),
        }
    }
    fn save_path(&mut self, path: &str) -> io::Result<()> {
        match self {
            Saver::Plain(d) => d.save(path).map(|_| ()),
            Saver::Incr(d) => d.save(path).map(|_| ()),
        }
    }
}

/// base document saved and loaded, then an update: 1-2 objects replaced, 1-2 added
fn make_incr(base: &Document, rng: &mut Rng, strmax: usize) -> Result<IncrementalDocument, String> {
    let mut b = Vec::new();
    let mut d0 = base.clone();
    match guarded(|| d0.save_to(&mut b)) {
        Ok(Ok(())) => {}
        Ok(Err(e)) => return Err(format!("base save: {e}")),
        Err(p) => return Err(format!("base save panic: {p}")),
    }
    if rng.chance(1, 2) {
        b.push(b'\n');
    }
    let prev = match guarded(|| Document::load_mem(&b)) {
        Ok(Ok(d)) => d,
        Ok(Err(e)) => return Err(format!("base load: {e:?}")),
        Err(p) => return Err(format!("base load panic: {p}")),
    };
    let old: Vec<(u32, u16)> = prev
        .objects
        .iter()
        .filter(|(_, o)| o.type_name().map(|t| t != b"XRef").unwrap_or(true))
        .map(|(id, _)| *id)
        .collect();
    let mut inc = IncrementalDocument::create_from(b, prev);
    let r = guarded(|| {
        for _ in 0..1 + rng.below(2) {
            if let Some(&id) = old.get(rng.below(old.len().max(1))) {
                let _ = inc.opt_clone_object_to_new_document(id);
                let o = Object::Array(vec![esc_string(rng, strmax), rand_obj(rng, 2, &old)]);
                inc.new_document.objects.insert(id, o);
            }
        }
        for _ in 0..1 + rng.below(2) {
            inc.new_document.max_id += 1;
            let id = (inc.new_document.max_id, 0);
            let mut d = Dictionary::new();
            d.set("T", esc_string(rng, strmax));
            d.set("K", rand_obj(rng, 2, &old));
            inc.new_document.objects.insert(id, Object::Dictionary(d));
        }
        if rng.chance(1, 2) {
            inc.new_document.trailer.set("Note2", esc_string(rng, strmax / 2));
        }
    });
    match r {
        Ok(()) => Ok(inc),
        Err(p) => Err(format!("update panic: {p}")),
    }
}

// ------------------------------------------------------------------------ projections (plumbing)

const BOOKKEEPING: [&[u8]; 9] = [b"Size", b"Prev", b"XRefStm", b"Type", b"W", b"Index", b"Length", b"Filter", b"DecodeParms"];

/// content of a loaded document: objects and trailer without cross-reference bookkeeping
/// (DESIGN 2.2 FileStructure!Bookkeeping), as a canonical JSON string
fn content(doc: &Document) -> String {
    let objs: Vec<Value> = doc
        .objects
        .iter()
        .filter(|(_, o)| o.type_name().map(|t| t != b"XRef" && t != b"ObjStm").unwrap_or(true))
        .map(|(id, o)| json!([id.0, id.1, wire::obj_to_json(o)]))
        .collect();
    let mut tr = doc.trailer.clone();
    for k in BOOKKEEPING {
        tr.remove(k);
    }
    json!({"version": doc.version, "mark": wire::bytes_to_json(&doc.binary_mark), "trailer": wire::dict_to_json(&tr), "objects": objs})
        .to_string()
}

/// cross-reference entries of the loaded file that do not point at "<id> <gen> obj", and whether
/// startxref points at a cross-reference section
fn xref_check(bytes: &[u8], doc: &Document) -> (usize, usize, bool) {
    let mut n = 0;
    let mut bad = 0;
    for (id, e) in &doc.reference_table.entries {
        if let XrefEntry::Normal { offset, generation } = *e {
            n += 1;
            let hdr = format!("{} {} obj", id, generation);
            let off = offset as usize;
            let ok = off < bytes.len()
                && bytes[off..].starts_with(hdr.as_bytes())
                && (off == 0 || !bytes[off - 1].is_ascii_digit());
            if !ok {
                bad += 1;
            }
        }
    }
    let xs = doc.xref_start;
    let sx = xs < bytes.len()
        && (bytes[xs..].starts_with(b"xref") || {
            let t = &bytes[xs..];
            let digits = t.iter().take_while(|b| b.is_ascii_digit()).count();
            digits > 0 && t[digits..].starts_with(b" 0 obj")
        });
    (n, bad, sx)
}

fn tag<T, E: std::fmt::Debug>(r: &Result<Result<T, E>, String>) -> &'static str {
    match r {
        Ok(Ok(_)) => "ok",
        Ok(Err(_)) => "err",
        Err(_) => "panic",
    }
}

struct Reference {
    cfg: usize,
    bytes: Vec<u8>,
    w: Vec<usize>,
    content: String,
    /// the loaded reference with nothing left out (object table incl. the cross-reference stream,
    /// max_id, whole trailer): what the save of a fresh clone loads to
    strict: String,
    /// load_mem is a function of the bytes: results of loading a later output are memoised by its
    /// exact bytes (most later outputs are byte-identical to the reference)
    memo: std::cell::RefCell<std::collections::HashMap<Vec<u8>, (String, bool, bool, bool)>>,
}

/// Reference output of a configuration: a clone saved to a healthy instrumented sink.
fn reference(cfg: usize, saver: &Saver, meta: &Value) -> Result<(Reference, Value), String> {
    let mut s = saver.clone();
    let mut sink = Sink::new(Plan::healthy(), 0, usize::MAX);
    let r = guarded(|| s.save_to(&mut sink));
    if tag(&r) != "ok" {
        return Err(format!("reference save {}", tag(&r)));
    }
    let bytes = std::mem::take(&mut sink.out);
    let w: Vec<usize> = sink.log.iter().map(|c| c.0).collect();
    let loaded = guarded(|| Document::load_mem(&bytes));
    let doc = match loaded {
        Ok(Ok(d)) => d,
        other => return Err(format!("reference load {}", tag(&other))),
    };
    let (xent, xbad, sx) = xref_check(&bytes, &doc);
    let mut rec = meta.clone();
    rec["ev"] = json!("ref");
    rec["cfg"] = json!(cfg);
    rec["n"] = json!(bytes.len());
    rec["W"] = json!(w);
    rec["load"] = json!("ok");
    rec["xent"] = json!(xent);
    rec["xbad"] = json!(xbad);
    rec["sx"] = json!(sx);
    rec["nobj"] = json!(doc.objects.len());
    // region boundaries of the complete output (used only to name the class of a failing case):
    // [end of previous revisions, first object of this revision, cross-reference section, startxref tail]
    let base = saver.base_len();
    let body = doc
        .reference_table
        .entries
        .values()
        .filter_map(|e| if let XrefEntry::Normal { offset, .. } = e { Some(*offset as usize) } else { None })
        .filter(|o| *o >= base)
        .min()
        .unwrap_or(base);
    let tail = bytes.windows(10).rposition(|w| w == b"\nstartxref").unwrap_or(bytes.len());
    rec["marks"] = json!([base, body, doc.xref_start, tail]);
    rec["esc"] = json!(esc_ranges(&bytes).iter().map(|r| json!([r.0, r.1])).collect::<Vec<_>>());
    rec["zcalls"] = json!(sink.zero_calls);
    let strict = wire::doc_to_json(&doc).to_string();
    Ok((Reference { cfg, bytes, w, content: content(&doc), strict, memo: Default::default() }, rec))
}

/// Load an output and compare it with the reference: (load result, same content modulo cross-reference
/// bookkeeping, cross-reference entries valid, STRICTLY the same loaded document).  Memoised by bytes.
fn load_compare(v: &[u8], rf: &Reference) -> (String, bool, bool, bool) {
    if let Some(x) = rf.memo.borrow().get(v).cloned() {
        return x;
    }
    let ld = guarded(|| Document::load_mem(v));
    let mut x = (tag(&ld).to_string(), false, false, false);
    if let Ok(Ok(d)) = ld {
        let (_, bad, sx) = xref_check(v, &d);
        x = ("ok".to_string(), content(&d) == rf.content, bad == 0 && sx, wire::doc_to_json(&d).to_string() == rf.strict);
    }
    rf.memo.borrow_mut().insert(v.to_vec(), x.clone());
    x
}

/// Two saves of ONE clone to two healthy sinks that chunk differently.
fn twice(saver: &Saver, c1: Chunk, c2: Chunk, rf: &Reference, seed: u64) -> Value {
    let mut s = saver.clone();
    let budget = 64 * rf.bytes.len() + 4096;
    let cj = |c: Chunk| match c {
        Chunk::Full => 0i64,
        Chunk::Fixed(n) => n as i64,
        Chunk::Random(m) => -(m as i64),
    };
    let mut a = Sink::new(Plan { chunk: c1, ..Plan::healthy() }, seed, budget);
    let r1 = guarded(|| s.save_to(&mut a));
    let mut b = Sink::new(Plan { chunk: c2, ..Plan::healthy() }, seed ^ 1, budget);
    let r2 = guarded(|| s.save_to(&mut b));
    let (mut load2, mut same2, mut valid2, mut strict2) = ("none".to_string(), false, false, false);
    if tag(&r2) == "ok" {
        (load2, same2, valid2, strict2) = load_compare(&b.out, rf);
    }
    json!({"ev": "twice", "cfg": rf.cfg, "c1": cj(c1), "c2": cj(c2), "res1": tag(&r1), "res2": tag(&r2),
           "eq1": a.out == rf.bytes, "eq2": b.out == rf.bytes, "eq12": a.out == b.out, "len1": a.out.len(), "len2": b.out.len(),
           "load2": load2, "same2": same2, "valid2": valid2, "strict2": strict2})
}

/// One save of a fresh clone through a sink following `plan`; if it fails, the later save.
fn run(saver: &Saver, plan: Plan, rf: &Reference, seed: u64, full_log: bool, phase: &str) -> Value {
    let mut s = saver.clone();
    let budget = 64 * rf.bytes.len() + 4096;
    let mut sink = Sink::new(plan.clone(), seed, budget);
    let r = guarded(|| s.save_to(&mut sink));
    let (result, ek) = match &r {
        Ok(Ok(())) => ("ok", String::new()),
        Ok(Err(e)) => ("err", format!("{:?}", e.kind())),
        Err(p) => ("panic", p.chars().take(120).collect()),
    };
    // data plumbing: longest common prefix of this call log with the reference program (calls
    // accepted in full), so that only the part of the log that differs is shipped to TLC
    let mut skip = 0;
    if !full_log {
        while skip < sink.log.len() && skip < rf.w.len() && sink.log[skip] == (rf.w[skip], rf.w[skip] as i64) {
            skip += 1;
        }
    }
    // ... and the longest common suffix (the log re-joins the reference program after the sink's misbehaviour)
    let mut suf = 0;
    if !full_log {
        let (ll, wl) = (sink.log.len(), rf.w.len());
        while suf < ll - skip && suf < wl - skip.min(wl) && {
            let w = rf.w[wl - 1 - suf];
            sink.log[ll - 1 - suf] == (w, w as i64)
        } {
            suf += 1;
        }
    }
    let tail: Vec<Value> = sink.log[skip..sink.log.len() - suf].iter().map(|c| json!([c.0, c.1])).collect();
    let dpre = rf.bytes.starts_with(&sink.out);
    let mut later = json!({"res": "none", "load": "none", "same": false, "valid": false, "strict": false});
    if result == "err" {
        let mut v: Vec<u8> = Vec::new();
        let lr = guarded(|| s.save_to(&mut v));
        later["res"] = json!(tag(&lr));
        if tag(&lr) == "ok" {
            let (load, same, valid, strict) = load_compare(&v, rf);
            later["load"] = json!(load);
            later["same"] = json!(same);
            later["valid"] = json!(valid);
            later["strict"] = json!(strict);
            later["eqref"] = json!(v == rf.bytes);
            // (for the record) the delivered bytes are also a prefix of what the later save wrote
            later["dprel"] = json!(v.starts_with(&sink.out));
        }
    }
    let mut rec = json!({
        "ev": "run", "cfg": rf.cfg, "phase": phase, "plan": plan.json(), "skip": skip, "suf": suf, "tail": tail, "ncalls": sink.log.len(),
        "result": result, "dlen": sink.out.len(), "dpre": dpre, "later": later,
        "zcalls": sink.zero_calls, "flushes": sink.flushes,
    });
    if !ek.is_empty() {
        rec["ek"] = json!(ek);
    }
    rec
}

fn configs(doc: &Document, rng: &mut Rng, di: usize, strmax: usize) -> Vec<(Value, Result<Saver, String>)> {
    let mut out = vec![];
    for fmt in ["table", "stream"] {
        let mut d = doc.clone();
        d.reference_table.cross_reference_type =
            if fmt == "table" { XrefType::CrossReferenceTable } else { XrefType::CrossReferenceStream };
        out.push((json!({"doc": di, "fmt": fmt, "mode": "plain"}), Ok(Saver::Plain(d.clone()))));
        out.push((json!({"doc": di, "fmt": fmt, "mode": "incr"}), make_incr(&d, rng, strmax).map(Saver::Incr)));
    }
    out
}

fn record(args: &[String]) {
    let seed = arg_u64(args, "--seed", 1);
    let ndocs = arg_u64(args, "--docs", 6) as usize;
    let first = arg_u64(args, "--first", 0) as usize;
    let combos = arg_u64(args, "--combos", 24) as usize;
    let size = arg_u64(args, "--size", 40) as usize;
    let strmax = arg_u64(args, "--strmax", 300) as usize;
    let mut out = NdjsonOut::create(&arg(args, "--out").unwrap());
    let devfull = std::fs::OpenOptions::new().write(true).open("/dev/full").is_ok();
    let mut cfg = 0usize;
    for di in first..first + ndocs {
        // every document has its own stream, so that --first/--docs shards reproduce the same documents
        let mut rng = Rng::new(seed.wrapping_mul(0x1000_0000_01B3).wrapping_add(di as u64));
        let doc = gen_doc(&mut rng, size, strmax);
        for (meta, saver) in configs(&doc, &mut rng, di, strmax) {
            cfg += 1;
            let id = di * 4 + (cfg - 1) % 4 + 1;
            let saver = match saver {
                Ok(s) => s,
                Err(why) => {
                    let mut r = meta.clone();
                    r["ev"] = json!("skip");
                    r["cfg"] = json!(id);
                    r["why"] = json!(why);
                    out.put(&r);
                    continue;
                }
            };
            let (rf, rec) = match reference(id, &saver, &meta) {
                Ok(x) => x,
                Err(why) => {
                    let mut r = meta.clone();
                    r["ev"] = json!("skip");
                    r["cfg"] = json!(id);
                    r["why"] = json!(why);
                    out.put(&r);
                    continue;
                }
            };
            out.put(&rec);
            let n = rf.bytes.len();
            let mut sseed = rng.next_u64();
            let mut next_seed = || {
                sseed = sseed.wrapping_add(0x9E37_79B9);
                sseed
            };
            // every position x {hard error, zero-length write, Interrupted, short write} once (transient: the
            // sink is healthy again afterwards); the call that crosses the position is cut short there
            for k in 0..n {
                for kind in [Kind::Err, Kind::Ok0, Kind::Intr, Kind::Short] {
                    let plan = Plan { chunk: Chunk::Full, intr_every: 0, fail_at: Some(k), kind, sticky: false, script: vec![] };
                    out.put(&run(&saver, plan, &rf, next_seed(), false, "offset"));
                }
            }
            // chunkings, alone and with Interrupted before every n-th call
            let chunks = [
                Chunk::Full, Chunk::Fixed(1), Chunk::Fixed(2), Chunk::Fixed(3), Chunk::Fixed(7), Chunk::Fixed(13), Chunk::Random(16),
            ];
            for (ci, chunk) in chunks.iter().enumerate() {
                for intr in [0usize, 2, 3, 7] {
                    if *chunk == Chunk::Full && intr == 0 {
                        continue;
                    }
                    let plan = Plan { chunk: *chunk, intr_every: intr, fail_at: None, kind: Kind::Err, sticky: false, script: vec![] };
                    // one run per configuration ships its complete call log
                    out.put(&run(&saver, plan, &rf, next_seed(), ci == 3 && intr == 0, "chunk"));
                }
            }
            // one document object, two sinks with different chunkings
            for (c1, c2) in [
                (Chunk::Full, Chunk::Fixed(1)),
                (Chunk::Fixed(2), Chunk::Fixed(7)),
                (Chunk::Random(16), Chunk::Fixed(3)),
                (Chunk::Fixed(13), Chunk::Full),
            ] {
                out.put(&twice(&saver, c1, c2, &rf, next_seed()));
            }
            // random combinations of failure position, kind, chunking, Interrupted, stickiness
            for _ in 0..combos {
                let plan = Plan {
                    chunk: *rng.pick(&chunks),
                    intr_every: *rng.pick(&[0usize, 0, 2, 3, 5]),
                    fail_at: Some(rng.below(n.max(1))),
                    kind: *rng.pick(&[Kind::Err, Kind::Ok0, Kind::Err, Kind::Ok0, Kind::Intr]),
                    sticky: rng.chance(1, 2),
                    script: vec![],
                };
                out.put(&run(&saver, plan, &rf, next_seed(), false, "combo"));
            }
            // the path-based save: a full device makes BufWriter's final flush fail
            if devfull {
                let mut s = saver.clone();
                let r = guarded(|| s.save_path("/dev/full"));
                out.put(&json!({"ev": "devfull", "cfg": id, "result": tag(&r), "n": n}));
            }
        }
    }
    out.finish();
}

/// spec -> impl: schedules enumerated by TLC (responses per call, then healthy) against the four
/// configurations of one seeded document
fn replay(args: &[String]) {
    let seed = arg_u64(args, "--seed", 1);
    let cases = read_ndjson(&arg(args, "--in").unwrap());
    let mut out = NdjsonOut::create(&arg(args, "--out").unwrap());
    let mut rng = Rng::new(seed ^ 0xC19);
    let mut cfgs = vec![];
    let mut tries = 0;
    while cfgs.is_empty() && tries < 20 {
        tries += 1;
        let doc = gen_doc(&mut rng, 24, 60);
        let all = configs(&doc, &mut rng, 0, 60);
        let mut ok = vec![];
        for (i, (meta, saver)) in all.into_iter().enumerate() {
            if let Ok(s) = saver {
                if let Ok((rf, rec)) = reference(i + 1, &s, &meta) {
                    ok.push((s, rf, rec));
                }
            }
        }
        if ok.len() == 4 {
            cfgs = ok;
        }
    }
    if cfgs.is_empty() {
        eprintln!("c19 replay: no document with four usable configurations");
        std::process::exit(3);
    }
    // records in the format of `record`: each configuration's reference followed by its runs, so that
    // Trace_SaveSink judges them; "i" is the index of the schedule
    for (s, rf, rec) in &cfgs {
        out.put(rec);
        for (ci, c) in cases.iter().enumerate() {
            let script: Vec<i64> = c["sched"].as_array().unwrap().iter().map(|x| x.as_i64().unwrap()).collect();
            let n = script.len();
            let plan = Plan { script, ..Plan::healthy() };
            let mut r = run(s, plan, rf, 0, false, "replay");
            r["consumed"] = json!(r["ncalls"].as_u64().unwrap().min(n as u64));
            r["i"] = json!(ci);
            out.put(&r);
        }
    }
    out.finish();
}

// ------------------------------------------------------------------- numeric limit of object numbers

/// document whose highest object number is 2^32 - 2 (the loader accepts it), cross-reference stream
/// or table, plain or as the new revision of an incremental save
fn limit_doc(fmt: &str, mode: &str) -> Result<Saver, String> {
    let mut rng = Rng::new(19);
    let mut doc = gen_doc(&mut rng, 8, 30);
    doc.reference_table.cross_reference_type =
        if fmt == "table" { XrefType::CrossReferenceTable } else { XrefType::CrossReferenceStream };
    let top = (u32::MAX - 1, 0u16);
    let mut d = Dictionary::new();
    d.set("Limit", Object::Integer(1));
    if mode == "plain" {
        doc.objects.insert(top, Object::Dictionary(d));
        doc.max_id = top.0;
        Ok(Saver::Plain(doc))
    } else {
        let mut inc = make_incr(&doc, &mut rng, 30)?;
        inc.new_document.objects.insert(top, Object::Dictionary(d));
        inc.new_document.max_id = top.0;
        Ok(Saver::Incr(inc))
    }
}

/// worker side: one case per line {fmt, mode, sink: "healthy"|"chunk3"|"err"|"ok0", at: 0..=4 (quarter of the output)}
fn limit_case(line: &str) -> String {
    let c: Value = match serde_json::from_str(line) {
        Ok(v) => v,
        Err(e) => return json!({"ev": "limit", "tool": format!("bad case: {e}")}).to_string(),
    };
    let (fmt, mode) = (c["fmt"].as_str().unwrap_or("stream"), c["mode"].as_str().unwrap_or("plain"));
    let saver = match limit_doc(fmt, mode) {
        Ok(s) => s,
        Err(e) => return json!({"ev": "limit", "tool": format!("no document: {e}")}).to_string(),
    };
    // a fresh clone to a healthy sink: result, and what its output loads to; the bytes that reach the sink
    // before the writer stops (for whatever reason) fix the failure positions
    let mut s0 = saver.clone();
    let mut probe = Sink::new(Plan::healthy(), 0, 1 << 24);
    let r0 = guarded(|| s0.save_to(&mut probe));
    let refload = if tag(&r0) == "ok" { tag(&guarded(|| Document::load_mem(&probe.out))).to_string() } else { "none".to_string() };
    let d = probe.out.len();
    let at = c["at"].as_u64().unwrap_or(0) as usize;
    let k = (d * at / 4).min(d.saturating_sub(1));
    let plan = match c["sink"].as_str().unwrap_or("healthy") {
        "healthy" => Plan::healthy(),
        "chunk3" => Plan { chunk: Chunk::Fixed(3), ..Plan::healthy() },
        "ok0" => Plan { fail_at: Some(k), kind: Kind::Ok0, ..Plan::healthy() },
        _ => Plan { fail_at: Some(k), kind: Kind::Err, ..Plan::healthy() },
    };
    let mut s = saver.clone();
    let mut sink = Sink::new(plan.clone(), 1, 1 << 24);
    let r = guarded(|| s.save_to(&mut sink));
    let failed = sink.log.iter().any(|c| c.1 == 0 || c.1 == R_ERR);
    let (mut later, mut laterload) = ("none", "none");
    if failed {
        let mut v: Vec<u8> = Vec::new();
        later = tag(&guarded(|| s.save_to(&mut v)));
        if later == "ok" {
            laterload = tag(&guarded(|| Document::load_mem(&v)));
        }
    }
    let mut rec = json!({"ev": "limit", "later": later, "laterload": laterload, "maxid": (u32::MAX - 1).to_string(), "fmt": fmt, "mode": mode, "plan": plan.json(),
        "ref": tag(&r0), "refload": refload, "reflen": d, "failed": failed, "result": tag(&r), "dlen": sink.out.len()});
    if let Err(p) = &r {
        rec["panic"] = json!(p.chars().take(100).collect::<String>());
    }
    if let Ok(Err(e)) = &r {
        rec["ek"] = json!(format!("{:?}", e.kind()));
    }
    rec.to_string()
}

/// does this build check integer overflow?  (the harness, lopdf and all dependencies share the profile)
fn overflow_checked() -> bool {
    guarded(|| std::hint::black_box(u32::MAX) + std::hint::black_box(1)).is_err()
}

fn limit(args: &[String]) {
    let mut out = NdjsonOut::create(&arg(args, "--out").unwrap());
    let secs = arg_u64(args, "--timeout", 30);
    let with_table = arg_u64(args, "--table", 0) == 1;
    let profile = if overflow_checked() { "checked" } else { "wrapping" };
    let mut cases = vec![];
    let mut fmts = vec!["stream"];
    if with_table {
        fmts.push("table");
    }
    for fmt in fmts {
        for mode in ["plain", "incr"] {
            cases.push(json!({"fmt": fmt, "mode": mode, "sink": "healthy", "at": 0}).to_string());
            cases.push(json!({"fmt": fmt, "mode": mode, "sink": "chunk3", "at": 0}).to_string());
            for at in 0..=4 {
                for sink in ["err", "ok0"] {
                    cases.push(json!({"fmt": fmt, "mode": mode, "sink": sink, "at": at}).to_string());
                }
            }
        }
    }
    let exe = std::env::current_exe().expect("own path").to_string_lossy().to_string();
    let outs = sup::run_cases(&exe, &["limit-worker".to_string()], &cases, std::time::Duration::from_secs(secs), 2048);
    for (c, o) in cases.iter().zip(outs) {
        let cj: Value = serde_json::from_str(c).unwrap();
        let mut rec = match o {
            sup::Outcome::Line(l) => serde_json::from_str::<Value>(&l).unwrap_or_else(|_| json!({"ev": "limit", "tool": "bad worker line"})),
            sup::Outcome::Crash(st) => json!({"ev": "limit", "fmt": cj["fmt"], "mode": cj["mode"], "ref": "crash", "refload": "none",
                "failed": false, "result": "crash", "later": "none", "laterload": "none", "status": st, "plan": {"kind": cj["sink"], "k": -1}}),
            sup::Outcome::Hang => json!({"ev": "limit", "fmt": cj["fmt"], "mode": cj["mode"], "ref": "hang", "refload": "none",
                "failed": false, "result": "hang", "later": "none", "laterload": "none", "plan": {"kind": cj["sink"], "k": -1}}),
        };
        rec["profile"] = json!(profile);
        rec["case"] = cj;
        out.put(&rec);
    }
    out.finish();
}

fn main() {
    let args: Vec<String> = std::env::args().collect();
    // load_mem's parallel phase is C08's subject; one thread keeps thousands of tiny loads cheap
    let _ = rayon::ThreadPoolBuilder::new().num_threads(1).build_global();
    match args.get(1).map(String::as_str) {
        Some("record") => record(&args),
        Some("replay") => replay(&args),
        Some("limit") => limit(&args),
        Some("limit-worker") => sup::worker_loop(limit_case),
        _ => {
            eprintln!("usage: c19 record --seed S --docs N [--first I] [--combos M] [--size B] [--strmax L] --out F | replay --seed S --in F --out F | limit [--table 1] [--timeout S] --out F");
            std::process::exit(2)
        }
    }
}
