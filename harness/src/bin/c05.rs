//! C05 — encrypt then decrypt restores every string and stream.
//!
//! One *case* is {cfg, user, owner, doc | objs, calls:[{call, pw?}], seed}: a document, a security
//! handler configuration, a password pair and a sequence of public calls
//!   MakeState (EncryptionState::try_from(EncryptionVersion::..)), Encrypt, Decrypt(pw),
//!   AuthUser / AuthOwner / Auth(pw), Save (save_to), Load (load_mem, incl. the loader's auto-decrypt).
//! `run_case` drives the real API and logs one `Reset` event (configuration, password facts, the
//! document as an abstract tree of strings / streams with their context) followed by one `Call`
//! event per call: the Result variant, whether the trailer has /Encrypt, the number of objects and,
//! for every string / stream of the ORIGINAL document (addressed by its path), whether it is still
//! present and equals its plaintext.  Ciphertext bytes are never logged or compared (random salts /
//! IVs).  `replay` runs the behaviours TLC generated (MC_Security; abstract documents are made
//! concrete here), `record` seeded random documents (gen.rs) x configurations x Unicode passwords x
//! call sequences.  Both write the same event format, which spec/Trace_Security.tla judges.
//!
//! Documents also come in the state `Document::load_mem` leaves them in: `assemble` writes a file with
//! object streams (unfiltered /ObjStm containers) and a cross-reference stream by hand, the loaded
//! Document then holds the containers next to the objects unpacked from them and the /XRef stream
//! object.  The call `Edit` (pos) stands for the caller changing the unencrypted document: every
//! string of the object at position pos (and its content, if it is a stream) gets a new value; the
//! plaintext the items are compared with is the edited one from then on.
//!
//! Password relations ("same" / "equiv" / "diff" to the user resp. owner password) are computed here
//! with an own implementation of the canonical forms (PDFDocEncoding + 32 bytes for R <= 4; UTF-8 +
//! 127 bytes for R >= 5 on alphabets where SASLprep is the identity) — not with lopdf's code.
use lopdf::encryption::crypt_filters::{Aes128CryptFilter, Aes256CryptFilter, CryptFilter, IdentityCryptFilter, Rc4CryptFilter};
use lopdf::{Dictionary, Document, EncryptionState, EncryptionVersion, Object, Permissions, Stream, StringFormat};
use lopdf_conform::{gen, guard::guarded, io::*, rng::Rng, wire};
use rayon::prelude::*;
use serde_json::{json, Value};
use std::collections::BTreeMap;
use std::sync::Arc;

// ------------------------------------------------------------------------------------------------
// paths and items

#[derive(Clone, Debug, PartialEq)]
enum Seg {
    Idx(usize),
    Key(Vec<u8>),
    SKey(Vec<u8>), // entry of a stream's dictionary
    Content,       // a stream's content
}

#[derive(Clone, Debug)]
struct Item {
    id: (u32, u16),
    path: Vec<Seg>,
    kind: &'static str, // "str" | "stream"
    insd: bool,
    otyp: &'static str,
    inmd: bool,
    crypt: (String, String, bool),
    plain: Vec<u8>,
    osm: bool, // the object is a member of an object stream container held by the document
    gone: bool, // the caller deleted the object
}

fn typ_of(d: &Dictionary) -> &'static str {
    match d.get(b"Type").and_then(Object::as_name) {
        Ok(b"Metadata") => "Metadata",
        Ok(b"XRef") => "XRef",
        Ok(b"ObjStm") => "ObjStm",
        _ => "-",
    }
}

/// objects that save never writes (cross-reference bookkeeping)
fn bookkeeping(o: &Object) -> bool {
    matches!(o.type_name(), Ok(b"ObjStm") | Ok(b"XRef") | Ok(b"Linearized"))
}

/// The stream's Crypt filter as ISO 32000 reads it: (form, name, given through an indirect object).  References in
/// DecodeParms, in its array element and in Name are resolved in `doc` (ISO 32000-1 7.3.10).
fn crypt_of(s: &Stream, doc: Option<&Document>) -> (String, String, bool) {
    let none = ("none".to_string(), String::new(), false);
    let filters: Vec<Vec<u8>> = match s.dict.get(b"Filter") {
        Ok(Object::Name(n)) => vec![n.clone()],
        Ok(Object::Array(a)) => a.iter().filter_map(|o| o.as_name().ok().map(|n| n.to_vec())).collect(),
        _ => return none,
    };
    let Some(idx) = filters.iter().position(|f| f == b"Crypt") else { return none };
    let mut ind = false;
    let mut res = |o: &Object| -> Object {
        match (o, doc) {
            (Object::Reference(id), Some(d)) => {
                ind = true;
                d.objects.get(id).cloned().unwrap_or(Object::Null)
            }
            _ => o.clone(),
        }
    };
    let parms = s.dict.get(b"DecodeParms").ok().map(&mut res);
    let (form, d) = match parms {
        Some(Object::Dictionary(d)) => ("name", Some(d)),
        Some(Object::Array(a)) => match a.get(idx).map(&mut res) {
            Some(Object::Dictionary(d)) => ("arr", Some(d)),
            _ => ("nodp", None),
        },
        _ => ("nodp", None),
    };
    let name = d.and_then(|d| d.get(b"Name").ok().map(&mut res)).and_then(|o| o.as_name().ok().map(|n| String::from_utf8_lossy(n).to_string()));
    match (form, name) {
        ("nodp", _) => ("nodp".into(), String::new(), ind),
        (f, Some(n)) => (f.into(), n, ind),
        ("name", None) => ("noname".into(), String::new(), ind),
        (_, None) => ("nodp".into(), String::new(), ind),
    }
}

struct Ctx<'a> {
    doc: Option<&'a Document>,
    insd: bool,
    otyp: &'static str,
    inmd: bool,
}

/// abstract tree of `o` (None if it holds no string / stream) + its items, depth first, a
/// stream's content before the entries of its dictionary
fn walk(o: &Object, id: (u32, u16), path: &mut Vec<Seg>, ctx: &Ctx, items: &mut Vec<Item>) -> Option<Value> {
    match o {
        Object::String(b, _) => {
            items.push(Item { id, path: path.clone(), kind: "str", insd: ctx.insd, otyp: ctx.otyp, inmd: ctx.inmd,
                              crypt: ("none".into(), String::new(), false), plain: b.clone(), osm: false, gone: false });
            Some(json!({"k": "str", "pid": items.len(), "len": b.len()}))
        }
        Object::Array(a) => {
            let mut v = vec![];
            for (i, x) in a.iter().enumerate() {
                path.push(Seg::Idx(i));
                if let Some(t) = walk(x, id, path, ctx, items) {
                    v.push(t);
                }
                path.pop();
            }
            if v.is_empty() { None } else { Some(json!({"k": "arr", "v": v})) }
        }
        Object::Dictionary(d) => {
            let typ = typ_of(d);
            let c = Ctx { doc: ctx.doc, insd: ctx.insd, otyp: ctx.otyp, inmd: ctx.inmd || typ == "Metadata" };
            let mut v = vec![];
            for (k, x) in d.iter() {
                path.push(Seg::Key(k.clone()));
                if let Some(t) = walk(x, id, path, &c, items) {
                    v.push(t);
                }
                path.pop();
            }
            if v.is_empty() { None } else { Some(json!({"k": "dict", "typ": typ, "v": v})) }
        }
        Object::Stream(s) => {
            let typ = typ_of(&s.dict);
            let crypt = crypt_of(s, ctx.doc);
            path.push(Seg::Content);
            items.push(Item { id, path: path.clone(), kind: "stream", insd: false, otyp: typ, inmd: false, crypt: crypt.clone(),
                              plain: s.content.clone(), osm: false, gone: false });
            path.pop();
            let pid = items.len();
            let c = Ctx { doc: ctx.doc, insd: true, otyp: typ, inmd: false };
            let mut v = vec![];
            for (k, x) in s.dict.iter() {
                path.push(Seg::SKey(k.clone()));
                if let Some(t) = walk(x, id, path, &c, items) {
                    v.push(t);
                }
                path.pop();
            }
            Some(json!({"k": "stream", "typ": typ, "crypt": {"f": crypt.0, "n": crypt.1, "ind": crypt.2}, "d": v, "pid": pid, "len": s.content.len(), "mem": [],
                        "il": matches!(s.dict.get(b"Length"), Ok(Object::Reference(_)))}))
        }
        _ => None,
    }
}

/// (abstract objects in id order, items).  An /ObjStm container gets `mem`: the positions of the objects it holds a
/// copy of (read with lopdf's ObjectStream parser from a clone; a ghost fact for the impl-shaped layer only).
fn abstract_of(doc: &Document) -> (Vec<Value>, Vec<Item>) {
    let mut items = vec![];
    let mut objs = vec![];
    let ids: Vec<(u32, u16)> = doc.objects.keys().copied().collect();
    let mut members = std::collections::BTreeSet::new();
    for (id, o) in doc.objects.iter() {
        let t = walk(o, *id, &mut vec![], &Ctx { doc: Some(doc), insd: false, otyp: "-", inmd: false }, &mut items);
        // (an object without strings that save never writes still is bookkeeping for the object count)
        let mut t = t.unwrap_or_else(|| if bookkeeping(o) { json!({"k": "dict", "typ": "XRef", "v": []}) } else { json!({"k": "other"}) });
        if let Object::Stream(s) = o {
            if typ_of(&s.dict) == "ObjStm" {
                let held = guarded(|| lopdf::ObjectStream::new(&mut s.clone()).map(|os| os.objects.keys().copied().collect::<Vec<_>>()).unwrap_or_default())
                    .unwrap_or_default();
                let pos: Vec<usize> = held.iter().filter_map(|m| ids.iter().position(|x| x == m).map(|p| p + 1)).collect();
                members.extend(held);
                t["mem"] = json!(pos);
            }
        }
        objs.push(t);
    }
    for it in items.iter_mut() {
        it.osm = members.contains(&it.id);
    }
    (objs, items)
}

fn lookup<'a>(doc: &'a Document, it: &Item) -> Option<&'a [u8]> {
    let mut cur = doc.objects.get(&it.id)?;
    for seg in &it.path {
        match (seg, cur) {
            (Seg::Idx(i), Object::Array(a)) => cur = a.get(*i)?,
            (Seg::Key(k), Object::Dictionary(d)) => cur = d.get(k).ok()?,
            (Seg::SKey(k), Object::Stream(s)) => cur = s.dict.get(k).ok()?,
            (Seg::Content, Object::Stream(s)) => return if it.kind == "stream" { Some(&s.content) } else { None },
            _ => return None,
        }
    }
    match cur {
        Object::String(b, _) if it.kind == "str" => Some(b),
        _ => None,
    }
}

fn observe(doc: &Document, items: &[Item]) -> Value {
    Value::Array(
        items
            .iter()
            .map(|it| {
                let cur = lookup(doc, it);
                json!({"kind": it.kind, "insd": it.insd, "otyp": it.otyp, "inmd": it.inmd, "osm": it.osm,
                       "crypt": {"f": it.crypt.0, "n": it.crypt.1, "ind": it.crypt.2}, "gone": it.gone, "len": it.plain.len(),
                       "present": cur.is_some(), "eq": cur.map(|c| c == &it.plain[..]).unwrap_or(false)})
            })
            .collect(),
    )
}

fn nobj(doc: &Document) -> usize {
    doc.objects.values().filter(|o| !bookkeeping(o)).count()
}

// ------------------------------------------------------------------------------------------------
// passwords: canonical forms, independent of lopdf

fn safe6(c: char) -> bool {
    let u = c as u32;
    (0x20..=0x7E).contains(&u) || (0xC0..=0xFF).contains(&u) || (0x410..=0x44F).contains(&u) || (0x4E00..=0x9FA5).contains(&u)
}

fn enc4(c: char) -> bool {
    let u = c as u32;
    (0x20..=0x7E).contains(&u) || (0xC0..=0xFF).contains(&u)
}

/// Revisions 2-4, the canonical form of the property: PDFDocEncoding code for the characters that have one (ASCII and
/// Latin-1 letters keep their code here), a character without a code stays what it is.
fn atoms(s: &str) -> Vec<u32> {
    s.chars().map(|c| if enc4(c) { c as u32 } else { (c as u32) | 0x8000_0000 }).collect()
}

/// what lopdf makes of a revision 2-4 password today: characters without a code are dropped, first 32 bytes
fn drop4(s: &str) -> Vec<u8> {
    let mut v: Vec<u8> = s.chars().filter(|c| enc4(*c)).map(|c| c as u32 as u8).collect();
    v.truncate(32);
    v
}

fn canon6(s: &str) -> Vec<u8> {
    let mut v = s.as_bytes().to_vec();
    v.truncate(127);
    v
}

/// representable: revisions 2-4 every character has a PDFDocEncoding code; revisions 5-6 SASLprep is the identity on it
fn representable(r: i64, s: &str) -> bool {
    if r <= 4 { s.chars().all(enc4) } else { s.chars().all(safe6) }
}

fn rel1(r: i64, pw: &str, reference: &str) -> &'static str {
    if pw == reference {
        return "same";
    }
    if r <= 4 {
        let (a, b) = (atoms(pw), atoms(reference));
        if representable(r, pw) && representable(r, reference) {
            // PDFDocEncoding, first 32 bytes
            if a.iter().take(32).eq(b.iter().take(32)) { "equiv" } else { "diff" }
        } else if !a.iter().take(8).eq(b.iter().take(8)) {
            // whatever is done with characters PDFDocEncoding lacks (refused, or encoded injectively with <= 4 bytes
            // each): a difference within the first 8 characters is a difference within the first 32 bytes
            "diff"
        } else {
            "unsure"
        }
    } else if !representable(r, pw) || !representable(r, reference) {
        "unsure"
    } else if canon6(pw) != canon6(reference) {
        "diff"
    } else {
        "equiv"
    }
}

/// Revisions 2-4: an empty owner password means "there is no owner password" and Algorithm 3 (a) uses the user
/// password in its place (lopdf since fix: c09ccb6).
fn rel_owner(r: i64, pw: &str, user: &str, owner: &str) -> &'static str {
    // (revisions 5-6: Algorithms 8 / 9 have no such step, an empty owner password is the owner password)
    rel1(r, pw, if r <= 4 && owner.is_empty() { user } else { owner })
}

/// does lopdf's convention of today let `pw` authenticate as (user, owner)?  (read by the impl-shaped layer only)
fn auth_today(r: i64, pw: &str, user: &str, owner: &str) -> (bool, bool) {
    if r <= 4 {
        let eff = if drop4(owner).is_empty() { user } else { owner };
        (drop4(pw) == drop4(user), drop4(pw) == drop4(eff))
    } else {
        let ok = representable(r, pw);
        (ok && canon6(pw) == canon6(user), ok && canon6(pw) == canon6(owner))
    }
}

fn rel(r: i64, pw: &str, user: &str, owner: &str) -> Value {
    let (ud, od) = auth_today(r, pw, user, owner);
    json!({"u": rel1(r, pw, user), "o": rel_owner(r, pw, user, owner), "ud": ud, "od": od, "rep": representable(r, pw)})
}

fn no_rel() -> Value {
    json!({"u": "diff", "o": "diff", "ud": false, "od": false, "rep": true})
}

// ------------------------------------------------------------------------------------------------
// configuration -> EncryptionState

fn filter_of(m: &str) -> Arc<dyn CryptFilter> {
    match m {
        "RC4" => Arc::new(Rc4CryptFilter),
        "AES128" => Arc::new(Aes128CryptFilter),
        "AES256" => Arc::new(Aes256CryptFilter),
        "Identity" => Arc::new(IdentityCryptFilter),
        _ => panic!("harness: unknown method {m}"),
    }
}

fn make_state(doc: &Document, cfg: &Value, user: &str, owner: &str, perms: Permissions, fek: &[u8]) -> Result<EncryptionState, lopdf::Error> {
    let cf: BTreeMap<Vec<u8>, Arc<dyn CryptFilter>> = cfg["cf"]
        .as_array()
        .map(|a| a.iter().map(|p| (p[0].as_str().unwrap().as_bytes().to_vec(), filter_of(p[1].as_str().unwrap()))).collect())
        .unwrap_or_default();
    let stmf = cfg["stmf"].as_str().unwrap_or("").as_bytes().to_vec();
    let strf = cfg["strf"].as_str().unwrap_or("").as_bytes().to_vec();
    let em = cfg["em"].as_bool().unwrap_or(true);
    let v = cfg["V"].as_i64().unwrap();
    let r = cfg["R"].as_i64().unwrap();
    let version = match (v, r) {
        (1, _) => EncryptionVersion::V1 { document: doc, owner_password: owner, user_password: user, permissions: perms },
        (2, _) => EncryptionVersion::V2 { document: doc, owner_password: owner, user_password: user,
                                          key_length: cfg["klen"].as_u64().unwrap() as usize, permissions: perms },
        (4, _) => EncryptionVersion::V4 { document: doc, encrypt_metadata: em, crypt_filters: cf, stream_filter: stmf, string_filter: strf,
                                          owner_password: owner, user_password: user, permissions: perms },
        #[allow(deprecated)]
        (5, 5) => EncryptionVersion::R5 { encrypt_metadata: em, crypt_filters: cf, file_encryption_key: fek, stream_filter: stmf,
                                          string_filter: strf, owner_password: owner, user_password: user, permissions: perms },
        (5, _) => EncryptionVersion::V5 { encrypt_metadata: em, crypt_filters: cf, file_encryption_key: fek, stream_filter: stmf,
                                          string_filter: strf, owner_password: owner, user_password: user, permissions: perms },
        _ => panic!("harness: unknown version {v}"),
    };
    EncryptionState::try_from(version)
}

// ------------------------------------------------------------------------------------------------
// one case

fn snapshot(doc: &Document, with_trailer: bool) -> Value {
    let objs: Vec<Value> = doc.objects.iter().map(|(id, o)| json!([id.0, id.1, wire::obj_to_json(o)])).collect();
    if with_trailer {
        json!([objs, wire::dict_to_json(&doc.trailer)])
    } else {
        json!([objs, doc.trailer.get(b"Encrypt").map(wire::obj_to_json).unwrap_or(json!("-"))])
    }
}

/// the configuration as the trace spec reads it (password facts depend on the revision)
fn cfg_record(cfg: &Value, user: &str, owner: &str, nobj0: usize) -> Value {
    let r = cfg["R"].as_i64().unwrap();
    let ulen = if r <= 4 { drop4(user).len() } else { user.len() };
    let olen = if r <= 4 { drop4(owner).len() } else { owner.len() };
    json!({"V": cfg["V"], "R": r, "klen": cfg["klen"], "em": cfg["em"], "cf": cfg["cf"], "stmf": cfg["stmf"], "strf": cfg["strf"],
           "ulen": ulen, "olen": olen, "e": rel(r, "", user, owner), "nobj0": nobj0,
           "urep": representable(r, user), "orep": representable(r, owner)})
}

fn run_case(k: usize, mut doc: Document, cfg0: &Value, user: &str, owner: &str, calls: &[Value], seed: u64) -> Vec<Value> {
    let mut rng = Rng::new(seed ^ 0xC05);
    let mut cfg = cfg0.clone();
    let mut r = cfg["R"].as_i64().unwrap();
    let nobj0 = nobj(&doc);
    let (objs, mut items) = abstract_of(&doc);
    let ids0: Vec<(u32, u16)> = doc.objects.keys().copied().collect();
    let perms = Permissions::from_bits_truncate(rng.next_u64());
    let fek: Vec<u8> = (0..32).map(|_| rng.byte()).collect();
    let mut out = vec![json!({"ev": "Reset", "case": k, "cfg": cfg_record(&cfg, user, owner, nobj0),
        "objs": objs, "nitems": items.len(), "perms": perms.bits() & 0xFFFF})];
    let mut state: Option<EncryptionState> = None;
    let mut file: Option<Vec<u8>> = None;
    for c in calls {
        let call = c["call"].as_str().unwrap();
        let pw = c.get("pw").and_then(Value::as_str).unwrap_or("");
        let strict = !matches!(call, "Save" | "Load" | "Encrypt");
        let before = snapshot(&doc, strict);
        let res: Result<Result<(), String>, String> = match call {
            "Rekey" if doc.trailer.get(b"Encrypt").is_ok() => Ok(Err("harness:encrypted".into())),
            "MakeState" | "Rekey" => {
                if call == "Rekey" {
                    // MakeState for another configuration (same passwords); a file of the old one is forgotten
                    cfg = c["cfg"].clone();
                    r = cfg["R"].as_i64().unwrap();
                    file = None;
                }
                state = None;
                guarded(|| make_state(&doc, &cfg, user, owner, perms, &fek)).map(|x| match x {
                Ok(st) => {
                    state = Some(st);
                    Ok(())
                }
                Err(e) => Err(wire::err_tag(&e) + ":" + &format!("{e:?}").chars().take(60).collect::<String>()),
            })
            }
            "Encrypt" => match &state {
                None => Ok(Err("harness:no-state".into())),
                Some(st) => guarded(|| doc.encrypt(st)).map(|x| x.map_err(|e| format!("{e:?}").chars().take(60).collect())),
            },
            "Decrypt" => guarded(|| doc.decrypt(pw)).map(|x| x.map_err(|e| format!("{e:?}").chars().take(60).collect())),
            "AuthUser" => guarded(|| doc.authenticate_user_password(pw)).map(|x| x.map_err(|e| format!("{e:?}").chars().take(60).collect())),
            "AuthOwner" => guarded(|| doc.authenticate_owner_password(pw)).map(|x| x.map_err(|e| format!("{e:?}").chars().take(60).collect())),
            "Auth" => guarded(|| doc.authenticate_password(pw)).map(|x| x.map_err(|e| format!("{e:?}").chars().take(60).collect())),
            "Save" => guarded(|| {
                let mut buf = vec![];
                doc.save_to(&mut buf).map(|_| buf)
            })
            .map(|x| match x {
                Ok(b) => {
                    file = Some(b);
                    Ok(())
                }
                Err(e) => Err(format!("{e:?}").chars().take(60).collect()),
            }),
            // the encrypted form of the (unencrypted) document as a two-revision file with object streams
            "SaveRev" => match &state {
                _ if doc.trailer.get(b"Encrypt").is_ok() => Ok(Err("harness:encrypted".into())),
                None => Ok(Err("harness:no-state".into())),
                Some(st) => match guarded(|| two_revision_file(&doc, st, &mut rng)) {
                    Ok(Some((b, moved))) => {
                        file = Some(b);
                        items.iter_mut().filter(|it| it.id == moved).for_each(|it| it.osm = true);
                        Ok(Ok(()))
                    }
                    Ok(None) => Ok(Err("harness:no-member".into())),
                    Err(p) => Err(p),
                },
            },
            // an incremental update of the saved file that rewrites one object with the value it has
            "SaveInc" => match &file {
                None => Ok(Err("harness:no-file".into())),
                Some(b) => guarded(|| -> Result<Vec<u8>, String> {
                    let mut inc = lopdf::IncrementalDocument::load_from(&b[..]).map_err(|e| format!("load:{e:?}"))?;
                    let id = inc.get_prev_documents().objects.iter().find(|(_, o)| !bookkeeping(o) && !matches!(o.type_name(), Ok(b"Catalog")))
                        .map(|(id, _)| *id).ok_or("harness:no-object".to_string())?;
                    if inc.get_prev_documents().trailer.get(b"Encrypt").and_then(Object::as_reference).ok() == Some(id) {
                        return Err("harness:no-object".into());
                    }
                    inc.opt_clone_object_to_new_document(id).map_err(|e| format!("clone:{e:?}"))?;
                    let mut out = vec![];
                    inc.save_to(&mut out).map_err(|e| format!("save:{e:?}"))?;
                    Ok(out)
                })
                .map(|x| match x {
                    Ok(nb) => {
                        file = Some(nb);
                        Ok(())
                    }
                    Err(e) => Err(e.chars().take(60).collect()),
                }),
            },
            "Load" => match &file {
                None => Ok(Err("harness:no-file".into())),
                Some(b) => guarded(|| Document::load_mem(b)).map(|x| match x {
                    Ok(d) => {
                        doc = d;
                        Ok(())
                    }
                    Err(e) => Err(format!("{e:?}").chars().take(60).collect()),
                }),
            },
            "Delete" => {
                let pos = c["pos"].as_u64().unwrap_or(0) as usize;
                match ids0.get(pos.wrapping_sub(1)) {
                    _ if doc.trailer.get(b"Encrypt").is_ok() => Ok(Err("harness:encrypted".into())),
                    Some(id) if doc.objects.get(id).map(|o| !bookkeeping(o) && !matches!(o, Object::Stream(_))).unwrap_or(false) => {
                        doc.objects.remove(id);
                        items.iter_mut().filter(|it| it.id == *id).for_each(|it| it.gone = true);
                        Ok(Ok(()))
                    }
                    _ => Ok(Err("harness:absent".into())),
                }
            }
            "Edit" => {
                let pos = c["pos"].as_u64().unwrap_or(0) as usize;
                match ids0.get(pos.wrapping_sub(1)) {
                    _ if doc.trailer.get(b"Encrypt").is_ok() => Ok(Err("harness:encrypted".into())),
                    Some(id) if doc.objects.get(id).map(|o| !bookkeeping(o)).unwrap_or(false) => {
                        edit(doc.objects.get_mut(id).unwrap(), &mut rng);
                        for it in items.iter_mut().filter(|it| it.id == *id) {
                            if let Some(b) = lookup(&doc, it) {
                                it.plain = b.to_vec();
                            }
                        }
                        Ok(Ok(()))
                    }
                    _ => Ok(Err("harness:absent".into())),
                }
            }
            _ => panic!("harness: unknown call {call}"),
        };
        let mut ev = json!({"ev": "Call", "case": k, "call": call, "pos": c.get("pos").and_then(Value::as_u64).unwrap_or(0),
            "rel": if c.get("pw").is_some() { rel(r, pw, user, owner) } else { no_rel() },
            "tenc": doc.trailer.get(b"Encrypt").is_ok(), "nobj": nobj(&doc),
            "same": snapshot(&doc, strict) == before, "items": observe(&doc, &items)});
        match res {
            Ok(Ok(())) => {
                ev["res"] = json!("Ok");
                ev["tag"] = json!("Ok");
            }
            Ok(Err(t)) => {
                ev["res"] = json!("Err");
                ev["tag"] = json!(t);
            }
            Err(p) => {
                ev["res"] = json!("Err");
                ev["tag"] = json!("panic");
                ev["panic"] = json!(p.chars().take(200).collect::<String>());
            }
        }
        if let Some(t) = c.get("tok") {
            ev["tok"] = t.clone();
        }
        if call == "Rekey" {
            // (a refused Rekey leaves the configuration as it was)
            ev["cfg"] = cfg_record(&cfg, user, owner, nobj0);
        }
        out.push(ev);
    }
    out
}

/// the caller's edit: every string of the object (and the content of a stream) gets a new value, 3 bytes longer
fn edit(o: &mut Object, rng: &mut Rng) {
    match o {
        Object::String(b, _) => *b = (0..b.len() + 3).map(|_| rng.byte()).collect(),
        Object::Array(a) => a.iter_mut().for_each(|x| edit(x, rng)),
        Object::Dictionary(d) => d.iter_mut().for_each(|(_, x)| edit(x, rng)),
        Object::Stream(s) => {
            s.dict.iter_mut().for_each(|(_, x)| edit(x, rng));
            let c: Vec<u8> = (0..s.content.len() + 3).map(|_| rng.byte()).collect();
            s.set_content(c);
        }
        _ => {}
    }
}

// ------------------------------------------------------------------------------------------------
// files with object streams and a cross-reference stream, written by hand (ISO 32000-1 7.5.7, 7.5.8)

fn ser_name(n: &[u8], out: &mut Vec<u8>) {
    out.push(b'/');
    for &b in n {
        if (33..=126).contains(&b) && !b"()<>[]{}/%#".contains(&b) {
            out.push(b);
        } else {
            out.extend_from_slice(format!("#{b:02X}").as_bytes());
        }
    }
}

fn ser_dict(d: &Dictionary, skip_length: bool, out: &mut Vec<u8>) {
    out.extend_from_slice(b"<<");
    for (k, v) in d.iter() {
        if skip_length && k == b"Length" {
            continue;
        }
        ser_name(k, out);
        out.push(b' ');
        ser(v, out);
    }
    out.extend_from_slice(b">>");
}

/// a direct object (strings in hexadecimal form, reals without exponent)
fn ser(o: &Object, out: &mut Vec<u8>) {
    match o {
        Object::Null => out.extend_from_slice(b"null"),
        Object::Boolean(b) => out.extend_from_slice(if *b { b"true" } else { b"false" }),
        Object::Integer(i) => out.extend_from_slice(i.to_string().as_bytes()),
        Object::Real(r) => out.extend_from_slice(if r.is_finite() { format!("{r}") } else { "0".to_string() }.as_bytes()),
        Object::Name(n) => ser_name(n, out),
        Object::String(b, _) => {
            out.push(b'<');
            b.iter().for_each(|x| out.extend_from_slice(format!("{x:02X}").as_bytes()));
            out.push(b'>');
        }
        Object::Array(a) => {
            out.push(b'[');
            for (i, x) in a.iter().enumerate() {
                if i > 0 {
                    out.push(b' ');
                }
                ser(x, out);
            }
            out.push(b']');
        }
        Object::Dictionary(d) => ser_dict(d, false, out),
        Object::Reference(id) => out.extend_from_slice(format!("{} {} R", id.0, id.1).as_bytes()),
        Object::Stream(_) => panic!("harness: a stream is not a direct object"),
    }
}

/// The file: ordinary objects, one unfiltered /ObjStm container per entry of `containers` (container number, members),
/// a cross-reference stream numbered `xref_id` (/W [1 4 2]) that carries the trailer entries.
fn assemble(doc: &Document, containers: &[(u32, Vec<(u32, u16)>)], xref_id: u32) -> Vec<u8> {
    let mut out: Vec<u8> = b"%PDF-1.5\n%\xE2\xE3\xCF\xD3\n".to_vec();
    let in_container: BTreeMap<(u32, u16), (u32, usize)> =
        containers.iter().flat_map(|(c, ms)| ms.iter().enumerate().map(move |(i, m)| (*m, (*c, i)))).collect();
    let mut entries: BTreeMap<u32, (u8, u32, u16)> = BTreeMap::new();
    for (id, o) in doc.objects.iter() {
        if in_container.contains_key(id) {
            continue;
        }
        entries.insert(id.0, (1, out.len() as u32, id.1));
        out.extend_from_slice(format!("{} {} obj\n", id.0, id.1).as_bytes());
        match o {
            Object::Stream(s) => {
                let mut d = s.dict.clone();
                if !matches!(d.get(b"Length"), Ok(Object::Reference(_))) {
                    d.set("Length", s.content.len() as i64);
                }
                ser_dict(&d, false, &mut out);
                out.extend_from_slice(b"\nstream\n");
                out.extend_from_slice(&s.content);
                out.extend_from_slice(b"\nendstream");
            }
            o => ser(o, &mut out),
        }
        out.extend_from_slice(b"\nendobj\n");
    }
    for (c, ms) in containers {
        let (mut index, mut body) = (Vec::new(), Vec::new());
        for (i, m) in ms.iter().enumerate() {
            index.extend_from_slice(format!("{} {} ", m.0, body.len()).as_bytes());
            ser(&doc.objects[m], &mut body);
            body.push(b'\n');
            entries.insert(m.0, (2, *c, i as u16));
        }
        entries.insert(*c, (1, out.len() as u32, 0));
        out.extend_from_slice(format!("{} 0 obj\n<</Type/ObjStm/N {}/First {}/Length {}>>\nstream\n", c, ms.len(), index.len(), index.len() + body.len()).as_bytes());
        out.extend_from_slice(&index);
        out.extend_from_slice(&body);
        out.extend_from_slice(b"\nendstream\nendobj\n");
    }
    let start = out.len();
    entries.insert(xref_id, (1, start as u32, 0));
    let size = entries.keys().max().copied().unwrap_or(0) + 1;
    let mut table = Vec::new();
    for n in 0..size {
        let (t, a, b) = if n == 0 { (0, 0, 65535) } else { entries.get(&n).copied().unwrap_or((0, 0, 0)) };
        table.push(t);
        table.extend_from_slice(&a.to_be_bytes());
        table.extend_from_slice(&b.to_be_bytes());
    }
    let mut d = Dictionary::new();
    for (k, v) in doc.trailer.iter() {
        if ![&b"Type"[..], b"Size", b"W", b"Index", b"Length", b"Filter", b"DecodeParms", b"Prev", b"XRefStm"].contains(&&k[..]) {
            d.set(k.clone(), v.clone());
        }
    }
    out.extend_from_slice(format!("{xref_id} 0 obj\n<</Type/XRef/Size {size}/W[1 4 2]/Length {}", table.len()).as_bytes());
    let mut rest = Vec::new();
    ser_dict(&d, false, &mut rest);
    out.extend_from_slice(&rest[2..]); // the trailer entries, closing ">>" included
    out.extend_from_slice(b"\nstream\n");
    out.extend_from_slice(&table);
    out.extend_from_slice(b"\nendstream\nendobj\n");
    out.extend_from_slice(format!("startxref\n{start}\n%%EOF").as_bytes());
    out
}

fn write_object(out: &mut Vec<u8>, id: (u32, u16), o: &Object) {
    out.extend_from_slice(format!("{} {} obj\n", id.0, id.1).as_bytes());
    match o {
        Object::Stream(s) => {
            let mut d = s.dict.clone();
            if !matches!(d.get(b"Length"), Ok(Object::Reference(_))) {
                d.set("Length", s.content.len() as i64);
            }
            ser_dict(&d, false, out);
            out.extend_from_slice(b"\nstream\n");
            out.extend_from_slice(&s.content);
            out.extend_from_slice(b"\nendstream");
        }
        o => ser(o, out),
    }
    out.extend_from_slice(b"\nendobj\n");
}

/// a cross-reference stream (/W [1 4 2], one /Index subsection per entry) numbered `id`, carrying `trailer`
fn write_xref_stream(out: &mut Vec<u8>, id: u32, entries: &mut BTreeMap<u32, (u8, u32, u16)>, size: u32, trailer: &Dictionary, prev: Option<usize>) -> usize {
    let start = out.len();
    entries.insert(id, (1, start as u32, 0));
    let (mut table, mut index) = (Vec::new(), String::new());
    for (n, (t, a, b)) in entries.iter() {
        index.push_str(&format!("{n} 1 "));
        table.push(*t);
        table.extend_from_slice(&a.to_be_bytes());
        table.extend_from_slice(&b.to_be_bytes());
    }
    let mut d = Dictionary::new();
    for (k, v) in trailer.iter() {
        if ![&b"Type"[..], b"Size", b"W", b"Index", b"Length", b"Filter", b"DecodeParms", b"Prev", b"XRefStm"].contains(&&k[..]) {
            d.set(k.clone(), v.clone());
        }
    }
    if let Some(p) = prev {
        d.set("Prev", p as i64);
    }
    out.extend_from_slice(format!("{id} 0 obj\n<</Type/XRef/Size {size}/W[1 4 2]/Index[{index}]/Length {}", table.len()).as_bytes());
    let mut rest = Vec::new();
    ser_dict(&d, false, &mut rest);
    out.extend_from_slice(&rest[2..]);
    out.extend_from_slice(b"\nstream\n");
    out.extend_from_slice(&table);
    out.extend_from_slice(b"\nendstream\nendobj\n");
    start
}

fn object_stream(members: &[((u32, u16), Object)]) -> Object {
    let (mut index, mut body) = (Vec::new(), Vec::new());
    for (id, o) in members {
        index.extend_from_slice(format!("{} {} ", id.0, body.len()).as_bytes());
        ser(o, &mut body);
        body.push(b'\n');
    }
    let mut d = Dictionary::new();
    d.set("Type", Object::Name(b"ObjStm".to_vec()));
    d.set("N", members.len() as i64);
    d.set("First", index.len() as i64);
    index.extend_from_slice(&body);
    Object::Stream(Stream::new(d, index))
}

/// What another producer may write for the encrypted form of `plain`: a file of TWO revisions with cross-reference
/// streams in which object `moved` lives in an object stream of revision 1 (an older value) and in a new object stream
/// of revision 2 (its value in `plain`); other eligible objects stay in the first container.  The ciphertext is made
/// by lopdf's own Document::encrypt (object streams are encrypted as streams, their members are not).  Returns the
/// file and the id of `moved`; None if the document has no eligible object.
fn two_revision_file(plain: &Document, state: &EncryptionState, rng: &mut Rng) -> Option<(Vec<u8>, (u32, u16))> {
    let mut d = plain.clone();
    d.objects.retain(|_, o| !bookkeeping(o));
    let eligible: Vec<(u32, u16)> = d.objects.iter()
        .filter(|(id, o)| id.1 == 0 && !matches!(o, Object::Stream(_)) && walk(o, **id, &mut vec![], &Ctx { doc: None, insd: false, otyp: "-", inmd: false }, &mut vec![]).is_some())
        .map(|(id, _)| *id).take(3).collect();
    let moved = *eligible.first()?;
    let top = d.objects.keys().map(|k| k.0).max().unwrap_or(0).max(d.max_id);
    let (c1, c2) = (top + 1, top + 2);
    let mut old = d.objects[&moved].clone();
    edit(&mut old, rng);
    let first: Vec<((u32, u16), Object)> = eligible.iter().map(|id| (*id, if *id == moved { old.clone() } else { d.objects[id].clone() })).collect();
    let second = vec![(moved, d.objects[&moved].clone())];
    for id in &eligible {
        d.objects.remove(id);
    }
    d.objects.insert((c1, 0), object_stream(&first));
    d.objects.insert((c2, 0), object_stream(&second));
    d.max_id = c2;
    d.encrypt(state).ok()?;
    let mut out: Vec<u8> = b"%PDF-1.5\n%\xE2\xE3\xCF\xD3\n".to_vec();
    let mut e1: BTreeMap<u32, (u8, u32, u16)> = BTreeMap::new();
    e1.insert(0, (0, 0, 65535));
    for (id, o) in d.objects.iter().filter(|(id, _)| id.0 != c2) {
        e1.insert(id.0, (1, out.len() as u32, id.1));
        write_object(&mut out, *id, o);
    }
    for (i, (id, _)) in first.iter().enumerate() {
        e1.insert(id.0, (2, c1, i as u16));
    }
    let (x1, x2) = (d.max_id + 1, d.max_id + 2);
    let start1 = write_xref_stream(&mut out, x1, &mut e1, x1 + 1, &d.trailer, None);
    out.extend_from_slice(format!("startxref\n{start1}\n%%EOF\n").as_bytes());
    let mut e2: BTreeMap<u32, (u8, u32, u16)> = BTreeMap::new();
    e2.insert(c2, (1, out.len() as u32, 0));
    write_object(&mut out, (c2, 0), &d.objects[&(c2, 0)]);
    e2.insert(moved.0, (2, c2, 0));
    let start2 = write_xref_stream(&mut out, x2, &mut e2, x2 + 1, &d.trailer, Some(start1));
    out.extend_from_slice(format!("startxref\n{start2}\n%%EOF").as_bytes());
    Some((out, moved))
}

/// `doc` written as a file with an xref stream (and, with `with_objstm`, object streams holding a seeded choice of its
/// eligible objects: not streams, generation 0) and loaded again: the state a loader leaves.  None if it does not load.
fn via_file(doc: &Document, with_objstm: bool, rng: &mut Rng) -> Option<(Document, Vec<u8>)> {
    let mut doc = doc.clone();
    doc.objects.retain(|_, o| !bookkeeping(o));
    let top = doc.objects.keys().map(|k| k.0).max().unwrap_or(0).max(doc.max_id);
    let mut containers: Vec<(u32, Vec<(u32, u16)>)> = vec![];
    if with_objstm {
        // (the integer an indirect /Length names stays an ordinary object: the parser needs it while it reads the stream)
        let lengths: Vec<(u32, u16)> = doc.objects.values().filter_map(|o| o.as_stream().ok())
            .filter_map(|s| s.dict.get(b"Length").and_then(Object::as_reference).ok()).collect();
        let eligible: Vec<(u32, u16)> = doc.objects.iter().filter(|(id, o)| id.1 == 0 && !matches!(o, Object::Stream(_)) && !lengths.contains(id))
            .map(|(id, _)| *id).collect();
        let chosen: Vec<(u32, u16)> = eligible.into_iter().filter(|_| rng.chance(3, 4)).collect();
        if !chosen.is_empty() {
            let cut = if chosen.len() >= 2 && rng.chance(1, 2) { 1 + rng.below(chosen.len() - 1) } else { chosen.len() };
            containers.push((top + 1, chosen[..cut].to_vec()));
            if cut < chosen.len() {
                containers.push((top + 2, chosen[cut..].to_vec()));
            }
        }
    }
    let bytes = assemble(&doc, &containers, top + 1 + containers.len() as u32);
    guarded(|| Document::load_mem(&bytes)).ok().and_then(|r| r.ok()).map(|d| (d, bytes))
}

// ------------------------------------------------------------------------------------------------
// abstract documents (TLC) -> concrete

fn content(pid: &str, len: usize, hex: bool) -> Vec<u8> {
    let mut h = 0xcbf29ce484222325u64;
    for b in pid.bytes() {
        h = (h ^ b as u64).wrapping_mul(0x100000001b3);
    }
    let mut rng = Rng::new(h);
    if hex {
        let mut v: Vec<u8> = (0..len.saturating_sub(1)).map(|_| *rng.pick(b"0123456789ABCDEF")).collect();
        if len > 0 {
            v.push(b'>');
        }
        v
    } else {
        (0..len).map(|_| rng.byte()).collect()
    }
}

fn concrete(o: &Value) -> Object {
    let fill = |d: &mut Dictionary, typ: &str, v: &Value| {
        if typ != "-" {
            d.set("Type", Object::Name(typ.as_bytes().to_vec()));
        }
        for (i, x) in v.as_array().unwrap().iter().enumerate() {
            d.set(format!("K{}", i + 1), concrete(x));
        }
    };
    match o["k"].as_str().unwrap() {
        "str" => Object::String(content(o["pid"].as_str().unwrap(), o["len"].as_u64().unwrap() as usize, false), StringFormat::Literal),
        "arr" => Object::Array(o["v"].as_array().unwrap().iter().map(concrete).collect()),
        "dict" => {
            let mut d = Dictionary::new();
            fill(&mut d, o["typ"].as_str().unwrap(), &o["v"]);
            Object::Dictionary(d)
        }
        "stream" => {
            let mut d = Dictionary::new();
            fill(&mut d, o["typ"].as_str().unwrap(), &o["d"]);
            let f = o["crypt"]["f"].as_str().unwrap();
            let n = o["crypt"]["n"].as_str().unwrap().as_bytes().to_vec();
            let mut parms = Dictionary::new();
            parms.set("Type", Object::Name(b"CryptFilterDecodeParms".to_vec()));
            match f {
                "none" => {}
                "name" => {
                    parms.set("Name", Object::Name(n));
                    d.set("Filter", Object::Name(b"Crypt".to_vec()));
                    d.set("DecodeParms", Object::Dictionary(parms));
                }
                "noname" => {
                    d.set("Filter", Object::Name(b"Crypt".to_vec()));
                    d.set("DecodeParms", Object::Dictionary(parms));
                }
                "nodp" => d.set("Filter", Object::Name(b"Crypt".to_vec())),
                "arr" => {
                    // "the element at the position of Crypt": Crypt leads the Filter array for even lengths and follows
                    // ASCIIHexDecode for odd ones (lopdf's encrypt and decrypt accept it at any position; seeded change C05-a7)
                    parms.set("Name", Object::Name(n));
                    let (c, h) = (Object::Name(b"Crypt".to_vec()), Object::Name(b"ASCIIHexDecode".to_vec()));
                    if o["len"].as_u64().unwrap() % 2 == 0 {
                        d.set("Filter", Object::Array(vec![c, h]));
                        d.set("DecodeParms", Object::Array(vec![Object::Dictionary(parms), Object::Null]));
                    } else {
                        d.set("Filter", Object::Array(vec![h, c]));
                        d.set("DecodeParms", Object::Array(vec![Object::Null, Object::Dictionary(parms)]));
                    }
                }
                _ => panic!("harness: crypt form {f}"),
            }
            Object::Stream(Stream::new(d, content(o["pid"].as_str().unwrap(), o["len"].as_u64().unwrap() as usize, f == "arr")))
        }
        _ => Object::Integer(7),
    }
}

/// Objects typed /ObjStm or /XRef with `file` = true describe what the loader leaves: the document is written with
/// `assemble` (container / xref stream numbered by their positions) and loaded.
fn concrete_doc(objs: &Value, file: bool) -> Document {
    let mut doc = Document::with_version("1.7");
    let placeholder = |o: &Value| file && o["k"] == "stream" && (o["typ"] == "ObjStm" || o["typ"] == "XRef");
    for (i, o) in objs.as_array().unwrap().iter().enumerate() {
        if !placeholder(o) {
            doc.objects.insert((i as u32 + 1, 0), concrete(o));
        }
        doc.max_id = i as u32 + 1;
    }
    // a stream whose /Length is "indirect": the integer object that follows it holds the length
    for (i, o) in objs.as_array().unwrap().iter().enumerate() {
        if o["k"] == "stream" && o["il"] == true {
            let (sid, lid) = ((i as u32 + 1, 0), (i as u32 + 2, 0));
            if let Some(Object::Stream(s)) = doc.objects.get_mut(&sid) {
                let n = s.content.len() as i64;
                s.dict.set("Length", Object::Reference(lid));
                doc.objects.insert(lid, Object::Integer(n));
            }
        }
    }
    // a stream whose Crypt parameters are "indirect": they become the object that follows it
    for (i, o) in objs.as_array().unwrap().iter().enumerate() {
        if o["k"] == "stream" && o["crypt"]["ind"] == true {
            let (sid, pid) = ((i as u32 + 1, 0), (i as u32 + 2, 0));
            let parms = doc.objects.get(&sid).and_then(|s| s.as_stream().ok()).and_then(|s| s.dict.get(b"DecodeParms").ok()).cloned();
            if let (Some(p), Some(Object::Stream(s))) = (parms, doc.objects.get_mut(&sid)) {
                s.dict.set("DecodeParms", Object::Reference(pid));
                doc.objects.insert(pid, p);
            }
        }
    }
    doc.trailer.set("Root", Object::Reference((1, 0)));
    doc.trailer.set("ID", Object::Array(vec![Object::String(content("id0", 16, false), StringFormat::Hexadecimal),
                                             Object::String(content("id1", 16, false), StringFormat::Hexadecimal)]));
    if file {
        let mut containers = vec![];
        let mut xref_id = doc.max_id + 1;
        for (i, o) in objs.as_array().unwrap().iter().enumerate() {
            if placeholder(o) && o["typ"] == "ObjStm" {
                containers.push((i as u32 + 1, o["mem"].as_array().unwrap().iter().map(|p| (p.as_u64().unwrap() as u32, 0u16)).collect()));
            } else if placeholder(o) {
                xref_id = i as u32 + 1;
            }
        }
        let bytes = assemble(&doc, &containers, xref_id);
        return Document::load_mem(&bytes).unwrap_or_else(|e| panic!("harness: the assembled file does not load: {e:?}"));
    }
    doc
}

// ------------------------------------------------------------------------------------------------
// random cases

fn rand_string(rng: &mut Rng, class: usize) -> String {
    let ascii = |rng: &mut Rng, n: usize| -> String { (0..n).map(|_| (0x21 + rng.below(0x5E) as u8) as char).collect() };
    let pick = |rng: &mut Rng, lo: u32, hi: u32, n: usize| -> String { (0..n).map(|_| char::from_u32(lo + rng.below((hi - lo + 1) as usize) as u32).unwrap()).collect() };
    match class {
        0 => String::new(),
        1 => { let n = 1 + rng.below(12); ascii(rng, n) }
        2 => { let n = 1 + rng.below(8); pick(rng, 0xC0, 0xFF, n) }                        // Latin-1 letters
        3 => { let n = 1 + rng.below(8); if rng.chance(1, 2) { pick(rng, 0x410, 0x44F, n) } else { pick(rng, 0x4E00, 0x9FA5, n) } } // non-Latin
        4 => { let k = 1 + rng.below(4); let a = ascii(rng, k); let n = 1 + rng.below(4); a + &pick(rng, 0x410, 0x44F, n) } // mixed
        5 => { let n = 33 + rng.below(30); ascii(rng, n) }                                  // > 32 bytes
        6 => { let n = 128 + rng.below(40); ascii(rng, n) }                                 // > 127 bytes
        7 => { let n = 30 + rng.below(8); ascii(rng, n) }                                   // around 32
        9 => { let n = 1 + rng.below(3); let e = pick(rng, 0x1F600, 0x1F64F, n); if rng.chance(1, 2) { e } else { let k = 1 + rng.below(5); e + &ascii(rng, k) } } // emoji
        10 => { let k = 1 + rng.below(4); let a = pick(rng, 0x410, 0x44F, k); let n = 1 + rng.below(4); a + &ascii(rng, n) } // non-Latin, then ASCII
        _ => { let n = 43 + rng.below(4); pick(rng, 0x4E00, 0x9FA5, n) }                    // 3-byte characters around / beyond 127 bytes
    }
}

fn rand_cfg(rng: &mut Rng) -> Value {
    let em = rng.chance(2, 3);
    match rng.below(8) {
        0 => json!({"V": 1, "R": 2, "klen": 40, "em": true, "cf": [], "stmf": "", "strf": ""}),
        1 | 2 => json!({"V": 2, "R": 3, "klen": 40 + 8 * rng.below(12), "em": true, "cf": [], "stmf": "", "strf": ""}),
        3 | 4 | 5 => {
            let ms = ["RC4", "AES128", "Identity"];
            let (sm, tm) = (*rng.pick(&ms), *rng.pick(&ms));
            // an Identity default filter: the standard name /Identity, or an Identity filter under a custom name in CF
            let (cs, ct) = (sm == "Identity" && rng.chance(1, 2), tm == "Identity" && rng.chance(1, 2));
            let mut cf = vec![json!(["F1", if sm == "Identity" && !cs { *rng.pick(&["RC4", "AES128"]) } else { sm }]),
                              json!(["F2", if tm == "Identity" && !ct { *rng.pick(&["RC4", "AES128"]) } else { tm }])];
            if rng.chance(1, 2) {
                cf.push(json!(["Identity", "Identity"]));
            }
            if rng.chance(1, 3) {
                cf.push(json!(["Other", *rng.pick(&ms)]));
            }
            json!({"V": 4, "R": 4, "klen": 128, "em": em, "cf": cf,
                   "stmf": if sm == "Identity" && !cs { "Identity" } else { "F1" }, "strf": if tm == "Identity" && !ct { "Identity" } else { "F2" }})
        }
        k => {
            let ms = ["AES256", "AES256", "Identity"];
            let (sm, tm) = (*rng.pick(&ms), *rng.pick(&ms));
            let (cs, ct) = (sm == "Identity" && rng.chance(1, 2), tm == "Identity" && rng.chance(1, 2));
            let mut cf = vec![json!(["F1", if cs { "Identity" } else { "AES256" }]), json!(["F2", if ct { "Identity" } else { "AES256" }])];
            if rng.chance(1, 2) {
                cf.push(json!(["Identity", "Identity"]));
            }
            json!({"V": 5, "R": if k == 6 { 5 } else { 6 }, "klen": 256, "em": em, "cf": cf,
                   "stmf": if sm == "Identity" && !cs { "Identity" } else { "F1" }, "strf": if tm == "Identity" && !ct { "Identity" } else { "F2" }})
        }
    }
}

fn lengthen(o: &mut Object, rng: &mut Rng) {
    match o {
        Object::String(b, _) => {
            if rng.chance(1, 2) {
                let n = *rng.pick(&[16usize, 17, 20, 31, 32, 33, 48, 64]);
                *b = (0..n).map(|_| rng.byte()).collect();
            }
        }
        Object::Array(a) => a.iter_mut().for_each(|x| lengthen(x, rng)),
        Object::Dictionary(d) => d.iter_mut().for_each(|(_, x)| lengthen(x, rng)),
        Object::Stream(s) => {
            s.dict.iter_mut().for_each(|(_, x)| lengthen(x, rng));
        }
        _ => {}
    }
}

fn long_string(rng: &mut Rng) -> Object {
    let n = 16 + rng.below(40);
    Object::String((0..n).map(|_| rng.byte()).collect(), if rng.chance(1, 3) { StringFormat::Hexadecimal } else { StringFormat::Literal })
}

fn rand_doc(rng: &mut Rng, cfg: &Value) -> Document {
    let mut doc = gen::random_document(rng, 5, false, false);
    for (_, o) in doc.objects.iter_mut() {
        lengthen(o, rng);
    }
    let names: Vec<String> = cfg["cf"].as_array().unwrap().iter().map(|p| p[0].as_str().unwrap().to_string()).chain(["Identity".to_string(), "Missing".to_string()]).collect();
    let bin = |rng: &mut Rng| -> Vec<u8> { let n = *rng.pick(&[0usize, 1, 15, 16, 17, 32, 40, 100]); (0..n).map(|_| rng.byte()).collect() };
    // a stream whose dictionary holds strings
    if rng.chance(1, 2) {
        let mut d = Dictionary::new();
        d.set("Info", long_string(rng));
        if rng.chance(1, 2) {
            d.set("Arr", Object::Array(vec![Object::Integer(1), long_string(rng)]));
        }
        let c = bin(rng);
        doc.add_object(Object::Stream(Stream::new(d, c)));
    }
    // a Metadata stream
    if rng.chance(1, 2) {
        let mut d = Dictionary::new();
        d.set("Type", Object::Name(b"Metadata".to_vec()));
        d.set("Subtype", Object::Name(b"XML".to_vec()));
        if rng.chance(1, 2) {
            d.set("Note", long_string(rng));
            if rng.chance(1, 2) {
                d.set("Nested", Object::Array(vec![long_string(rng)]));
            }
        }
        doc.add_object(Object::Stream(Stream::new(d, b"<?xpacket begin='' id='W5M0MpCehiHzreSzNTczkc9d'?><x:xmpmeta/>".to_vec())));
    }
    // streams with a Crypt filter
    for _ in 0..rng.below(3) {
        let mut d = Dictionary::new();
        // (strings in the dictionary of a stream with a Crypt filter entry are strings like any other)
        if rng.chance(1, 2) {
            d.set("Info", long_string(rng));
            if rng.chance(1, 3) {
                d.set("Arr", Object::Array(vec![long_string(rng)]));
            }
        }
        let mut parms = Dictionary::new();
        parms.set("Type", Object::Name(b"CryptFilterDecodeParms".to_vec()));
        let n = rng.pick(&names).as_bytes().to_vec();
        let mut c = bin(rng);
        match rng.below(5) {
            0 | 1 => {
                parms.set("Name", Object::Name(n));
                d.set("Filter", if rng.chance(1, 2) { Object::Name(b"Crypt".to_vec()) } else { Object::Array(vec![Object::Name(b"Crypt".to_vec())]) });
                d.set("DecodeParms", Object::Dictionary(parms));
            }
            2 => {
                d.set("Filter", Object::Name(b"Crypt".to_vec()));
                d.set("DecodeParms", Object::Dictionary(parms));
            }
            3 => d.set("Filter", Object::Name(b"Crypt".to_vec())),
            _ => {
                parms.set("Name", Object::Name(n));
                let (cr, h) = (Object::Name(b"Crypt".to_vec()), Object::Name(b"ASCIIHexDecode".to_vec()));
                if rng.chance(1, 2) {
                    d.set("Filter", Object::Array(vec![cr, h]));
                    d.set("DecodeParms", Object::Array(vec![Object::Dictionary(parms), Object::Null]));
                } else {
                    // Crypt in second place, its parameters in the second element
                    d.set("Filter", Object::Array(vec![h, cr]));
                    d.set("DecodeParms", Object::Array(vec![Object::Null, Object::Dictionary(parms)]));
                }
                c = content("hex", c.len(), true);
            }
        }
        // the parameters (or the Name in them) through an indirect object, as any dictionary value may be given
        if rng.chance(1, 4) {
            match d.get(b"DecodeParms").ok().cloned() {
                Some(Object::Dictionary(mut p)) => {
                    if rng.chance(1, 2) {
                        let id = doc.add_object(Object::Dictionary(p));
                        d.set("DecodeParms", Object::Reference(id));
                    } else if let Ok(n) = p.get(b"Name").cloned() {
                        let id = doc.add_object(n);
                        p.set("Name", Object::Reference(id));
                        d.set("DecodeParms", Object::Dictionary(p));
                    }
                }
                Some(Object::Array(mut a)) => {
                    let id = doc.add_object(a[0].clone());
                    a[0] = Object::Reference(id);
                    d.set("DecodeParms", Object::Array(a));
                }
                _ => {}
            }
        }
        doc.add_object(Object::Stream(Stream::new(d, c)));
    }
    // an XRef stream held in memory (never written by save), a non-stream dictionary typed /Metadata
    if rng.chance(1, 8) {
        let mut d = Dictionary::new();
        d.set("Type", Object::Name(b"XRef".to_vec()));
        d.set("Note", long_string(rng));
        doc.add_object(Object::Stream(Stream::new(d, bin(rng))));
    }
    if rng.chance(1, 8) {
        let mut d = Dictionary::new();
        d.set("Type", Object::Name(b"Metadata".to_vec()));
        d.set("Note", long_string(rng));
        doc.add_object(Object::Dictionary(d));
    }
    // /Length given through an indirect object (the spelling of streaming producers): an integer object of the
    // document holds the length
    let sids: Vec<(u32, u16)> = doc.objects.iter().filter(|(_, o)| matches!(o, Object::Stream(_)) && !bookkeeping(o)).map(|(id, _)| *id).collect();
    for sid in sids {
        if rng.chance(1, 2) {
            let n = doc.objects[&sid].as_stream().map(|s| s.content.len()).unwrap_or(0) as i64;
            let lid = doc.add_object(Object::Integer(n));
            if let Some(Object::Stream(s)) = doc.objects.get_mut(&sid) {
                s.dict.set("Length", Object::Reference(lid));
            }
        }
    }
    // (always a file identifier: a later Rekey may switch to a revision that needs it)
    {
        let idlen = *rng.pick(&[0usize, 1, 16, 16, 32]);
        let id0: Vec<u8> = (0..idlen).map(|_| rng.byte()).collect();
        doc.trailer.set("ID", Object::Array(vec![Object::String(id0.clone(), StringFormat::Hexadecimal), Object::String(id0, StringFormat::Hexadecimal)]));
    }
    doc
}

/// `editable`: positions (in id order) of the objects an Edit may address.  Edits are only issued where the document
/// is expected to be unencrypted (after a decrypt with the user or owner password, before the next encrypt).
fn rand_calls(rng: &mut Rng, cfg: &Value, user: &str, owner: &str, editable: &[usize], deletable: &[usize]) -> Vec<Value> {
    let r = cfg["R"].as_i64().unwrap();
    let edits = |rng: &mut Rng, calls: &mut Vec<Value>, num: u32, den: u32| {
        if !editable.is_empty() && rng.chance(num, den) {
            for _ in 0..(1 + rng.below(2)) {
                calls.push(json!({"call": "Edit", "pos": *rng.pick(editable)}));
            }
        }
        // the caller deletes an object the loader unpacked from an object stream
        if !deletable.is_empty() && rng.chance(1, 3) {
            calls.push(json!({"call": "Delete", "pos": *rng.pick(deletable)}));
        }
    };
    let wrong = |rng: &mut Rng| -> String {
        for _ in 0..50 {
            let odd = |c: &char| !enc4(*c);
            let s = match rng.below(10) {
                0 => String::new(),
                // offers that differ from a password only in characters PDFDocEncoding lacks: another such character in
                // its place, all of them left out, one more appended
                6 => { let base = if rng.chance(1, 2) { user } else { owner }; let mut v: Vec<char> = base.chars().collect();
                       let idx: Vec<usize> = v.iter().enumerate().filter(|(_, c)| odd(c)).map(|(i, _)| i).collect();
                       if !idx.is_empty() { let i = *rng.pick(&idx); v[i] = if v[i] == 'ж' { 'щ' } else { 'ж' }; } v.into_iter().collect() }
                7 => { let base = if rng.chance(1, 2) { user } else { owner }; base.chars().filter(|c| !odd(c)).collect() }
                8 => { let base = if rng.chance(1, 2) { user } else { owner }; let mut b = base.to_string(); b.push(*rng.pick(&['я', '密', '🙂'])); b }
                1 => { let mut s = user.to_string(); s.push('x'); s }            // longer: equivalent once the limit is passed
                2 => { let mut s: Vec<char> = owner.chars().collect(); if !s.is_empty() { let i = rng.below(s.len()); s[i] = if s[i] == 'q' { 'r' } else { 'q' }; } s.into_iter().collect() }
                3 => { let n = user.chars().count(); user.chars().take(n.saturating_sub(1)).collect() }
                _ => { let c = rng.below(12); rand_string(rng, c) }
            };
            if rel1(r, &s, user) != "unsure" && rel1(r, &s, owner) != "unsure" {
                return s;
            }
        }
        "zz".to_string()
    };
    let pw = |rng: &mut Rng| -> String {
        match rng.below(5) {
            0 | 1 => user.to_string(),
            2 | 3 => owner.to_string(),
            _ => wrong(rng),
        }
    };
    let mut calls = vec![json!({"call": "MakeState"})];
    if rng.chance(1, 6) {
        // the encrypted form of the document as another producer may lay it out (two revisions, object streams, one
        // object moved to a new container), loaded (auto-decrypt with an empty password) and decrypted
        edits(rng, &mut calls, 1, 2);
        calls.push(json!({"call": "SaveRev"}));
        calls.push(json!({"call": "Load"}));
        if rng.chance(1, 3) {
            calls.push(json!({"call": "Decrypt", "pw": wrong(rng)}));
        }
        calls.push(json!({"call": "Decrypt", "pw": if rng.chance(1, 2) { user.to_string() } else { owner.to_string() }}));
        return calls;
    }
    if rng.chance(3, 4) {
        // the canonical life-cycle with optional detours
        edits(rng, &mut calls, 1, 2);
        calls.push(json!({"call": "Encrypt"}));
        for _ in 0..rng.below(3) {
            let c = *rng.pick(&["Decrypt", "AuthUser", "AuthOwner", "Auth"]);
            let w = if c == "Decrypt" || rng.chance(1, 2) { wrong(rng) } else { pw(rng) };
            calls.push(json!({"call": c, "pw": w}));
        }
        if rng.chance(1, 2) {
            calls.push(json!({"call": "Save"}));
            // an incremental update of the encrypted file (more often where the loader decrypts by itself)
            if rng.chance(if user.is_empty() || owner.is_empty() { 2 } else { 1 }, 3) {
                calls.push(json!({"call": "SaveInc"}));
            }
            calls.push(json!({"call": "Load"}));
            if rng.chance(1, 3) {
                calls.push(json!({"call": "Auth", "pw": pw(rng)}));
            }
        }
        calls.push(json!({"call": "Decrypt", "pw": if rng.chance(1, 2) { user.to_string() } else { owner.to_string() }}));
        if rng.chance(1, 3) {
            edits(rng, &mut calls, 1, 2);
            if rng.chance(1, 2) {
                // the decrypted document (its streams keep their /Filter /Crypt entries) protected again, with another V
                calls.push(json!({"call": "Rekey", "cfg": rand_cfg(rng)}));
            }
            calls.push(json!({"call": "Encrypt"}));
            calls.push(json!({"call": "Decrypt", "pw": pw(rng)}));
        }
    } else {
        let mut plain = true; // the document is expected to be unencrypted
        for _ in 0..(2 + rng.below(7)) {
            let c = *rng.pick(&["Encrypt", "Encrypt", "Decrypt", "Decrypt", "AuthUser", "AuthOwner", "Auth", "Save", "Load", "Load", "Edit"]);
            if c == "Edit" {
                if plain {
                    edits(rng, &mut calls, 1, 1);
                }
                continue;
            }
            if c == "Encrypt" || c == "Load" {
                plain = false;
            }
            if c == "Load" && !calls.iter().any(|x| x["call"] == "Save") {
                calls.push(json!({"call": "Save"}));
            }
            if matches!(c, "Encrypt" | "Save" | "Load") {
                calls.push(json!({"call": c}));
            } else {
                let p = pw(rng);
                if c == "Decrypt" && (p == user || p == owner) {
                    plain = true;
                }
                calls.push(json!({"call": c, "pw": p}));
            }
        }
    }
    calls
}

fn main() {
    let args: Vec<String> = std::env::args().collect();
    rayon::ThreadPoolBuilder::new().num_threads(arg_u64(&args, "--threads", 8) as usize).build_global().ok();
    match args.get(1).map(String::as_str) {
        Some("replay") => {
            // cases generated by TLC: {cfg, user, owner, objs (abstract), calls:[{call, pw?, tok?}]}
            let cases = read_ndjson(&arg(&args, "--in").unwrap());
            let seed = arg_u64(&args, "--seed", 1);
            let outs: Vec<Vec<Value>> = cases
                .par_iter()
                .enumerate()
                .map(|(i, c)| {
                    let doc = if c.get("file").is_some() {
                        Document::load_mem(&wire::json_to_bytes(&c["file"])).expect("harness: file of the case loads")
                    } else if c.get("doc").is_some() {
                        wire::json_to_doc(&c["doc"])
                    } else {
                        concrete_doc(&c["objs"], c["prep"] == "file")
                    };
                    run_case(i + 1, doc, &c["cfg"], c["user"].as_str().unwrap(), c["owner"].as_str().unwrap(),
                             c["calls"].as_array().unwrap(),
                             c.get("seed").and_then(Value::as_str).and_then(|x| x.parse().ok()).unwrap_or(seed.wrapping_add(i as u64)))
                })
                .collect();
            let mut out = NdjsonOut::create(&arg(&args, "--out").unwrap());
            outs.iter().flatten().for_each(|e| out.put(e));
            out.finish();
        }
        Some("record") => {
            let seed = arg_u64(&args, "--seed", 1);
            let n = arg_u64(&args, "--n", 100) as usize;
            let mut rng = Rng::new(seed);
            let mut cases = vec![];
            for _ in 0..n {
                let cfg = rand_cfg(&mut rng);
                // two thirds of the passwords from the classes every revision can represent (a configuration with another
                // one is refused at revisions 2-4 since fix 9c92c82, which ends the run early)
                let class = |rng: &mut Rng| if rng.chance(2, 3) { *rng.pick(&[0usize, 0, 1, 1, 2, 5, 6, 7]) } else { rng.below(12) };
                let uc = class(&mut rng);
                let user = rand_string(&mut rng, uc);
                let owner = if rng.chance(1, 6) { user.clone() } else { let oc = class(&mut rng); rand_string(&mut rng, oc) };
                let mut doc = rand_doc(&mut rng, &cfg);
                // the state of the document: built in memory, or what load_mem leaves of a file with an xref stream
                // without / with object streams
                let (mut prep, mut file) = ("mem", vec![]);
                let k = rng.below(20);
                if k >= 8 {
                    if let Some((d, b)) = via_file(&doc, k >= 13, &mut rng) {
                        doc = d;
                        file = b;
                        prep = if k >= 13 { "file-objstm" } else { "file-xrefstm" };
                    }
                }
                let editable: Vec<usize> = doc.objects.values().enumerate()
                    .filter(|(_, o)| !bookkeeping(o) && walk(o, (0, 0), &mut vec![], &Ctx { doc: None, insd: false, otyp: "-", inmd: false }, &mut vec![]).is_some())
                    .map(|(i, _)| i + 1).collect();
                let deletable: Vec<usize> = abstract_of(&doc).0.iter().filter(|o| o["k"] == "stream")
                    .flat_map(|o| o["mem"].as_array().unwrap().iter().map(|p| p.as_u64().unwrap() as usize).collect::<Vec<_>>())
                    .filter(|p| editable.contains(p)).collect(); // (with strings, so that its coming back can be seen)
                let calls = rand_calls(&mut rng, &cfg, &user, &owner, &editable, &deletable);
                cases.push((cfg, user, owner, doc, calls, rng.next_u64(), prep, file));
            }
            // the concrete inputs (document in the wire projection, passwords, calls) go to a side file
            if let Some(p) = arg(&args, "--inputs") {
                let mut side = NdjsonOut::create(&p);
                for (i, (cfg, user, owner, doc, calls, s, prep, file)) in cases.iter().enumerate() {
                    let mut v = json!({"case": i + 1, "cfg": cfg, "user": user, "owner": owner, "calls": calls, "seed": s.to_string(),
                                       "prep": prep, "doc": wire::doc_to_json(doc)});
                    if !file.is_empty() {
                        v["file"] = wire::bytes_to_json(file); // Document::load_mem(file) is the document of the case
                    }
                    side.put(&v);
                }
                side.finish();
            }
            let outs: Vec<Vec<Value>> = cases
                .into_par_iter()
                .enumerate()
                .map(|(i, (cfg, user, owner, doc, calls, s, prep, _))| {
                    let mut evs = run_case(i + 1, doc, &cfg, &user, &owner, &calls, s);
                    evs[0]["prep"] = json!(prep);
                    // passwords as code points, for the evidence only (not read by the trace spec)
                    evs[0]["user"] = json!(user.chars().map(|c| c as u32).collect::<Vec<_>>());
                    evs[0]["owner"] = json!(owner.chars().map(|c| c as u32).collect::<Vec<_>>());
                    for (e, c) in evs.iter_mut().skip(1).zip(calls.iter()) {
                        if let Some(p) = c.get("pw").and_then(Value::as_str) {
                            e["pw"] = json!(p.chars().map(|c| c as u32).collect::<Vec<_>>());
                        }
                    }
                    evs
                })
                .collect();
            let mut out = NdjsonOut::create(&arg(&args, "--out").unwrap());
            outs.iter().flatten().for_each(|e| out.put(e));
            out.finish();
        }
        _ => {
            eprintln!("usage: c05 replay --in F --out F [--seed S] | record --seed S --n N --out F");
            std::process::exit(2)
        }
    }
}
