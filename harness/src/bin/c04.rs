//! C04 — parsing untrusted bytes never panics, aborts or hangs.
//!
//!   c04 seeds  --seed S --n N --out F              seeds for spec/Adversary.tla: legal inputs of every byte-level entry
//!                                                   point other than whole files from the Producer, and real files
//!                                                   (repository assets, files saved by lopdf); the abstract documents
//!                                                   for the Producer come from `c02 docs`
//!   c04 bulk   --seed S --n N --out F               byte-level mutants (FlipByte / Truncate / SpliceToken / SetNumber on
//!                                                   digit runs) of the real files, for volume
//!   c04 run    --in F --out F [--jobs J]            supervisor: every case runs in an isolated child worker
//!                                                   (lopdf_conform::sup); hang / abort / stack overflow / refused
//!                                                   allocation are data about lopdf for that case
//!   c04 worker                                      (child) one case per line on stdin, one answer line per case
//!
//! A case: {"id", "ep", "hex" (input bytes), "dict" (TLA-flavoured pairs, entry points that take a stream
//! dictionary), "tmo_ms", "req_limit" (largest single allocation request the worker's allocator grants),
//! "want_dig" (digest of the loaded document, for the drift note), "reps" (repetition blocks the worker multiplies:
//! [first, last, unit length, n]), "stack_kb", "skip"}.
//! Entry points (ep): load, incload, content, cmap, onebyte, filter, objstm, xrefstm, textstr, png.
use lopdf::content::Content;
use lopdf::{Dictionary, Document, IncrementalDocument, Object, ObjectStream, Stream, StringFormat};
use lopdf_conform::{gen, io::*, rng::Rng, sup, wire::*};
use serde_json::{json, Value};
use std::alloc::{GlobalAlloc, Layout, System};
use std::io::{Read, Write};
use std::sync::atomic::{AtomicUsize, Ordering::Relaxed};
use std::sync::Mutex;
use std::time::{Duration, Instant};

// ------------------------------------------------------------------ accounting allocator
// "requests an allocation unrelated to the input size" is observed directly: the largest single request and the
// peak of live bytes are recorded per case; a request above the case's limit is *refused* (null), exactly what an
// operating system without that much memory does.  Code that handles the refusal (try_reserve) carries on, code
// that does not aborts the worker ("memory allocation of N bytes failed"), which the supervisor reports.
struct Counting;
static CUR: AtomicUsize = AtomicUsize::new(0);
static PEAK: AtomicUsize = AtomicUsize::new(0);
static MAXREQ: AtomicUsize = AtomicUsize::new(0);
static REFUSED: AtomicUsize = AtomicUsize::new(0);
static CAPPED: AtomicUsize = AtomicUsize::new(0); // a request was refused because the live bytes would exceed the budget
static REQ_LIMIT: AtomicUsize = AtomicUsize::new(usize::MAX);
static LIVE_LIMIT: AtomicUsize = AtomicUsize::new(usize::MAX);

#[inline]
fn admit(size: usize) -> bool {
    if size > REQ_LIMIT.load(Relaxed) {
        REFUSED.fetch_max(size, Relaxed);
        return false;
    }
    if CUR.load(Relaxed).saturating_add(size) > LIVE_LIMIT.load(Relaxed) {
        REFUSED.fetch_max(size, Relaxed);
        CAPPED.store(1, Relaxed);
        return false;
    }
    true
}
#[inline]
fn account(size: usize) {
    let c = CUR.fetch_add(size, Relaxed) + size;
    PEAK.fetch_max(c, Relaxed);
    MAXREQ.fetch_max(size, Relaxed);
}
unsafe impl GlobalAlloc for Counting {
    unsafe fn alloc(&self, l: Layout) -> *mut u8 {
        if !admit(l.size()) {
            return std::ptr::null_mut();
        }
        let p = System.alloc(l);
        if !p.is_null() {
            account(l.size());
        }
        p
    }
    unsafe fn alloc_zeroed(&self, l: Layout) -> *mut u8 {
        if !admit(l.size()) {
            return std::ptr::null_mut();
        }
        let p = System.alloc_zeroed(l);
        if !p.is_null() {
            account(l.size());
        }
        p
    }
    unsafe fn dealloc(&self, p: *mut u8, l: Layout) {
        System.dealloc(p, l);
        let _ = CUR.fetch_update(Relaxed, Relaxed, |c| Some(c.saturating_sub(l.size())));
    }
    unsafe fn realloc(&self, p: *mut u8, l: Layout, new_size: usize) -> *mut u8 {
        let grow = new_size.saturating_sub(l.size());
        if new_size > REQ_LIMIT.load(Relaxed) || (grow > 0 && CUR.load(Relaxed).saturating_add(grow) > LIVE_LIMIT.load(Relaxed)) {
            if new_size <= REQ_LIMIT.load(Relaxed) {
                CAPPED.store(1, Relaxed);
            }
            REFUSED.fetch_max(new_size, Relaxed);
            return std::ptr::null_mut();
        }
        let q = System.realloc(p, l, new_size);
        if !q.is_null() {
            let _ = CUR.fetch_update(Relaxed, Relaxed, |c| Some(c.saturating_sub(l.size())));
            account(new_size);
        }
        q
    }
}
#[global_allocator]
static GLOBAL: Counting = Counting;

// ------------------------------------------------------------------ small helpers
fn hex_of(b: &[u8]) -> String {
    const H: &[u8; 16] = b"0123456789abcdef";
    let mut s = String::with_capacity(b.len() * 2);
    for x in b {
        s.push(H[(x >> 4) as usize] as char);
        s.push(H[(x & 15) as usize] as char);
    }
    s
}
fn unhex(s: &str) -> Vec<u8> {
    let b = s.as_bytes();
    let v = |c: u8| match c {
        b'0'..=b'9' => c - b'0',
        b'a'..=b'f' => c - b'a' + 10,
        b'A'..=b'F' => c - b'A' + 10,
        _ => panic!("bad hex"),
    };
    (0..b.len() / 2).map(|i| v(b[2 * i]) * 16 + v(b[2 * i + 1])).collect()
}
fn fnv(b: &[u8]) -> String {
    let mut h: u64 = 0xcbf29ce484222325;
    for x in b {
        h ^= *x as u64;
        h = h.wrapping_mul(0x100000001b3);
    }
    format!("{h:016x}")
}

/// TLA-flavoured value (spec/PdfObjects.tla, as printed by ToJson / produced by wire::obj_to_file_tla) -> Object.
/// An integer beyond i64 becomes what lopdf's parser makes of such a token: a real.
fn tla_to_obj(v: &Value) -> Object {
    let k = v["k"].as_str().unwrap_or_else(|| panic!("tla_to_obj: no kind in {v}"));
    let digits = |x: &Value| -> String { x.as_array().map(|a| a.iter().map(|d| char::from(b'0' + d.as_u64().unwrap() as u8)).collect()).unwrap_or_default() };
    match k {
        "null" => Object::Null,
        "bool" => Object::Boolean(v["v"].as_bool().unwrap_or(false)),
        "int" => {
            let s = format!("{}{}", if v["neg"].as_bool().unwrap_or(false) { "-" } else { "" }, digits(&v["v"]));
            match s.parse::<i64>() {
                Ok(i) => Object::Integer(i),
                Err(_) => Object::Real(s.parse::<f32>().unwrap_or(f32::MAX)),
            }
        }
        "real" => {
            let s = format!("{}{}.{}", if v["neg"].as_bool().unwrap_or(false) { "-" } else { "" }, digits(&v["v"]), digits(&v["w"]));
            Object::Real(s.parse::<f32>().unwrap_or(0.0))
        }
        "name" => Object::Name(json_to_bytes(&v["v"])),
        "str" => Object::String(json_to_bytes(&v["v"]), StringFormat::Literal),
        "arr" => Object::Array(v["v"].as_array().map(|a| a.iter().map(tla_to_obj).collect()).unwrap_or_default()),
        "dict" => Object::Dictionary(tla_to_dict(&v["v"])),
        "ref" => Object::Reference((v["v"].as_u64().unwrap_or(0) as u32, v["w"].as_u64().unwrap_or(0) as u16)),
        _ => panic!("tla_to_obj: unknown kind {k}"),
    }
}
fn tla_to_dict(pairs: &Value) -> Dictionary {
    let mut d = Dictionary::new();
    if let Some(ps) = pairs.as_array() {
        for p in ps {
            d.set(json_to_bytes(&p[0]), tla_to_obj(&p[1]));
        }
    }
    d
}

// ------------------------------------------------------------------ worker
static PANIC_LOC: Mutex<String> = Mutex::new(String::new());

fn short_loc(file: &str, line: u32) -> String {
    // /repo/src/parser/mod.rs -> lopdf:parser/mod.rs ; ~/.cargo/registry/src/<idx>/rangemap-1.5.1/src/x.rs -> rangemap:x.rs
    let f = file.replace('\\', "/");
    if let Some(i) = f.find("/registry/src/") {
        let rest: Vec<&str> = f[i + 14..].splitn(3, '/').collect();
        if rest.len() == 3 {
            let krate = rest[1].rsplitn(2, '-').last().unwrap_or(rest[1]);
            return format!("{}:{}:{}", krate, rest[2].trim_start_matches("src/"), line);
        }
    }
    if let Some(i) = f.find("/library/") {
        return format!("std:{}:{}", &f[i + 9..], line);
    }
    if let Some(i) = f.rfind("/src/bin/") {
        return format!("harness:{}:{}", &f[i + 9..], line);
    }
    match f.find("src/") {
        Some(i) => format!("lopdf:{}:{}", &f[i + 4..], line),
        None => format!("{f}:{line}"),
    }
}

/// the class of a panic message: the part that does not depend on the values involved
fn msgclass(m: &str) -> String {
    let table: &[(&str, &str)] = &[
        ("attempt to add with overflow", "add-overflow"),
        ("attempt to subtract with overflow", "sub-overflow"),
        ("attempt to multiply with overflow", "mul-overflow"),
        ("attempt to divide by zero", "div-zero"),
        ("attempt to calculate the remainder with a divisor of zero", "rem-zero"),
        ("attempt to shift left with overflow", "shl-overflow"),
        ("attempt to shift right with overflow", "shr-overflow"),
        ("attempt to negate with overflow", "neg-overflow"),
        ("index out of bounds", "index-oob"),
        ("out of range for slice", "slice-oob"),
        ("slice index starts at", "slice-order"),
        ("called `Option::unwrap()` on a `None` value", "unwrap-none"),
        ("called `Result::unwrap()` on an `Err` value", "unwrap-err"),
        ("capacity overflow", "capacity-overflow"),
        ("byte index", "str-index"),
        ("not implemented", "unimplemented"),
        ("decoded string should only contain valid UTF16", "expect-utf16"),
        ("internal error: entered unreachable code", "unreachable"),
        ("assertion", "assertion"),
    ];
    for (pat, cls) in table {
        if m.contains(pat) {
            return cls.to_string();
        }
    }
    let w: Vec<String> = m.split_whitespace().take(3).map(|x| x.chars().filter(|c| c.is_ascii_alphabetic()).collect::<String>().to_lowercase()).filter(|x| !x.is_empty()).collect();
    format!("other-{}", w.join("-"))
}

fn catch<T>(f: impl FnOnce() -> T) -> Result<T, (String, String)> {
    *PANIC_LOC.lock().unwrap() = String::new();
    std::panic::catch_unwind(std::panic::AssertUnwindSafe(f)).map_err(|e| {
        let msg = if let Some(s) = e.downcast_ref::<&str>() {
            s.to_string()
        } else if let Some(s) = e.downcast_ref::<String>() {
            s.clone()
        } else {
            "panic".to_string()
        };
        (msg, PANIC_LOC.lock().unwrap().clone())
    })
}

/// res: ok | err ; note: short description of the value / error
struct Ran {
    res: &'static str,
    note: String,
    dig: String,
}
fn ran<T, E: std::fmt::Debug>(r: &Result<T, E>) -> Ran {
    match r {
        Ok(_) => Ran { res: "ok", note: String::new(), dig: String::new() },
        Err(e) => Ran { res: "err", note: format!("{e:?}").chars().take(80).collect(), dig: String::new() },
    }
}

fn cmap_probes() -> Vec<Vec<u8>> {
    let mut v: Vec<Vec<u8>> = vec![(0u8..=255).collect()];
    for hi in [0x00u8, 0x01, 0x10, 0x20, 0x41, 0x80, 0xD8, 0xFF] {
        v.push((0u8..=255).flat_map(|lo| [hi, lo]).collect());
    }
    v.push((0u8..=255).flat_map(|lo| [0, 0, 0, lo]).collect());
    v.push((0u8..=255).flat_map(|lo| [0xFF, 0xFF, 0xFF, lo]).collect());
    v.push(vec![0x41]);
    v.push(vec![0x00, 0x41, 0x00]);
    v
}

/// The incremental update of Adversary!ChainUpdate with m objects: a chain through an indirection the loader follows
/// while parsing (same layout byte for byte; TLC writes it with 3 objects, the worker with n).
fn chain_update(kind: &str, m: usize, start: usize, hdr: usize, prevsx: &str) -> Vec<u8> {
    const FIRST: usize = 70001;
    let mut b: Vec<u8> = vec![];
    if kind == "prev" {
        let mut p = prevsx.to_string();
        for _ in 0..m {
            let x = start + b.len() - hdr;
            b.extend_from_slice(format!("xref\n0 0\ntrailer\n<</Size {FIRST}/Prev {p}>>\nstartxref\n{x}\n%%EOF\n").as_bytes());
            p = x.to_string();
        }
        return b;
    }
    let mut offs = Vec::with_capacity(m);
    if kind == "nested" {
        // stream objects inside one another, closed by one endstream; the Length of object i covers the headers behind it
        let head = |i: usize, len: usize| format!("{} 0 obj\n<</Length {:010}>>stream\n", FIRST + i - 1, len);
        let mut suf = vec![0usize; m + 2];
        for i in (1..=m).rev() {
            suf[i] = head(i, 0).len() + suf[i + 1];
        }
        for i in 1..=m {
            offs.push(start + b.len() - hdr);
            b.extend_from_slice(head(i, suf[i + 1] + 1).as_bytes());
        }
        b.extend_from_slice(b"x\nendstream\nendobj\n");
    }
    for i in 1..=m {
        if kind == "nested" {
            break;
        }
        offs.push(start + b.len() - hdr);
        let (num, nxt, prv) = (FIRST + i - 1, FIRST + i, (FIRST + i).wrapping_sub(2));
        let body = match kind {
            "bigfirst" if i == 1 => format!("<</Length {}>>\nstream\n{}\nendstream", 128 * m, "x".repeat(128 * m)),
            "bigfirst" => "<<>>".to_string(),
            "length" if i == m => "<</Length 3>>\nstream\nabc\nendstream".to_string(),
            "length" => format!("<</Length {nxt} 0 R>>\nstream\nabc\nendstream"),
            "length.objstm" if i == m => "<</Type/ObjStm/N 1/First 4/Length 5>>\nstream\n7 0 3\nendstream".to_string(),
            "length.objstm" => format!("<</Type/ObjStm/N 1/First 4/Length {nxt} 0 R>>\nstream\n7 0 3\nendstream"),
            _ if i == 1 => format!("<</Type/Catalog/Pages {nxt} 0 R>>"),
            _ if i == m => format!("<</Type/Page/MediaBox[0 0 9 9]/Parent {prv} 0 R>>"),
            _ if i > 2 => format!("<</Type/Pages/Count 1/Kids[{nxt} 0 R]/Parent {prv} 0 R>>"),
            _ => format!("<</Type/Pages/Count 1/Kids[{nxt} 0 R]>>"),
        };
        b.extend_from_slice(format!("{num} 0 obj\n{body}\nendobj\n").as_bytes());
    }
    let x = start + b.len() - hdr;
    b.extend_from_slice(format!("xref\n{FIRST} {m}\n").as_bytes());
    for o in offs {
        b.extend_from_slice(format!("{o:010} 00000 n \n").as_bytes());
    }
    b.extend_from_slice(format!("trailer\n<</Size {}/Prev {prevsx}", FIRST + m).as_bytes());
    if kind == "kids" {
        b.extend_from_slice(format!("/Root {FIRST} 0 R").as_bytes());
    }
    b.extend_from_slice(format!(">>\nstartxref\n{x}\n%%EOF\n").as_bytes());
    b
}

/// Boundary codes of a ToUnicode CMap program (mirrors Adversary!BoundaryProbes): every hex string of 1-4 bytes as it
/// stands, one below, one above, one byte longer, one byte shorter.
fn boundary_probes(prog: &[u8]) -> Vec<Vec<u8>> {
    let mut out = vec![];
    let mut i = 0;
    while i < prog.len() && out.len() < 400 {
        if prog[i] == b'<' && prog.get(i + 1) != Some(&b'<') {
            if let Some(j) = prog[i + 1..].iter().position(|&c| c == b'>') {
                let inner = &prog[i + 1..i + 1 + j];
                if inner.iter().all(|c| c.is_ascii_hexdigit() || c.is_ascii_whitespace()) {
                    let nib: Vec<u8> = inner.iter().filter(|c| c.is_ascii_hexdigit()).map(|c| (*c as char).to_digit(16).unwrap() as u8).collect();
                    if [2, 4, 6, 8].contains(&nib.len()) {
                        let code: Vec<u8> = nib.chunks(2).map(|p| p[0] * 16 + p[1]).collect();
                        let n = code.len();
                        let v = code.iter().fold(0u64, |a, b| a * 256 + *b as u64);
                        let m = 1u64 << (8 * n);
                        let be = |x: u64| (0..n).rev().map(|k| ((x >> (8 * k)) & 0xFF) as u8).collect::<Vec<u8>>();
                        out.push(code.clone());
                        out.push(be((v + 1) % m));
                        out.push(be((v + m - 1) % m));
                        if n < 4 {
                            let mut c = vec![0u8];
                            c.extend_from_slice(&code);
                            out.push(c);
                        }
                        if n > 1 {
                            out.push(code[1..].to_vec());
                        }
                    }
                }
                i += j + 1;
            }
        }
        i += 1;
    }
    out
}

/// Parse -> Use: what the Adversary's UseStep asks to be done with a loaded document, under the same guard.
fn use_document(doc: &Document, uses: &[String]) -> String {
    let has = |k: &str| uses.iter().any(|u| u == k);
    let mut did = 0usize;
    if has("streams.decompress") {
        for o in doc.objects.values() {
            if let Ok(s) = o.as_stream() {
                let _ = s.decompressed_content();
                let _ = s.get_plain_content();
                did += 1;
            }
        }
    }
    let pages = doc.get_pages();
    for (_, &pid) in pages.iter() {
        if has("pages.content") {
            let _ = doc.get_page_content(pid);
            did += 1;
        }
        if has("pages.decode") {
            let _ = doc.get_and_decode_page_content(pid);
            did += 1;
        }
        if has("fonts.decode") {
            if let Ok(fonts) = doc.get_page_fonts(pid) {
                for (_, font) in fonts {
                    let mut texts = cmap_probes();
                    if let Ok(tu) = font.get_deref(b"ToUnicode", doc).and_then(Object::as_stream) {
                        if let Ok(prog) = tu.get_plain_content() {
                            texts.extend(boundary_probes(&prog));
                        }
                    }
                    if let Ok(enc) = font.get_font_encoding(doc) {
                        for t in &texts {
                            let _ = Document::decode_text(&enc, t);
                        }
                    }
                    did += 1;
                }
            }
        }
    }
    if has("extract_text") {
        let nums: Vec<u32> = pages.keys().copied().collect();
        let _ = doc.extract_text(&nums);
        let _ = doc.extract_text_chunks(&nums);
        did += 1;
    }
    format!("used {did}")
}

fn run_ep(ep: &str, bytes: &[u8], dict: &Value, want_dig: bool, uses: &[String], probes: &[Vec<u8>]) -> Ran {
    match ep {
        "load" => {
            let r = Document::load_mem(bytes);
            let mut out = ran(&r);
            if let Ok(d) = &r {
                out.note = use_document(d, uses);
            }
            if let (true, Ok(d)) = (want_dig, &r) {
                out.dig = format!("{}", d.objects.len());
            }
            if let Ok(d) = r {
                if want_dig {
                    // projection is harness code: outside the judged call
                    DOC_SLOT.lock().unwrap().replace(d);
                }
            }
            out
        }
        "incload" => {
            let r = IncrementalDocument::load_from(std::io::Cursor::new(bytes));
            let mut out = ran(&r);
            if let Ok(inc) = &r {
                out.note = use_document(inc.get_prev_documents(), uses);
            }
            out
        }
        "content" => {
            let r = Content::decode(bytes);
            if let (Ok(c), true) = (&r, uses.iter().any(|u| u == "encode")) {
                let _ = c.encode();
            }
            ran(&r)
        }
        "textstr" => ran(&lopdf::decode_text_string(&Object::String(bytes.to_vec(), StringFormat::Literal))),
        "filter" => {
            let s = Stream::new(tla_to_dict(dict), bytes.to_vec());
            let r = s.decompressed_content();
            if uses.iter().any(|u| u == "plain_content") {
                let _ = s.get_plain_content();
            }
            ran(&r)
        }
        "objstm" => {
            let mut s = Stream::new(tla_to_dict(dict), bytes.to_vec());
            ran(&ObjectStream::new(&mut s))
        }
        "xrefstm" => {
            let s = Stream::new(tla_to_dict(dict), bytes.to_vec());
            ran(&lopdf::xref::decode_xref_stream(s))
        }
        "png" => {
            let d = tla_to_dict(dict);
            let get = |k: &[u8]| d.get(k).and_then(Object::as_i64).unwrap_or(1) as usize;
            ran(&lopdf::filters::png::decode_frame(bytes, get(b"Bpp"), get(b"Ppr")))
        }
        "cmap" | "onebyte" => {
            // a font whose ToUnicode stream holds the program (cmap) / whose Encoding names a one-byte table (onebyte)
            let mut doc = Document::with_version("1.5");
            let mut font = tla_to_dict(dict);
            font.set("Type", Object::Name(b"Font".to_vec()));
            let texts: Vec<Vec<u8>> = if ep == "cmap" {
                let mut sd = Dictionary::new();
                if let Ok(f) = font.get(b"Filter") {
                    sd.set("Filter", f.clone());
                }
                font.remove(b"Filter");
                let id = doc.add_object(Stream::new(sd, bytes.to_vec()));
                font.set("ToUnicode", Object::Reference(id));
                if !font.has(b"Encoding") {
                    font.set("Encoding", Object::Name(b"Identity-H".to_vec()));
                }
                // decode.generic: fixed code tables; decode.boundaries: the codes the Adversary derived from the program
                let mut t = if uses.is_empty() || uses.iter().any(|u| u == "decode.generic") { cmap_probes() } else { vec![] };
                t.extend(probes.iter().cloned());
                t
            } else {
                vec![bytes.to_vec()]
            };
            let enc = font.get_font_encoding(&doc);
            match enc {
                Err(e) => Ran { res: "err", note: format!("{e:?}").chars().take(80).collect(), dig: String::new() },
                Ok(enc) => {
                    let mut oks = 0;
                    for t in &texts {
                        if Document::decode_text(&enc, t).is_ok() {
                            oks += 1;
                        }
                    }
                    Ran { res: "ok", note: format!("decoded {oks}/{}", texts.len()), dig: String::new() }
                }
            }
        }
        // the observation machinery tested on itself (checks/c04.py): each failure kind on purpose
        "selftest" => match bytes {
            b"panic" => panic!("selftest: deliberate panic"),
            b"overflow" => {
                fn deep(n: u64) -> u64 {
                    let pad = std::hint::black_box([n; 64]);
                    if n == 0 { 0 } else { deep(n - 1) + pad[(n % 64) as usize] }
                }
                Ran { res: "ok", note: format!("{}", deep(u64::MAX >> 20)), dig: String::new() }
            }
            b"alloc" => {
                let v = vec![0u8; 8usize << 30];
                Ran { res: "ok", note: format!("{}", v.len()), dig: String::new() }
            }
            b"hang" => loop {
                std::thread::sleep(Duration::from_millis(50));
            },
            _ => Ran { res: "ok", note: String::new(), dig: String::new() },
        },
        _ => panic!("harness: unknown entry point {ep}"),
    }
}

static DOC_SLOT: Mutex<Option<Document>> = Mutex::new(None);

fn worker_case(line: &str) -> String {
    let case: Value = match serde_json::from_str(line) {
        Ok(v) => v,
        Err(e) => return json!({"harness_error": format!("bad case json: {e}")}).to_string(),
    };
    let id = case["id"].clone();
    let ep = case["ep"].as_str().unwrap_or("").to_string();
    let mut bytes = unhex(case["hex"].as_str().unwrap_or(""));
    // a chain written by the Adversary with 3 objects at the tail: [first, last (1-based), n, header position, Prev, kind]
    let mut chain_at = usize::MAX;
    if let Some(c) = case.get("chain").and_then(Value::as_array) {
        let (s0, e0, n) = (c[0].as_u64().unwrap_or(0) as usize, c[1].as_u64().unwrap_or(0) as usize, c[2].as_u64().unwrap_or(3) as usize);
        let prev_owned = c[4].as_str().map(String::from).unwrap_or_else(|| c[4].as_u64().unwrap_or(0).to_string());
        let (hdr, prev, kind) = (c[3].as_u64().unwrap_or(1) as usize, prev_owned.as_str(), c[5].as_str().unwrap_or("length"));
        if s0 >= 1 && e0 == bytes.len() && s0 <= e0 {
            if case["chain_check"].as_bool().unwrap_or(false) {
                let mut model = vec![b'\n'];
                model.extend_from_slice(&chain_update(kind, 3, s0 + 1, hdr, prev));
                if model != bytes[s0 - 1..] {
                    return json!({"harness_error": "the worker's chain layout differs from the one TLC wrote"}).to_string();
                }
            }
            bytes.truncate(s0 - 1);
            bytes.push(b'\n');
            bytes.extend_from_slice(&chain_update(kind, n, s0 + 1, hdr, prev));
            chain_at = s0;
        }
    }
    // repetition blocks written by the Adversary as a few copies: [first, last (1-based), unit length, n] -> n copies
    if let Some(reps) = case.get("reps").and_then(Value::as_array) {
        let mut rs: Vec<(usize, usize, usize, usize)> = reps
            .iter()
            .map(|r| (r[0].as_u64().unwrap_or(1) as usize, r[1].as_u64().unwrap_or(0) as usize, r[2].as_u64().unwrap_or(1) as usize, r[3].as_u64().unwrap_or(1) as usize))
            .collect();
        rs.sort_by(|a, b| b.0.cmp(&a.0));
        for (s0, e0, ulen, n) in rs {
            if s0 >= 1 && e0 <= bytes.len() && s0 + ulen <= e0 + 1 && ulen > 0 && e0 < chain_at {
                let unit = bytes[s0 - 1..s0 - 1 + ulen].to_vec();
                let mut nb = Vec::with_capacity(bytes.len() + unit.len() * n);
                nb.extend_from_slice(&bytes[..s0 - 1]);
                for _ in 0..n {
                    nb.extend_from_slice(&unit);
                }
                nb.extend_from_slice(&bytes[e0..]);
                bytes = nb;
            }
        }
    }
    let dict = case.get("dict").cloned().unwrap_or(json!([]));
    let want_dig = case["want_dig"].as_bool().unwrap_or(false);
    let uses: Vec<String> = case.get("use").and_then(Value::as_array).map(|a| a.iter().filter_map(|x| x.as_str().map(String::from)).collect()).unwrap_or_default();
    let probes: Vec<Vec<u8>> = case.get("probes").and_then(Value::as_array).map(|a| a.iter().map(json_to_bytes).collect()).unwrap_or_default();
    let req_limit = case["req_limit"].as_u64().unwrap_or(u64::MAX >> 1) as usize;
    let live_limit = case["live_limit"].as_u64().unwrap_or(u64::MAX >> 1) as usize;
    let stack = case["stack_kb"].as_u64().unwrap_or(8192) as usize * 1024;
    DOC_SLOT.lock().unwrap().take();
    // the judged call: own thread (fixed stack), accounting allocator armed
    let base = CUR.load(Relaxed);
    PEAK.store(base, Relaxed);
    MAXREQ.store(0, Relaxed);
    REFUSED.store(0, Relaxed);
    CAPPED.store(0, Relaxed);
    REQ_LIMIT.store(req_limit, Relaxed);
    LIVE_LIMIT.store(base.saturating_add(live_limit), Relaxed);
    let t0 = Instant::now();
    let (ep2, b2, d2) = (ep.clone(), bytes, dict);
    let h = std::thread::Builder::new().stack_size(stack).spawn(move || catch(|| run_ep(&ep2, &b2, &d2, want_dig, &uses, &probes)));
    let r = match h {
        Ok(h) => h.join().unwrap_or_else(|_| Err(("worker thread died".to_string(), String::new()))),
        Err(e) => {
            REQ_LIMIT.store(usize::MAX, Relaxed);
            LIVE_LIMIT.store(usize::MAX, Relaxed);
            return json!({"harness_error": format!("cannot spawn case thread: {e}")}).to_string();
        }
    };
    let us = t0.elapsed().as_micros() as u64;
    REQ_LIMIT.store(usize::MAX, Relaxed);
    LIVE_LIMIT.store(usize::MAX, Relaxed);
    let (maxreq, refused, peak) = (MAXREQ.load(Relaxed), REFUSED.load(Relaxed), PEAK.load(Relaxed).saturating_sub(base));
    let mut dig = String::new();
    if let Some(d) = DOC_SLOT.lock().unwrap().take() {
        if let Ok(s) = lopdf_conform::guard::guarded(|| serde_json::to_string(&doc_to_tla(&d)).unwrap_or_default()) {
            dig = fnv(s.as_bytes());
        }
    }
    match r {
        Ok(x) => json!({"id": id, "res": x.res, "msg": x.note, "loc": "", "us": us, "maxreq": maxreq, "refused": refused, "capped": CAPPED.load(Relaxed) == 1, "peak": peak, "dig": dig}),
        Err((msg, loc)) => {
            if ep != "selftest" && (loc.starts_with("harness:") || msg.starts_with("harness:") || msg.starts_with("tla_to_obj")) {
                return json!({"harness_error": format!("{msg} at {loc}")}).to_string();
            }
            json!({"id": id, "res": "panic", "msg": msg.chars().take(200).collect::<String>(), "loc": loc, "mcl": msgclass(&msg), "us": us,
                   "maxreq": maxreq, "refused": refused, "capped": CAPPED.load(Relaxed) == 1, "peak": peak, "dig": ""})
        }
    }
    .to_string()
}

extern "C" {
    fn setrlimit(resource: i32, rlim: *const [u64; 2]) -> i32;
}

fn worker() {
    #[cfg(target_os = "linux")]
    unsafe {
        // backstop only (the accounting allocator refuses oversized requests first); no core dumps
        let mb: u64 = std::env::var("VERIF_WORKER_MEM_MB").ok().and_then(|s| s.parse().ok()).unwrap_or(0);
        if mb > 0 {
            let lim = [mb << 20, mb << 20];
            setrlimit(9 /* RLIMIT_AS */, &lim);
        }
        let zero = [0u64, 0u64];
        setrlimit(4 /* RLIMIT_CORE */, &zero);
    }
    lopdf_conform::guard::quiet_panics();
    std::panic::set_hook(Box::new(|info| {
        if let Some(l) = info.location() {
            if let Ok(mut g) = PANIC_LOC.try_lock() {
                *g = short_loc(l.file(), l.line());
            }
        }
    }));
    // thousands of tiny loads: a small pool (default stack size, as an application would have)
    let _ = rayon::ThreadPoolBuilder::new().num_threads(2).build_global();
    sup::worker_loop(worker_case);
}

// ------------------------------------------------------------------ supervisor
fn kind_of_answer(v: &Value) -> &'static str {
    match v["res"].as_str() {
        Some("ok") => "ok",
        Some("err") => "err",
        Some("panic") => "panic",
        _ => "crash",
    }
}

/// one case, alone, in a fresh worker whose stderr is captured: tells a stack overflow from a failed allocation
/// from any other abort, and a slow answer from a hang
fn confirm(exe: &str, case: &str, timeout: Duration, mem: u64) -> Value {
    use std::process::{Command, Stdio};
    let mut child = Command::new(exe)
        .arg("worker")
        .env("VERIF_WORKER_MEM_MB", mem.to_string())
        .stdin(Stdio::piped())
        .stdout(Stdio::piped())
        .stderr(Stdio::piped())
        .spawn()
        .expect("spawn worker");
    let mut stdin = child.stdin.take().unwrap();
    let mut stdout = child.stdout.take().unwrap();
    let mut stderr = child.stderr.take().unwrap();
    let _ = stdin.write_all(case.as_bytes()).and_then(|_| stdin.write_all(b"\n")).and_then(|_| stdin.flush());
    drop(stdin); // worker_loop ends after this case
    let (tx, rx) = std::sync::mpsc::channel();
    std::thread::spawn(move || {
        let mut s = String::new();
        let _ = stdout.read_to_string(&mut s);
        let _ = tx.send(s);
    });
    let eh = std::thread::spawn(move || {
        let mut s = String::new();
        let _ = stderr.read_to_string(&mut s);
        s
    });
    let t0 = Instant::now();
    match rx.recv_timeout(timeout) {
        Err(_) => {
            let _ = child.kill();
            let _ = child.wait();
            json!({"kind": "hang", "msg": format!("no answer within {} ms (alone, fresh worker)", timeout.as_millis())})
        }
        Ok(out) => {
            let st = child.wait().map(|s| format!("{s}")).unwrap_or_default();
            let err = eh.join().unwrap_or_default();
            let line = out.lines().next().unwrap_or("");
            if let Ok(v) = serde_json::from_str::<Value>(line) {
                if v.get("res").is_some() || v.get("harness_error").is_some() {
                    return json!({"kind": "answer", "answer": v, "ms": t0.elapsed().as_millis() as u64});
                }
            }
            if err.contains("has overflowed its stack") {
                json!({"kind": "stackoverflow", "msg": "thread has overflowed its stack"})
            } else if let Some(i) = err.find("memory allocation of ") {
                let n: String = err[i + 21..].chars().take_while(|c| c.is_ascii_digit()).collect();
                json!({"kind": "allocabort", "msg": format!("memory allocation of {n} bytes failed"), "size": n})
            } else {
                json!({"kind": "abort", "msg": format!("{st}; {}", err.chars().take(160).collect::<String>())})
            }
        }
    }
}

fn run(args: &[String]) {
    // the workers run from a private copy of this binary next to the output file: the build directory (a shadow crate
    // under .work/ when VERIF_REPO is set) is shared with other runs and may be cleaned away under us; /proc/self/exe
    // can be copied even then
    let me = std::env::current_exe().unwrap();
    let outp = arg(args, "--out").unwrap();
    let dir = std::path::Path::new(&outp).parent().filter(|p| !p.as_os_str().is_empty()).unwrap_or(std::path::Path::new(".")).to_path_buf();
    let copy = dir.join(format!("c04-worker-{}", std::process::id()));
    let exe = match std::fs::copy("/proc/self/exe", &copy).or_else(|_| std::fs::copy(&me, &copy)).and_then(|_| std::fs::canonicalize(&copy)) {
        Ok(p) => p.to_string_lossy().to_string(),
        Err(_) => me.to_string_lossy().to_string(),
    };
    let recs = read_ndjson(&arg(args, "--in").unwrap());
    let jobs = arg_u64(args, "--jobs", 8) as usize;
    let mem = arg_u64(args, "--mem-mb", 4096);
    let max_hangs = arg_u64(args, "--max-hangs", 24) as usize;
    // batches of cases with the same time limit
    let mut order: Vec<usize> = (0..recs.len()).filter(|&i| !recs[i]["skip"].as_bool().unwrap_or(false)).collect();
    order.sort_by_key(|&i| (recs[i]["tmo_ms"].as_u64().unwrap_or(3000), i));
    let mut batches: Vec<(u64, Vec<usize>)> = vec![];
    for i in order {
        let t = recs[i]["tmo_ms"].as_u64().unwrap_or(3000);
        match batches.last_mut() {
            // long time limits go with big inputs: small batches, so that they spread over the jobs
            Some((bt, v)) if *bt == t && v.len() < (if t <= 4000 { 64 } else if t <= 8000 { 8 } else { 2 }) => v.push(i),
            _ => batches.push((t, vec![i])),
        }
    }
    let next = AtomicUsize::new(0);
    let hangs = AtomicUsize::new(0);
    let results: Mutex<Vec<Option<Value>>> = Mutex::new(vec![None; recs.len()]);
    let fatal: Mutex<Option<String>> = Mutex::new(None);
    std::thread::scope(|sc| {
        for _ in 0..jobs.max(1) {
            sc.spawn(|| loop {
                let b = next.fetch_add(1, Relaxed);
                if b >= batches.len() || fatal.lock().unwrap().is_some() {
                    break;
                }
                if hangs.load(Relaxed) >= max_hangs {
                    break; // budget: the rest is reported as not run
                }
                let (tmo, idx) = &batches[b];
                let lines: Vec<String> = idx.iter().map(|&i| recs[i].to_string()).collect();
                let outs = sup::run_cases(&exe, &["worker".to_string()], &lines, Duration::from_millis(*tmo), mem);
                let mut k = 0;
                while k < idx.len() {
                    let i = idx[k];
                    let o = &outs[k];
                    k += 1;
                    let v = match o {
                        sup::Outcome::Line(l) => match serde_json::from_str::<Value>(l) {
                            Ok(v) if v.get("harness_error").is_some() => {
                                *fatal.lock().unwrap() = Some(format!("case {}: {}", recs[i]["id"], v["harness_error"]));
                                break;
                            }
                            Ok(v) => json!({"id": recs[i]["id"], "ran": true, "kind": kind_of_answer(&v), "msg": v["msg"], "loc": v["loc"],
                                            "mcl": v.get("mcl").cloned().unwrap_or(json!("")), "us": v["us"], "maxreq": v["maxreq"], "refused": v["refused"], "capped": v.get("capped").cloned().unwrap_or(json!(false)), "peak": v["peak"], "dig": v["dig"]}),
                            Err(e) => {
                                *fatal.lock().unwrap() = Some(format!("worker answered garbage: {e}: {l}"));
                                break;
                            }
                        },
                        lost => {
                            // the case in flight was lost (or the worker was already gone: artefact of the previous loss):
                            // run it again alone, three times the limit, stderr captured
                            let was_hang = matches!(lost, sup::Outcome::Hang);
                            let c = confirm(&exe, &lines[k - 1], Duration::from_millis(*tmo * 3), mem);
                            match c["kind"].as_str().unwrap_or("") {
                                "answer" => {
                                    let a = &c["answer"];
                                    if a.get("harness_error").is_some() {
                                        *fatal.lock().unwrap() = Some(format!("case {}: {}", recs[i]["id"], a["harness_error"]));
                                        break;
                                    }
                                    json!({"id": recs[i]["id"], "ran": true, "kind": kind_of_answer(a), "msg": a["msg"], "loc": a["loc"],
                                           "mcl": a.get("mcl").cloned().unwrap_or(json!("")), "us": a["us"],
                                           "maxreq": a["maxreq"], "refused": a["refused"], "capped": a.get("capped").cloned().unwrap_or(json!(false)), "peak": a["peak"], "dig": a["dig"],
                                           "note": if was_hang { "first run exceeded the time limit, answered alone within 3x" } else { "first run lost with its worker, answered alone" }})
                                }
                                kind => {
                                    if kind == "hang" {
                                        hangs.fetch_add(1, Relaxed);
                                    }
                                    json!({"id": recs[i]["id"], "ran": true, "kind": kind, "msg": c["msg"], "loc": "", "mcl": "", "us": 0, "maxreq": 0,
                                           "refused": c.get("size").cloned().unwrap_or(json!(0)), "peak": 0, "dig": ""})
                                }
                            }
                        }
                    };
                    results.lock().unwrap()[i] = Some(v);
                }
            });
        }
    });
    let _ = std::fs::remove_file(&copy);
    if let Some(f) = fatal.lock().unwrap().as_ref() {
        eprintln!("harness error: {f}");
        std::process::exit(3);
    }
    let mut out = NdjsonOut::create(&arg(args, "--out").unwrap());
    for (i, r) in results.into_inner().unwrap().into_iter().enumerate() {
        // h: identity of the input (entry point + bytes + dictionary), for counting distinct inputs
        let h = fnv(format!("{}|{}|{}|{}", recs[i]["ep"], recs[i]["hex"], recs[i]["dict"], recs[i].get("reps").unwrap_or(&Value::Null)).as_bytes());
        let h = if recs[i].get("chain").is_some() { fnv(format!("{h}{}", recs[i]["chain"]).as_bytes()) } else { h };
        match r {
            Some(mut v) => {
                v["h"] = json!(h);
                out.put(&v)
            }
            None => out.put(&json!({"id": recs[i]["id"], "ran": false, "kind": "notrun", "h": h})),
        }
    }
    out.finish();
}

// ------------------------------------------------------------------ seeds: legal inputs of every entry point
fn tint(i: i64) -> Value {
    obj_to_file_tla(&Object::Integer(i))
}
fn tname(s: &str) -> Value {
    obj_to_file_tla(&Object::Name(s.as_bytes().to_vec()))
}
fn tarr(v: Vec<Value>) -> Value {
    json!({"k": "arr", "v": v})
}
fn tdict(p: Vec<(&str, Value)>) -> Value {
    json!({"k": "dict", "v": pairs(p)})
}
fn pairs(p: Vec<(&str, Value)>) -> Value {
    Value::Array(p.into_iter().map(|(k, v)| json!([bytes_to_json(k.as_bytes()), v])).collect())
}
fn toks(ts: &[&str]) -> Value {
    Value::Array(ts.iter().map(|t| bytes_to_json(t.as_bytes())).collect())
}

fn a85_encode(data: &[u8]) -> Vec<u8> {
    let mut out = vec![];
    for ch in data.chunks(4) {
        let mut w = [0u8; 4];
        w[..ch.len()].copy_from_slice(ch);
        let mut v = u32::from_be_bytes(w);
        if v == 0 && ch.len() == 4 {
            out.push(b'z');
            continue;
        }
        let mut g = [0u8; 5];
        for i in (0..5).rev() {
            g[i] = (v % 85) as u8 + b'!';
            v /= 85;
        }
        out.extend_from_slice(&g[..ch.len() + 1]);
    }
    out.extend_from_slice(b"~>");
    out
}

/// a legal LZW stream made of literal codes only (9-bit codes, a clear code every 200 bytes, EOD at the end)
fn lzw_encode_literal(data: &[u8]) -> Vec<u8> {
    let mut bits: Vec<bool> = vec![];
    let mut put = |code: u16| {
        for i in (0..9).rev() {
            bits.push((code >> i) & 1 == 1);
        }
    };
    put(256);
    for (i, b) in data.iter().enumerate() {
        if i > 0 && i % 200 == 0 {
            put(256);
        }
        put(*b as u16);
    }
    put(257);
    bits.chunks(8).map(|c| c.iter().enumerate().fold(0u8, |a, (i, b)| a | ((*b as u8) << (7 - i)))).collect()
}

fn zlib(data: &[u8]) -> Vec<u8> {
    let mut e = flate2::write::ZlibEncoder::new(Vec::new(), flate2::Compression::default());
    e.write_all(data).unwrap();
    e.finish().unwrap()
}

fn png_encode(data: &[u8], bpp: usize, rowlen: usize, rng: &mut Rng) -> Vec<u8> {
    use lopdf::filters::png::{encode_row, FilterType};
    let mut out = vec![];
    let mut prev = vec![0u8; rowlen];
    for row in data.chunks(rowlen) {
        let mut cur = row.to_vec();
        cur.resize(rowlen, 0);
        let orig = cur.clone();
        let (tag, ft) = *rng.pick(&[(0u8, FilterType::None), (1, FilterType::Sub), (2, FilterType::Up), (4, FilterType::Paeth)]);
        encode_row(ft, bpp, &prev, &mut cur);
        out.push(tag);
        out.extend_from_slice(&cur);
        prev = orig;
    }
    out
}

fn content_seed(rng: &mut Rng) -> Vec<u8> {
    let mut s = Vec::new();
    let ops: &[&[u8]] = &[
        b"BT /F1 12 Tf 72.5 712 TD (Hello) Tj ET\n", b"[(a) -200 (b) 65 (,)] TJ\n", b"q 1 0 0 1 10.5 -20 cm Q\n", b"0.5 0.5 0.5 rg\n",
        b"/Im1 Do\n", b"<48656C6C6F> Tj\n", b"(nested (parens) \\( \\051 \\\\) '\n", b"% a comment\n", b"1 2 3 4 re f*\n",
        b"/P <</MCID 0 /A [1 2 <</B (c)>>]>> BDC EMC\n", b"[] 0 d 2 J 10 M\n", b"BI /W 2 /H 2 /CS /RGB /BPC 8 ID 0123456789ab EI\n",
        b"BI /Width 4 /Height 1 /ColorSpace /DeviceGray /BitsPerComponent 8 ID abcd EI\n", b"true false null 7 (x) \"\n",
    ];
    for _ in 0..2 + rng.below(6) {
        let op: &[u8] = *rng.pick(ops);
        s.extend_from_slice(op);
    }
    s
}

fn cmap_seed(rng: &mut Rng) -> Vec<u8> {
    let mut s = String::new();
    s.push_str("/CIDInit /ProcSet findresource begin\n12 dict begin\nbegincmap\n");
    if rng.chance(1, 2) {
        s.push_str("/CIDSystemInfo << /Registry (Adobe) /Ordering (UCS) /Supplement 0 >> def\n");
    } else {
        s.push_str("/CIDSystemInfo 3 dict dup begin\n  /Registry (Adobe) def\n  /Ordering (UCS) def\n  /Supplement 0 def\nend def\n");
    }
    s.push_str("/CMapName /Adobe-Identity-UCS def\n/CMapType 2 def\n");
    let two = rng.chance(2, 3);
    if two {
        s.push_str("1 begincodespacerange\n<0000> <FFFF>\nendcodespacerange\n");
    } else {
        s.push_str("1 begincodespacerange\n<00> <FF>\nendcodespacerange\n");
    }
    let code = |x: u32| if two { format!("<{x:04X}>") } else { format!("<{:02X}>", x & 0xFF) };
    for _ in 0..1 + rng.below(3) {
        if rng.chance(1, 2) {
            let n = 1 + rng.below(3);
            s.push_str(&format!("{n} beginbfchar\n"));
            for _ in 0..n {
                let c = rng.below(256) as u32;
                let t = *rng.pick(&["<0041>", "<00660069>", "<D83DDE00>", "<FFFF>", "<0020 0021>"]);
                s.push_str(&format!("{} {}\n", code(c), t));
            }
            s.push_str("endbfchar\n");
        } else {
            let n = 1 + rng.below(3);
            s.push_str(&format!("{n} beginbfrange\n"));
            for _ in 0..n {
                let lo = rng.below(200) as u32;
                let len = 1 + rng.below(6) as u32;
                match rng.below(5) {
                    0 => s.push_str(&format!("{} {} <0030>\n", code(lo), code(lo + len))),
                    1 => s.push_str(&format!("{} {} <0066006A>\n", code(lo), code(lo + len))),
                    2 => s.push_str(&format!("{} {} <D83DDE00>\n", code(lo), code(lo + len))),
                    _ => {
                        let items: Vec<String> = (0..=len).map(|i| format!("<{:04X}>", 0x41 + i)).collect();
                        s.push_str(&format!("{} {} [{}]\n", code(lo), code(lo + len), items.join(" ")));
                    }
                }
            }
            s.push_str("endbfrange\n");
        }
    }
    s.push_str("endcmap\nCMapName currentdict /CMap defineresource pop\nend\nend\n");
    s.into_bytes()
}

const PDF_TOKS: &[&str] = &["obj", "endobj", "stream", "endstream", "xref", "trailer", "startxref", "<<", ">>", "[", "]", "(", ")", "R", "%%EOF"];
const CONTENT_TOKS: &[&str] = &["BI", "ID", "EI", "BT", "ET", "Tj", "TJ", "<<", ">>", "[", "]", "(", ")", "<", ">", "/", "%", "\\"];
const CMAP_TOKS: &[&str] = &["<0041> ", "beginbfchar", "endbfchar", "beginbfrange", "endbfrange", "begincodespacerange", "endcodespacerange", "endcmap", "begincmap",
    "<", ">", "[", "]", "<<", ">>", "def", "end", "dict"];
const A85_TOKS: &[&str] = &["z", "~>", "~", "u", "s8W-", "s8W-\"", "!", " ", "v"];
const BIN_TOKS: &[&str] = &["\u{0}", "\u{1}", "\u{4}", "\u{5}", "\u{7f}"];
const OBJ_TOKS: &[&str] = &["<<", ">>", "[", "]", "(", ")", "R", "/", "<", ">", "-", " "];

fn seed_rec(ep: &str, bytes: &[u8], dict: Value, toks_: Value, tag: &str) -> Value {
    // txt: the payload is text a lexical scan can find sites in (not compressed / binary data)
    let txt = (matches!(ep, "file" | "content") || tag == "cmap" || tag == "objstm") && !tag.starts_with("amp:");
    json!({"ep": ep, "bytes": bytes_to_json(bytes), "dict": dict, "toks": toks_, "tag": tag, "txt": txt})
}

/// A legal file lopdf itself cannot write: an object stream (FlateDecode) and a cross-reference stream compressed with
/// FlateDecode + PNG predictor (all DecodeParms spelled out, so that each is a numeric site).
fn made_compressed_file(rng: &mut Rng) -> Vec<u8> {
    let mut f: Vec<u8> = b"%PDF-1.5\n%\xE2\xE3\xCF\xD3\n".to_vec();
    let mut offs: Vec<(u32, usize)> = vec![];
    let mut put = |f: &mut Vec<u8>, num: u32, body: &[u8]| {
        offs.push((num, f.len()));
        f.extend_from_slice(format!("{num} 0 obj\n").as_bytes());
        f.extend_from_slice(body);
        f.extend_from_slice(b"\nendobj\n");
    };
    put(&mut f, 1, b"<</Type/Catalog/Pages 2 0 R>>");
    put(&mut f, 2, b"<</Type/Pages/Kids[3 0 R]/Count 1>>");
    // objects 4 and 5 live in object stream 6
    let members: [&[u8]; 2] = [b"<</Font<</F1 5 0 R>>>>", b"<</Type/Font/Subtype/Type1/BaseFont/Courier>>"];
    let index = format!("4 0 5 {} ", members[0].len() + 1);
    let mut os = index.clone().into_bytes();
    os.extend_from_slice(members[0]);
    os.push(b' ');
    os.extend_from_slice(members[1]);
    let osz = zlib(&os);
    put(&mut f, 3, b"<</Type/Page/Parent 2 0 R/Resources 4 0 R/MediaBox[0 0 200 200]>>");
    let mut body = format!("<</Type/ObjStm/N 2/First {}/Filter/FlateDecode/Length {}>>stream\n", index.len(), osz.len()).into_bytes();
    body.extend_from_slice(&osz);
    body.extend_from_slice(b"\nendstream");
    put(&mut f, 6, &body);
    // cross-reference stream 7: W [1 2 1], rows for objects 0..7
    let xoff = f.len();
    let mut rows: Vec<u8> = vec![];
    let row = |t: u8, a: u16, b: u8| [t, (a >> 8) as u8, a as u8, b];
    rows.extend_from_slice(&row(0, 0, 255));
    for n in 1u32..=7 {
        if n == 4 || n == 5 {
            rows.extend_from_slice(&row(2, 6, (n - 4) as u8));
        } else if n == 7 {
            rows.extend_from_slice(&row(1, xoff as u16, 0));
        } else {
            let o = offs.iter().find(|(k, _)| *k == n).unwrap().1;
            rows.extend_from_slice(&row(1, o as u16, 0));
        }
    }
    let xz = zlib(&png_encode(&rows, 1, 4, rng));
    f.extend_from_slice(
        format!("7 0 obj\n<</Type/XRef/Size 8/W[1 2 1]/Index[0 8]/Root 1 0 R/Filter/FlateDecode/DecodeParms<</Predictor 12/Columns 4/Colors 1/BitsPerComponent 8>>/Length {}>>stream\n", xz.len())
            .as_bytes(),
    );
    f.extend_from_slice(&xz);
    f.extend_from_slice(format!("\nendstream\nendobj\nstartxref\n{xoff}\n%%EOF\n").as_bytes());
    f
}

fn real_files(rng: &mut Rng, n: usize) -> Vec<(String, Vec<u8>)> {
    let mut v = vec![];
    for _ in 0..2 {
        v.push(("made:objstm+xref-flate-png".to_string(), made_compressed_file(rng)));
    }
    let assets = std::env::var("VERIF_ASSETS").unwrap_or_else(|_| "/repo/assets".to_string());
    for a in ["example.pdf", "Incremental.pdf", "unicode.pdf"] {
        if let Ok(b) = std::fs::read(format!("{assets}/{a}")) {
            if !b.is_empty() {
                v.push((format!("asset:{a}"), b));
            }
        }
    }
    for i in 0..n {
        let mut doc = gen::random_document(rng, 6, i % 2 == 0, false);
        let mut buf = vec![];
        let modern = i % 3 == 2;
        if modern {
            doc.reference_table.cross_reference_type = lopdf::xref::XrefType::CrossReferenceStream;
        }
        if doc.save_to(&mut buf).is_ok() && !buf.is_empty() && buf.len() < 6000 {
            v.push((if modern { "saved:xrefstream".to_string() } else { "saved:classic".to_string() }, buf.clone()));
            // an incremental update written by lopdf on top of it (Prev chain)
            if i % 3 == 1 {
                if let Ok(mut inc) = IncrementalDocument::load_from(std::io::Cursor::new(buf)) {
                    inc.new_document.objects.insert((inc.new_document.max_id + 1, 0), Object::Integer(7));
                    inc.new_document.max_id += 1;
                    let mut b2 = vec![];
                    if inc.save_to(&mut b2).is_ok() && b2.len() < 8000 {
                        v.push(("saved:incremental".to_string(), b2));
                    }
                }
            }
        }
    }
    v
}

fn seeds(args: &[String]) {
    let seed = arg_u64(args, "--seed", 1);
    let n = arg_u64(args, "--n", 8) as usize; // variants per entry point
    let mut rng = Rng::new(seed ^ 0xC04);
    let mut out = NdjsonOut::create(&arg(args, "--out").unwrap());
    let none = json!([]);
    for (tag, b) in real_files(&mut rng, n) {
        out.put(&seed_rec("file", &b, none.clone(), toks(PDF_TOKS), &tag));
    }
    for _ in 0..n {
        out.put(&seed_rec("content", &content_seed(&mut rng), none.clone(), toks(CONTENT_TOKS), "content"));
        for _ in 0..3 {
            out.put(&seed_rec("cmap", &cmap_seed(&mut rng), none.clone(), toks(CMAP_TOKS), "cmap"));
        }
    }
    // a compressed ToUnicode stream
    out.put(&seed_rec("cmap", &zlib(&cmap_seed(&mut rng)), pairs(vec![("Filter", tname("FlateDecode"))]), toks(BIN_TOKS), "cmap.flate"));
    for enc in ["StandardEncoding", "MacRomanEncoding", "MacExpertEncoding", "WinAnsiEncoding", "PDFDocEncoding", "UniGB-UCS2-H"] {
        let b: Vec<u8> = (0u8..=255).collect();
        out.put(&seed_rec("onebyte", &b, pairs(vec![("Encoding", tname(enc))]), toks(BIN_TOKS), "onebyte"));
    }
    // stream filters
    for i in 0..n {
        let data: Vec<u8> = match i % 3 {
            0 => (0..40 + rng.below(60)).map(|_| rng.byte()).collect(),
            1 => b"Man is distinguished, not only by his reason, but by this singular passion".to_vec(),
            _ => (0..48).map(|k| (k / 7) as u8).chain([0, 0, 0, 0, 0, 0, 0, 0]).collect(),
        };
        out.put(&seed_rec("filter", &a85_encode(&data), pairs(vec![("Filter", tname("ASCII85Decode"))]), toks(A85_TOKS), "a85"));
        out.put(&seed_rec("filter", &lzw_encode_literal(&data), pairs(vec![("Filter", tname("LZWDecode"))]), toks(BIN_TOKS), "lzw"));
        out.put(&seed_rec("filter", &lzw_encode_literal(&data),
            pairs(vec![("Filter", tname("LZWDecode")), ("DecodeParms", tdict(vec![("EarlyChange", tint((i % 2) as i64))]))]), toks(BIN_TOKS), "lzw.early"));
        out.put(&seed_rec("filter", &zlib(&data), pairs(vec![("Filter", tname("FlateDecode"))]), toks(BIN_TOKS), "flate"));
        out.put(&seed_rec("filter", &a85_encode(&zlib(&data)), pairs(vec![("Filter", tarr(vec![tname("ASCII85Decode"), tname("FlateDecode")]))]), toks(A85_TOKS), "a85+flate"));
        // predictors: Columns x Colors x BitsPerComponent
        let (cols, colors, bpc) = *rng.pick(&[(4i64, 1i64, 8i64), (3, 3, 8), (2, 1, 16), (5, 4, 8), (8, 1, 8)]);
        let bpp = (colors * bpc / 8) as usize;
        let rowlen = bpp * cols as usize;
        let png = png_encode(&data, bpp, rowlen, &mut rng);
        let parms = tdict(vec![("Predictor", tint(10 + rng.below(6) as i64)), ("Columns", tint(cols)), ("Colors", tint(colors)), ("BitsPerComponent", tint(bpc))]);
        out.put(&seed_rec("filter", &zlib(&png), pairs(vec![("Filter", tname("FlateDecode")), ("DecodeParms", parms.clone())]), toks(BIN_TOKS), "flate+png"));
        out.put(&seed_rec("filter", &lzw_encode_literal(&png), pairs(vec![("Filter", tname("LZWDecode")), ("DecodeParms", parms)]), toks(BIN_TOKS), "lzw+png"));
        out.put(&seed_rec("png", &png, pairs(vec![("Bpp", tint(bpp as i64)), ("Ppr", tint(cols))]), toks(BIN_TOKS), "png"));
        // the TIFF predictor takes the other branch of the predictor code: any bytes are predictor-coded data
        let tparms = tdict(vec![("Predictor", tint(2)), ("Columns", tint(cols)), ("Colors", tint(colors)), ("BitsPerComponent", tint(bpc))]);
        out.put(&seed_rec("filter", &zlib(&data), pairs(vec![("Filter", tname("FlateDecode")), ("DecodeParms", tparms)]), toks(BIN_TOKS), "flate+tiff"));
    }
    // object streams
    for i in 0..n {
        let objs: Vec<&[u8]> = vec![b"<</Type/Page/Parent 2 0 R>>", b"[1 2 (three) /Four 5.5]", b"42", b"(a string)", b"<</A<</B[<</C 1>>]>>>>", b"null"];
        let k = 1 + rng.below(objs.len());
        let mut body = vec![];
        let mut index = String::new();
        for j in 0..k {
            index.push_str(&format!("{} {} ", 10 + j * (1 + i % 3), body.len()));
            body.extend_from_slice(objs[(i + j) % objs.len()]);
            body.push(b' ');
        }
        let mut payload = index.clone().into_bytes();
        payload.extend_from_slice(&body);
        let d = vec![("Type", tname("ObjStm")), ("N", tint(k as i64)), ("First", tint(index.len() as i64))];
        out.put(&seed_rec("objstm", &payload, pairs(d.clone()), toks(OBJ_TOKS), "objstm"));
        if i % 2 == 0 {
            let mut d2 = d;
            d2.push(("Filter", tname("FlateDecode")));
            out.put(&seed_rec("objstm", &zlib(&payload), pairs(d2), toks(BIN_TOKS), "objstm.flate"));
        }
    }
    // cross-reference streams
    for i in 0..n {
        let w: [usize; 3] = *rng.pick(&[[1, 2, 1], [1, 4, 2], [1, 3, 0], [0, 2, 2], [2, 8, 2], [1, 1, 1], [0, 2, 0], [0, 1, 0]]);
        let count = 2 + rng.below(5);
        let start = if i % 2 == 0 { 0 } else { 3 };
        let mut rows = vec![];
        for r in 0..count {
            let t = if r == 0 && start == 0 { 0u64 } else { *rng.pick(&[1u64, 1, 2]) };
            let f2 = 9 + 40 * r as u64;
            let f3 = if t == 0 { 65535u64 } else { 0 };
            for (width, val) in [(w[0], t), (w[1], f2), (w[2], f3)] {
                for b in (0..width).rev() {
                    rows.push(if b >= 8 { 0 } else { ((val >> (8 * b)) & 0xFF) as u8 });
                }
            }
        }
        let mut d = vec![("Type", tname("XRef")), ("Size", tint((start + count) as i64)),
                         ("W", tarr(w.iter().map(|x| tint(*x as i64)).collect())), ("Root", json!({"k": "ref", "v": 1, "w": 0}))];
        if start != 0 || i % 3 == 0 {
            d.push(("Index", tarr(vec![tint(start as i64), tint(count as i64)])));
        }
        out.put(&seed_rec("xrefstm", &rows, pairs(d.clone()), toks(BIN_TOKS), "xrefstm"));
        if i % 2 == 1 {
            let rowlen = w[0] + w[1] + w[2];
            let png = png_encode(&rows, 1, rowlen, &mut rng);
            d.push(("Filter", tname("FlateDecode")));
            d.push(("DecodeParms", tdict(vec![("Predictor", tint(12)), ("Columns", tint(rowlen as i64))])));
            out.put(&seed_rec("xrefstm", &zlib(&png), pairs(d), toks(BIN_TOKS), "xrefstm.flate+png"));
        }
    }
    // amplification: legal inputs built so that a small input stands for a lot of work or memory (tags "amp:...")
    {
        let zeros = vec![0u8; 96 << 20];
        let z2 = zlib(&zlib(&zeros));
        out.put(&seed_rec("filter", &z2, pairs(vec![("Filter", tarr(vec![tname("FlateDecode"), tname("FlateDecode")]))]), toks(BIN_TOKS), "amp:flate2"));
        // run-length: 0x81 0x00 = 128 zero bytes, 0x80 = end of data
        let mut rl = Vec::with_capacity((zeros.len() / 128) * 2 + 1);
        for _ in 0..zeros.len() / 128 {
            rl.extend_from_slice(&[0x81, 0x00]);
        }
        rl.push(0x80);
        let z2rl = zlib(&zlib(&rl));
        out.put(&seed_rec("filter", &z2rl, pairs(vec![("Filter", tarr(vec![tname("FlateDecode"), tname("FlateDecode"), tname("RunLengthDecode")]))]),
            toks(BIN_TOKS), "amp:flate2rl"));
        // an object stream whose payload is blanks behind one small object, filtered twice
        let mut os = b"7 0 3".to_vec();
        os.resize(96 << 20, b' ');
        let osz = zlib(&zlib(&os));
        let d = vec![("Type", tname("ObjStm")), ("N", tint(1)), ("First", tint(4)), ("Filter", tarr(vec![tname("FlateDecode"), tname("FlateDecode")]))];
        out.put(&seed_rec("objstm", &osz, pairs(d), toks(BIN_TOKS), "amp:objstm-flate2"));
        // the same inside a file: object stream 3 holds object 7
        let mut f: Vec<u8> = b"%PDF-1.5\n1 0 obj\n<</Type/Catalog>>\nendobj\n".to_vec();
        let o3 = f.len();
        f.extend_from_slice(format!("3 0 obj\n<</Type/ObjStm/N 1/First 4/Filter[/FlateDecode/FlateDecode]/Length {}>>stream\n", osz.len()).as_bytes());
        f.extend_from_slice(&osz);
        f.extend_from_slice(b"\nendstream\nendobj\n");
        let x = f.len();
        f.extend_from_slice(format!("xref\n0 4\n0000000000 65535 f \n0000000009 00000 n \n0000000000 65535 f \n{o3:010} 00000 n \ntrailer\n<</Size 8/Root 1 0 R>>\nstartxref\n{x}\n%%EOF\n").as_bytes());
        out.put(&seed_rec("file", &f, none.clone(), toks(PDF_TOKS), "amp:file-objstm-flate2"));
        // object-stream index pairs that all name one offset, where one large array stands
        let npairs = 1500usize;
        let mut idx = String::new();
        for _ in 0..npairs {
            idx.push_str("00007 000000 ");
        }
        let mut body = idx.clone().into_bytes();
        body.push(b'[');
        for _ in 0..7500 {
            body.extend_from_slice(b"0 ");
        }
        body.push(b']');
        let d = vec![("Type", tname("ObjStm")), ("N", tint(npairs as i64)), ("First", tint(idx.len() as i64)), ("Filter", tname("FlateDecode"))];
        out.put(&seed_rec("objstm", &zlib(&body), pairs(d), toks(BIN_TOKS), "amp:objstm-repeat"));
        // cross-reference stream rows that all carry the offset of one large array
        let mut f: Vec<u8> = b"%PDF-1.5\n1 0 obj\n<</Type/Catalog>>\nendobj\n".to_vec();
        let o2 = f.len();
        f.extend_from_slice(b"2 0 obj[");
        for _ in 0..7500 {
            f.extend_from_slice(b"0 ");
        }
        f.extend_from_slice(b"]endobj\n");
        let x = f.len();
        let nrows = 3000usize;
        let mut rows: Vec<u8> = vec![0, 0, 0, 0];
        rows.extend_from_slice(&[1, 0, 0, 9]);
        for _ in 2..nrows {
            rows.extend_from_slice(&[1, (o2 >> 16) as u8, (o2 >> 8) as u8, o2 as u8]);
        }
        rows.extend_from_slice(&[1, (x >> 16) as u8, (x >> 8) as u8, x as u8]);
        let rz = zlib(&rows);
        f.extend_from_slice(format!("{} 0 obj\n<</Type/XRef/Size {}/W[1 3 0]/Root 1 0 R/Filter/FlateDecode/Length {}>>stream\n", nrows, nrows + 1, rz.len()).as_bytes());
        f.extend_from_slice(&rz);
        f.extend_from_slice(format!("\nendstream\nendobj\nstartxref\n{x}\n%%EOF\n").as_bytes());
        out.put(&seed_rec("file", &f, none.clone(), toks(PDF_TOKS), "amp:file-xref-shared-offset"));
    }
    // text strings
    let texts: Vec<Vec<u8>> = vec![
        b"plain ASCII text".to_vec(), b"\xFE\xFF\x00H\x00i\xD8\x3D\xDE\x00".to_vec(), b"\xEF\xBB\xBFutf8 \xC3\xA9\xE2\x82\xAC".to_vec(),
        (0u8..=255).collect(), b"\xFE\xFF".to_vec(), b"\xFF\xFE\x48\x00".to_vec(), vec![],
    ];
    for t in texts {
        out.put(&seed_rec("textstr", &t, none.clone(), toks(&["\u{fe}\u{ff}", "\u{0}", "A"]), "textstr"));
    }
    out.finish();
}

// ------------------------------------------------------------------ bulk byte-level mutants of real files
fn bulk(args: &[String]) {
    let seed = arg_u64(args, "--seed", 1);
    let n = arg_u64(args, "--n", 500);
    let first_id = arg_u64(args, "--first-id", 1_000_000);
    let mut rng = Rng::new(seed ^ 0xB04C);
    let files = real_files(&mut rng, 24);
    let mut out = NdjsonOut::create(&arg(args, "--out").unwrap());
    let numbers: &[&str] = &["-1", "0", "2147483647", "4294967296", "9223372036854775807", "1000000000000000000", "18446744073709551615", "1"];
    for i in 0..n {
        let (tag, base) = rng.pick(&files).clone();
        let mut b = base.clone();
        let mut muts: Vec<Value> = vec![];
        for _ in 0..1 + rng.below(3) {
            if b.is_empty() {
                break;
            }
            match rng.below(10) {
                0..=3 => {
                    let p = rng.below(b.len());
                    let nb = match rng.below(5) {
                        0 => b[p] ^ (1 << rng.below(8)),
                        1 => 0,
                        2 => 255,
                        3 => *rng.pick(b"()<>[]/%0 9\r\n"),
                        _ => rng.byte(),
                    };
                    b[p] = nb;
                    muts.push(json!({"k": "FlipByte", "site": "", "v": ""}));
                }
                4 => {
                    let p = rng.below(b.len());
                    b.truncate(p);
                    muts.push(json!({"k": "Truncate", "site": "", "v": ""}));
                }
                5..=6 => {
                    let p = rng.below(b.len() + 1);
                    let t = rng.pick(PDF_TOKS).as_bytes().to_vec();
                    b.splice(p..p, t);
                    muts.push(json!({"k": "SpliceToken", "site": "", "v": ""}));
                }
                _ => {
                    // a maximal digit run is replaced by an extreme number
                    let p = rng.below(b.len());
                    if let Some(s) = (p..b.len()).find(|&q| b[q].is_ascii_digit()) {
                        let mut s0 = s;
                        while s0 > 0 && b[s0 - 1].is_ascii_digit() {
                            s0 -= 1;
                        }
                        let mut e = s;
                        while e < b.len() && b[e].is_ascii_digit() {
                            e += 1;
                        }
                        let v = *rng.pick(numbers);
                        b.splice(s0..e, v.bytes());
                        muts.push(json!({"k": "SetNumber", "site": "scan", "v": v}));
                    }
                }
            }
        }
        let mc: Vec<String> = muts.iter().map(|m| m["k"].as_str().unwrap().to_string()).collect();
        // limits as in checks/c04.py `limits`
        let n = b.len() as u64;
        let tmo = ((3000 + n / 50 + 999) / 1000) * 1000;
        out.put(&json!({"id": first_id + i, "ep": if i % 5 == 4 { "incload" } else { "load" }, "hex": hex_of(&b), "dict": [], "src": format!("bulk:{tag}"),
                        "muts": muts, "mclass": mc, "len": b.len(), "tmo_ms": tmo,
                        "use": ["streams.decompress", "pages.content", "pages.decode", "fonts.decode", "extract_text"], "req_limit": (64u64 << 20) + (4096 * n.min(300000)).min(1 << 30) + 32 * n.min(20000000),
                        "live_limit": (64u64 << 20) + (4096 * n.min(300000)).min(1 << 30) + 32 * n.min(20000000)}));
    }
    out.finish();
}

fn main() {
    let args: Vec<String> = std::env::args().collect();
    match args.get(1).map(String::as_str) {
        Some("seeds") => seeds(&args),
        Some("bulk") => bulk(&args),
        Some("run") => run(&args),
        Some("worker") => worker(),
        _ => {
            eprintln!("usage: c04 seeds --seed S --n N --out F | bulk --seed S --n N --out F | run --in F --out F [--jobs J] | worker");
            std::process::exit(2)
        }
    }
}
