//! C06 — the standard security handler agrees with ISO 32000 Algorithms 1, 1.A, 2, 2.A, 2.B, 3-13.
//!
//! The reference implementation in this file is an INTERPRETER of the term language of
//! spec/SecurityAlgorithms.tla: TLC (MC_SecurityAlgorithms) emits, per configuration, the term of every
//! observable (O, U, OE, UE, Perms, file key, object key, ciphertext, and the reader's authentication /
//! key recovery / decryption terms) as JSON; this program evaluates them with its OWN RC4, CBC / ECB
//! chaining, PKCS#5 padding and loop control.  Only the MD5 / SHA-2 compression and the single-block AES
//! encrypt / decrypt come from crates (md-5, sha2, aes).  Known-answer tests (RFC 6229, FIPS 197,
//! SP 800-38A, FIPS 180, RFC 1321) run at start-up: exit 2 if a primitive is wrong.
//!
//! `record --terms T --seed S --n N --out O`   direction V (lopdf -> reference): lopdf encrypts seeded
//!     documents; every observable is recomputed from the terms (random salts / IVs read from lopdf's
//!     output and substituted as inputs), then an independent reader (dictionary + password only) opens
//!     the document and decrypts every string and stream.
//! `gen --terms T --seed S --n N --out O`      direction G (reference -> lopdf): the interpreter builds
//!     the Encrypt dictionary and encrypts a seeded document per the ISO rule, lopdf's writer lays the
//!     file out, then `load_mem` + `decrypt(pw)` for every password TLC listed for the configuration.
//! `selftest`                                  known-answer tests only.
//!
//! Output: one JSON record per comparison (see Trace_SecurityAlgorithms.tla, which judges them).
use aes::cipher::{generic_array::GenericArray, BlockDecrypt, BlockEncrypt, KeyInit};
use lopdf::encryption::crypt_filters::{Aes128CryptFilter, Aes256CryptFilter, CryptFilter, Rc4CryptFilter};
use lopdf::{Dictionary, Document, EncryptionState, EncryptionVersion, Object, ObjectId, Permissions, Stream, StringFormat};
use lopdf_conform::{guard::guarded, io::*, rng::Rng};
use md5::Digest as _;
use serde_json::{json, Value};
use std::collections::{BTreeMap, BTreeSet, HashMap};
use std::sync::Arc;

// ====================================================================== primitives (own code)

/// RC4 as published (key scheduling, then the pseudo-random generation algorithm).
fn rc4(key: &[u8], data: &[u8]) -> Result<Vec<u8>, String> {
    if key.is_empty() || key.len() > 256 {
        return Err("rc4: key length".into());
    }
    let mut s = [0u8; 256];
    for (i, v) in s.iter_mut().enumerate() {
        *v = i as u8;
    }
    let mut j = 0usize;
    for i in 0..256 {
        j = (j + s[i] as usize + key[i % key.len()] as usize) & 255;
        s.swap(i, j);
    }
    let (mut i, mut j) = (0usize, 0usize);
    let mut out = Vec::with_capacity(data.len());
    for &b in data {
        i = (i + 1) & 255;
        j = (j + s[i] as usize) & 255;
        s.swap(i, j);
        out.push(b ^ s[(s[i] as usize + s[j] as usize) & 255]);
    }
    Ok(out)
}

enum AesKey {
    K128(aes::Aes128),
    K256(aes::Aes256),
}

impl AesKey {
    fn new(k: &[u8]) -> Result<AesKey, String> {
        match k.len() {
            16 => Ok(AesKey::K128(aes::Aes128::new(GenericArray::from_slice(k)))),
            32 => Ok(AesKey::K256(aes::Aes256::new(GenericArray::from_slice(k)))),
            n => Err(format!("aes: key of {n} bytes")),
        }
    }
    fn enc(&self, b: &mut [u8; 16]) {
        let ga = GenericArray::from_mut_slice(b);
        match self {
            AesKey::K128(c) => c.encrypt_block(ga),
            AesKey::K256(c) => c.encrypt_block(ga),
        }
    }
    fn dec(&self, b: &mut [u8; 16]) {
        let ga = GenericArray::from_mut_slice(b);
        match self {
            AesKey::K128(c) => c.decrypt_block(ga),
            AesKey::K256(c) => c.decrypt_block(ga),
        }
    }
}

fn blocks(x: &[u8]) -> Result<(), String> {
    if x.len() % 16 != 0 {
        Err(format!("aes: {} bytes is not a whole number of blocks", x.len()))
    } else {
        Ok(())
    }
}

fn cbc_enc(key: &[u8], iv: &[u8], x: &[u8]) -> Result<Vec<u8>, String> {
    let k = AesKey::new(key)?;
    blocks(x)?;
    if iv.len() != 16 {
        return Err("cbc: iv length".into());
    }
    let mut prev = [0u8; 16];
    prev.copy_from_slice(iv);
    let mut out = Vec::with_capacity(x.len());
    for c in x.chunks(16) {
        let mut b = [0u8; 16];
        for i in 0..16 {
            b[i] = c[i] ^ prev[i];
        }
        k.enc(&mut b);
        out.extend_from_slice(&b);
        prev = b;
    }
    Ok(out)
}

fn cbc_dec(key: &[u8], iv: &[u8], x: &[u8]) -> Result<Vec<u8>, String> {
    let k = AesKey::new(key)?;
    blocks(x)?;
    if iv.len() != 16 {
        return Err("cbc: iv length".into());
    }
    let mut prev = [0u8; 16];
    prev.copy_from_slice(iv);
    let mut out = Vec::with_capacity(x.len());
    for c in x.chunks(16) {
        let mut b = [0u8; 16];
        b.copy_from_slice(c);
        k.dec(&mut b);
        for i in 0..16 {
            b[i] ^= prev[i];
        }
        out.extend_from_slice(&b);
        prev.copy_from_slice(c);
    }
    Ok(out)
}

fn ecb(key: &[u8], x: &[u8], enc: bool) -> Result<Vec<u8>, String> {
    let k = AesKey::new(key)?;
    blocks(x)?;
    let mut out = Vec::with_capacity(x.len());
    for c in x.chunks(16) {
        let mut b = [0u8; 16];
        b.copy_from_slice(c);
        if enc {
            k.enc(&mut b)
        } else {
            k.dec(&mut b)
        }
        out.extend_from_slice(&b);
    }
    Ok(out)
}

/// RFC 2898: pad with 16 - (M mod 16) bytes of that value.
fn pkcs5(x: &[u8]) -> Vec<u8> {
    let n = 16 - x.len() % 16;
    let mut v = x.to_vec();
    v.extend(std::iter::repeat(n as u8).take(n));
    v
}

fn unpkcs5(x: &[u8]) -> Result<Vec<u8>, String> {
    if x.is_empty() || x.len() % 16 != 0 {
        return Err("unpkcs5: length".into());
    }
    let n = *x.last().unwrap() as usize;
    if n == 0 || n > 16 || x[x.len() - n..].iter().any(|&b| b as usize != n) {
        return Err("unpkcs5: bad padding".into());
    }
    Ok(x[..x.len() - n].to_vec())
}

fn hx(s: &str) -> Vec<u8> {
    let s: Vec<u8> = s.bytes().filter(|b| !b.is_ascii_whitespace()).collect();
    s.chunks(2).map(|p| u8::from_str_radix(std::str::from_utf8(p).unwrap(), 16).unwrap()).collect()
}

fn hexs(b: &[u8]) -> String {
    b.iter().map(|x| format!("{x:02x}")).collect()
}

/// Known-answer tests of the interpreter's primitives.
fn kats() -> Result<(), String> {
    let chk = |name: &str, got: Vec<u8>, want: &str| {
        if got == hx(want) {
            Ok(())
        } else {
            Err(format!("KAT {name}: got {} want {}", hexs(&got), want))
        }
    };
    // RFC 6229 (keystream = RC4 of zeros)
    let z32 = [0u8; 32];
    chk("rc4-40", rc4(&hx("0102030405"), &z32)?, "b2396305f03dc027ccc3524a0a1118a86982944f18fc82d589c403a47a0d0919")?;
    chk(
        "rc4-128",
        rc4(&hx("0102030405060708090a0b0c0d0e0f10"), &z32)?,
        "9ac7cc9a609d1ef7b2932899cde41b975248c4959014126a6e8a84f11d1a9e1c",
    )?;
    chk("rc4-wiki", rc4(b"Key", b"Plaintext")?, "bbf316e8d940af0ad3")?;
    // FIPS 197 appendix C.1 / C.3
    let pt = hx("00112233445566778899aabbccddeeff");
    chk("aes128", ecb(&hx("000102030405060708090a0b0c0d0e0f"), &pt, true)?, "69c4e0d86a7b0430d8cdb78070b4c55a")?;
    chk(
        "aes256",
        ecb(&hx("000102030405060708090a0b0c0d0e0f101112131415161718191a1b1c1d1e1f"), &pt, true)?,
        "8ea2b7ca516745bfeafc49904b496089",
    )?;
    chk("aes128-dec", ecb(&hx("000102030405060708090a0b0c0d0e0f"), &hx("69c4e0d86a7b0430d8cdb78070b4c55a"), false)?,
        "00112233445566778899aabbccddeeff")?;
    chk(
        "aes256-dec",
        ecb(&hx("000102030405060708090a0b0c0d0e0f101112131415161718191a1b1c1d1e1f"), &hx("8ea2b7ca516745bfeafc49904b496089"), false)?,
        "00112233445566778899aabbccddeeff",
    )?;
    // SP 800-38A F.2.1 / F.2.2 (CBC-AES128), first two blocks: checks the chaining
    let k = hx("2b7e151628aed2a6abf7158809cf4f3c");
    let iv = hx("000102030405060708090a0b0c0d0e0f");
    let p2 = hx("6bc1bee22e409f96e93d7e117393172aae2d8a571e03ac9c9eb76fac45af8e51");
    let c2 = "7649abac8119b246cee98e9b12e9197d5086cb9b507219ee95db113a917678b2";
    chk("cbc128-enc", cbc_enc(&k, &iv, &p2)?, c2)?;
    chk("cbc128-dec", cbc_dec(&k, &iv, &hx(c2))?, "6bc1bee22e409f96e93d7e117393172aae2d8a571e03ac9c9eb76fac45af8e51")?;
    // SP 800-38A F.2.5 (CBC-AES256), first block
    let k = hx("603deb1015ca71be2b73aef0857d77811f352c073b6108d72d9810a30914dff4");
    chk("cbc256-enc", cbc_enc(&k, &iv, &p2[..16])?, "f58c4c04d6e5f1ba779eabfb5f7bfbd6")?;
    // FIPS 180 examples, RFC 1321
    chk("sha256", sha2::Sha256::digest(b"abc").to_vec(), "ba7816bf8f01cfea414140de5dae2223b00361a396177a9cb410ff61f20015ad")?;
    chk(
        "sha384",
        sha2::Sha384::digest(b"abc").to_vec(),
        "cb00753f45a35e8bb5a03d699ac65007272c32ab0eded1631a8b605a43ff5bed8086072ba1e7cc2358baeca134c825a7",
    )?;
    chk(
        "sha512",
        sha2::Sha512::digest(b"abc").to_vec(),
        "ddaf35a193617abacc417349ae20413112e6fa4e89a97ea20a9eeee64b55d39a2192992a274fc1a836ba3c23a3feebbd454d4423643ce80e2a9ac94fa54ca49f",
    )?;
    chk("md5-abc", md5::Md5::digest(b"abc").to_vec(), "900150983cd24fb0d6963f7d28e17f72")?;
    chk("md5-empty", md5::Md5::digest(b"").to_vec(), "d41d8cd98f00b204e9800998ecf8427e")?;
    // padding
    if pkcs5(b"").len() != 16 || pkcs5(&[7u8; 16]).len() != 32 || pkcs5(&[7u8; 15]) != [&[7u8; 15][..], &[1u8][..]].concat() {
        return Err("KAT pkcs5".into());
    }
    if unpkcs5(&pkcs5(&[9u8; 21]))? != vec![9u8; 21] || unpkcs5(&[0u8; 16]).is_ok() || unpkcs5(&[17u8; 16]).is_ok() {
        return Err("KAT unpkcs5".into());
    }
    Ok(())
}

// ====================================================================== the term interpreter

#[derive(Clone, Debug, PartialEq)]
enum Val {
    B(Vec<u8>),
    I(i64),
}

type Env = HashMap<String, Val>;

struct Terms {
    defs: HashMap<String, Value>,
}

fn bytes_of(v: Val) -> Result<Vec<u8>, String> {
    match v {
        Val::B(b) => Ok(b),
        Val::I(_) => Err("expected bytes, got an integer".into()),
    }
}
fn int_of(v: Val) -> Result<i64, String> {
    match v {
        Val::I(i) => Ok(i),
        Val::B(_) => Err("expected an integer, got bytes".into()),
    }
}

impl Terms {
    fn from_line(l: &Value) -> Terms {
        let mut defs = HashMap::new();
        for d in l["defs"].as_array().expect("defs") {
            defs.insert(d["n"].as_str().unwrap().to_string(), d["t"].clone());
        }
        Terms { defs }
    }

    /// value of the named term (cached in env: a name already bound in env is an input)
    fn get(&self, name: &str, env: &mut Env) -> Result<Val, String> {
        if let Some(v) = env.get(name) {
            return Ok(v.clone());
        }
        let t = self.defs.get(name).ok_or_else(|| format!("no term named {name}"))?;
        let mut vars = HashMap::new();
        let v = self.ev(t, env, &mut vars, 0)?;
        env.insert(name.to_string(), v.clone());
        Ok(v)
    }
    fn bytes(&self, name: &str, env: &mut Env) -> Result<Vec<u8>, String> {
        bytes_of(self.get(name, env)?)
    }
    fn truth(&self, name: &str, env: &mut Env) -> Result<bool, String> {
        Ok(int_of(self.get(name, env)?)? != 0)
    }

    fn ev(&self, t: &Value, env: &mut Env, vars: &mut HashMap<String, Val>, round: i64) -> Result<Val, String> {
        let op = t["op"].as_str().ok_or("term without op")?;
        let s = t["s"].as_str().unwrap_or("");
        let n = |i: usize| -> Result<i64, String> { t["n"][i].as_i64().ok_or_else(|| format!("{op}: missing n[{i}]")) };
        let nargs = t["a"].as_array().map(|a| a.len()).unwrap_or(0);
        macro_rules! b {
            ($i:expr) => {
                bytes_of(self.ev(&t["a"][$i], env, vars, round)?)?
            };
        }
        macro_rules! i {
            ($i:expr) => {
                int_of(self.ev(&t["a"][$i], env, vars, round)?)?
            };
        }
        Ok(match op {
            "in" => match env.get(s) {
                Some(Val::B(b)) => Val::B(b.clone()),
                _ => return Err(format!("missing byte input {s}")),
            },
            "num" => match env.get(s) {
                Some(Val::I(i)) => Val::I(*i),
                _ => return Err(format!("missing integer input {s}")),
            },
            "ref" => self.get(s, env)?,
            "var" => vars.get(s).cloned().ok_or_else(|| format!("unbound loop variable {s}"))?,
            "lit" => Val::B(t["n"].as_array().ok_or("lit")?.iter().map(|x| x.as_u64().unwrap() as u8).collect()),
            "cat" => {
                let mut out = vec![];
                for k in 0..nargs {
                    out.extend(b!(k));
                }
                Val::B(out)
            }
            "slice" => {
                let x = b!(0);
                let (off, len) = (n(0)? as usize, n(1)? as usize);
                if off + len > x.len() {
                    return Err(format!("slice [{off},{}) of {} bytes", off + len, x.len()));
                }
                Val::B(x[off..off + len].to_vec())
            }
            "drop" => {
                let x = b!(0);
                let off = n(0)? as usize;
                if off > x.len() {
                    return Err(format!("drop {off} of {} bytes", x.len()));
                }
                Val::B(x[off..].to_vec())
            }
            "atmost" => {
                let x = b!(0);
                let k = (n(0)? as usize).min(x.len());
                Val::B(x[..k].to_vec())
            }
            "le" => {
                let x = i!(0);
                Val::B((0..n(0)?).map(|k| ((x >> (8 * k)) & 0xff) as u8).collect())
            }
            "xorb" => {
                let c = n(0)? as u8;
                Val::B(b!(0).into_iter().map(|x| x ^ c).collect())
            }
            "rep" => {
                let x = b!(0);
                let mut out = Vec::with_capacity(x.len() * n(0)? as usize);
                for _ in 0..n(0)? {
                    out.extend_from_slice(&x);
                }
                Val::B(out)
            }
            "md5" => Val::B(md5::Md5::digest(b!(0)).to_vec()),
            "sha256" => Val::B(sha2::Sha256::digest(b!(0)).to_vec()),
            "sha384" => Val::B(sha2::Sha384::digest(b!(0)).to_vec()),
            "sha512" => Val::B(sha2::Sha512::digest(b!(0)).to_vec()),
            "rc4" => {
                let k = b!(0);
                Val::B(rc4(&k, &b!(1))?)
            }
            "cbcenc" => {
                let (k, iv) = (b!(0), b!(1));
                Val::B(cbc_enc(&k, &iv, &b!(2))?)
            }
            "cbcdec" => {
                let (k, iv) = (b!(0), b!(1));
                Val::B(cbc_dec(&k, &iv, &b!(2))?)
            }
            "ecbenc" => {
                let k = b!(0);
                Val::B(ecb(&k, &b!(1), true)?)
            }
            "ecbdec" => {
                let k = b!(0);
                Val::B(ecb(&k, &b!(1), false)?)
            }
            "pkcs5" => Val::B(pkcs5(&b!(0))),
            "unpkcs5" => Val::B(unpkcs5(&b!(0))?),
            "int" => Val::I(n(0)?),
            "round" => Val::I(round),
            "mod3" => {
                // the bytes as an unsigned big-endian integer, modulo 3
                let mut r = 0u32;
                for x in b!(0) {
                    r = (r * 256 + x as u32) % 3;
                }
                Val::I(r as i64)
            }
            "lastbyte" => Val::I(*b!(0).last().ok_or("lastbyte of empty string")? as i64),
            "sel" => {
                let k = i!(0) as usize;
                if k + 1 >= nargs {
                    return Err("sel: index".into());
                }
                self.ev(&t["a"][k + 1], env, vars, round)?
            }
            "geq" => Val::I((i!(0) >= i!(1)) as i64),
            "leq" => Val::I((i!(0) <= i!(1)) as i64),
            "sub" => Val::I(i!(0) - i!(1)),
            "and" => Val::I((i!(0) != 0 && i!(1) != 0) as i64),
            "eq" => {
                let x = self.ev(&t["a"][0], env, vars, round)?;
                let y = self.ev(&t["a"][1], env, vars, round)?;
                Val::I((x == y) as i64)
            }
            "all" => {
                let mut ok = true;
                for k in 0..nargs {
                    ok &= i!(k) != 0;
                }
                Val::I(ok as i64)
            }
            "dowhile" => {
                // env := init; round := 0; repeat (step; round += 1) until cond; result
                let mut lv: HashMap<String, Val> = vars.clone();
                for bnd in t["a"][0]["a"].as_array().ok_or("dowhile init")? {
                    let v = self.ev(&bnd["a"][0], env, &mut lv, 0)?;
                    lv.insert(bnd["s"].as_str().unwrap().to_string(), v);
                }
                let mut r = 0i64;
                loop {
                    for bnd in t["a"][1]["a"].as_array().ok_or("dowhile step")? {
                        let v = self.ev(&bnd["a"][0], env, &mut lv, r)?;
                        lv.insert(bnd["s"].as_str().unwrap().to_string(), v);
                    }
                    r += 1;
                    if int_of(self.ev(&t["a"][2], env, &mut lv, r)?)? != 0 {
                        break;
                    }
                    if r > 100_000 {
                        return Err("dowhile: no termination".into());
                    }
                }
                self.ev(&t["a"][3], env, &mut lv, r)?
            }
            other => return Err(format!("term operator {other} cannot be evaluated")),
        })
    }
}

// ====================================================================== configurations, passwords

#[derive(Clone, Debug)]
struct Cfg {
    r: i64,
    v: i64,
    bits: i64,
    meta: bool,
    stmf: String,
    strf: String,
    absent: bool,
}

impl Cfg {
    fn from(l: &Value) -> Cfg {
        let c = &l["cfg"];
        Cfg {
            r: c["R"].as_i64().unwrap(),
            v: c["V"].as_i64().unwrap(),
            bits: c["bits"].as_i64().unwrap(),
            meta: c["meta"].as_bool().unwrap(),
            stmf: c["stmf"].as_str().unwrap().to_string(),
            strf: c["strf"].as_str().unwrap().to_string(),
            absent: l["absent"].as_bool().unwrap(),
        }
    }
    fn key(&self) -> String {
        format!("{}/{}/{}/{}/{}/{}/{}", self.r, self.v, self.bits, self.meta, self.stmf, self.strf, self.absent)
    }
    fn json(&self) -> Value {
        json!({"R": self.r, "V": self.v, "bits": self.bits, "meta": self.meta, "stmf": self.stmf, "strf": self.strf})
    }
}

/// ASCII run of a password segment: the key itself, then digits; distinct first letters per key
fn ascii_run(key: &str, len: usize) -> Vec<u8> {
    let kb = key.as_bytes();
    (0..len).map(|i| if i < kb.len() { kb[i] } else { b'0' + ((i * 7 + kb[0] as usize) % 10) as u8 }).collect()
}

/// the k-byte character at the 127-byte cut and its sibling with the same first k-1 bytes
/// (U+00E9 / U+00E3, U+20AC / U+20A9, U+20000 / U+2000B: all mapped to themselves by SASLprep)
fn cut_char(k: usize, sibling: bool) -> Vec<u8> {
    let c = match (k, sibling) {
        (2, false) => '\u{e9}',
        (2, true) => '\u{e3}',
        (3, false) => '\u{20ac}',
        (3, true) => '\u{20a9}',
        (4, false) => '\u{20000}',
        (4, true) => '\u{2000b}',
        _ => panic!("cut character of {k} bytes"),
    };
    let b = c.to_string().into_bytes();
    assert_eq!(b.len(), k);
    b
}

/// PDFDocEncoding (ISO 32000-1 Annex D.2) on the characters used here: ASCII and U+00A1..U+00FF (except U+00AD) have
/// their Latin-1 code; 0x80 bullet, 0x81 dagger, 0xA0 Euro sign.
fn pdfdoc_char(code: u8) -> char {
    match code {
        0x80 => '\u{2022}',
        0x81 => '\u{2020}',
        0xA0 => '\u{20ac}',
        c if c < 0x80 || (c >= 0xA1 && c != 0xAD) => c as char,
        c => panic!("PDFDocEncoding code {c:#x} outside the supported domain"),
    }
}
fn pdfdoc_code(c: char) -> u8 {
    match c {
        '\u{2022}' => 0x80,
        '\u{2020}' => 0x81,
        '\u{20ac}' => 0xA0,
        c if (c as u32) < 0x80 || ((0xA1..=0xFF).contains(&(c as u32)) && c as u32 != 0xAD) => c as u32 as u8,
        c => panic!("password character {c:?} outside the supported domain"),
    }
}

/// The bytes of one password segment (segments are BYTE ranges of the prepared password: a multi-byte
/// character may be split between two segments, see MC_SecurityAlgorithms.tla):
///   "lat"  Latin-1 letters;  Hkj  ASCII + first j bytes of the k-byte character;  Tkj  its other k-j bytes + ASCII;
///   Ukj  the other k-j bytes of the sibling character + ASCII;  Ckj  the ASCII part of Hkj;
///   Fk  ASCII + the whole k-byte character;  Gk  the ASCII part of Fk;  anything else: ASCII.
fn seg_bytes(id: &str, len: usize) -> Vec<u8> {
    if id == "lat" {
        return "a\u{e9}\u{fc}".as_bytes().to_vec();
    }
    let b = id.as_bytes();
    // c<code>_<code>..: the text whose PDFDocEncoding is these codes (revisions 2-4, SecurityAlgorithms!PrepR234)
    if b.len() >= 2 && b[0] == b'c' && b[1].is_ascii_digit() {
        let text: String = id[1..].split('_').map(|c| pdfdoc_char(c.parse::<u8>().expect("code in segment id"))).collect();
        return text.into_bytes();
    }
    let dig = |x: u8| (x as char).to_digit(10).map(|d| d as usize);
    if b.len() == 3 && b"HTUC".contains(&b[0]) {
        if let (Some(k), Some(j)) = (dig(b[1]), dig(b[2])) {
            let hkey = format!("H{k}{j}");
            return match b[0] {
                b'H' => [ascii_run(&hkey, len - j), cut_char(k, false)[..j].to_vec()].concat(),
                b'C' => ascii_run(&hkey, len),
                b'T' => [cut_char(k, false)[j..].to_vec(), ascii_run(id, len - (k - j))].concat(),
                _ => [cut_char(k, true)[j..].to_vec(), ascii_run(id, len - (k - j))].concat(),
            };
        }
    }
    if b.len() == 2 && b"FG".contains(&b[0]) {
        if let Some(k) = dig(b[1]) {
            let fkey = format!("F{k}");
            return if b[0] == b'F' { [ascii_run(&fkey, len - k), cut_char(k, false)].concat() } else { ascii_run(&fkey, len) };
        }
    }
    ascii_run(id, len)
}

fn pw_string(segs: &Value) -> String {
    let bytes: Vec<u8> = segs
        .as_array()
        .map(|a| a.iter().flat_map(|s| seg_bytes(s["id"].as_str().unwrap(), s["len"].as_u64().unwrap() as usize)).collect())
        .unwrap_or_default();
    String::from_utf8(bytes).expect("password segments do not concatenate to UTF-8")
}

/// Password preparation of the reference, restricted to the classes used here: ASCII is the identity in
/// PDFDocEncoding and under SASLprep; U+00A1..U+00FF (except U+00AD) have their Latin-1 code in
/// PDFDocEncoding (ISO 32000-1 Annex D.2) and are unchanged by SASLprep (NFKC of precomposed letters); for
/// revisions 5-6 also U+20AC, U+20A9, U+20000, U+2000B (assigned in Unicode 3.2, no NFKC mapping, not prohibited:
/// stringprep 0.1.5 returns them unchanged - probed).
fn prep(r: i64, s: &str) -> Vec<u8> {
    if r <= 4 {
        s.chars().map(pdfdoc_code).collect()
    } else {
        for c in s.chars() {
            let u = c as u32;
            assert!(
                (0x20..0x7F).contains(&u) || (0xC0..=0xFF).contains(&u) && u != 0xD7 && u != 0xF7 || [0x20AC, 0x20A9, 0x20000, 0x2000B].contains(&u),
                "password class outside the supported domain"
            );
        }
        s.as_bytes().to_vec()
    }
}

/// P as the signed 32-bit integer with bits 1-2 and the listed permission bits (1-based) cleared
fn p_value(off: &[u32]) -> i64 {
    let mut p: u32 = 0xFFFF_FFFC;
    for b in off {
        p &= !(1u32 << (b - 1));
    }
    p as i32 as i64
}

fn pick_off(rng: &mut Rng, r: i64) -> Vec<u32> {
    let cand: &[u32] = if r == 2 { &[3, 4, 5, 6] } else if r >= 5 { &[3, 4, 5, 6, 9, 11, 12] } else { &[3, 4, 5, 6, 9, 10, 11, 12] };
    if rng.chance(1, 4) {
        return vec![];
    }
    cand.iter().copied().filter(|_| rng.chance(1, 2)).collect()
}

// ====================================================================== documents and their items

const LENS: &[usize] = &[0, 1, 2, 15, 16, 17, 31, 32, 33, 47, 48, 63, 64, 65, 100, 255, 256];

fn data(rng: &mut Rng, ascii: bool) -> Vec<u8> {
    let len = match rng.below(10) {
        0..=5 => *rng.pick(LENS),
        6..=8 => rng.below(300),
        _ => 1000 + rng.below(4000),
    };
    (0..len).map(|_| if ascii { *rng.pick(b"abcdefghijklmnopqrstuvwxyz ABCXYZ0123456789.,:;-_") } else { rng.byte() }).collect()
}

/// a string object: literal strings carry text, hexadecimal strings carry arbitrary bytes
fn string(rng: &mut Rng) -> Object {
    if rng.chance(1, 2) {
        Object::String(data(rng, true), StringFormat::Literal)
    } else {
        Object::String(data(rng, false), StringFormat::Hexadecimal)
    }
}

fn name(s: &str) -> Object {
    Object::Name(s.as_bytes().to_vec())
}

fn dict(entries: Vec<(&str, Object)>) -> Dictionary {
    let mut d = Dictionary::new();
    for (k, v) in entries {
        d.set(k, v);
    }
    d
}

/// A seeded document with every kind of item: strings directly in dictionaries, nested in arrays and
/// dictionaries, an indirect string object, strings in a stream's dictionary (every second document), content / binary / empty
/// streams, the document metadata stream, an object with a large object number (three distinct key
/// bytes) and one with a non-zero generation number.  `xref_obj`: also an (in-memory only) XRef stream.
fn gen_doc(rng: &mut Rng, xref_obj: bool, huge_id: bool, feature: &str) -> Document {
    let mut doc = Document::with_version("1.7");
    let gen = *rng.pick(&[0u16, 0, 1, 258, 65535]);
    let far: ObjectId = (if huge_id { 16_777_216 + 4660 } else { 70_003 + rng.below(1000) as u32 }, 0);
    let genobj: ObjectId = (11, gen);
    let mut o = BTreeMap::new();
    o.insert(
        (1, 0),
        Object::Dictionary(dict(vec![
            ("Type", name("Catalog")),
            ("Pages", Object::Reference((2, 0))),
            ("Metadata", Object::Reference((6, 0))),
            ("Lang", string(rng)),
        ])),
    );
    o.insert(
        (2, 0),
        Object::Dictionary(dict(vec![
            ("Type", name("Pages")),
            ("Kids", Object::Array(vec![Object::Reference((3, 0))])),
            ("Count", Object::Integer(1)),
        ])),
    );
    o.insert(
        (3, 0),
        Object::Dictionary(dict(vec![
            ("Type", name("Page")),
            ("Parent", Object::Reference((2, 0))),
            ("Contents", Object::Reference((4, 0))),
            ("MediaBox", Object::Array(vec![0.into(), 0.into(), 612.into(), 792.into()])),
        ])),
    );
    let ascii = rng.chance(1, 2);
    o.insert((4, 0), Object::Stream(Stream::new(Dictionary::new(), data(rng, ascii))));
    o.insert(
        (5, 0),
        Object::Dictionary(dict(vec![
            ("Title", string(rng)),
            ("Author", string(rng)),
            ("Empty", Object::String(vec![], StringFormat::Literal)),
            ("Keywords", Object::Array(vec![string(rng), Object::Integer(7), Object::Array(vec![string(rng)])])),
            (
                "Custom",
                Object::Dictionary(dict(vec![
                    ("Deep", string(rng)),
                    ("Deeper", Object::Dictionary(dict(vec![("X", string(rng))]))),
                    ("Far", Object::Reference(far)),
                    ("Gen", Object::Reference(genobj)),
                ])),
            ),
        ])),
    );
    o.insert(
        (6, 0),
        Object::Stream(Stream::new(dict(vec![("Type", name("Metadata")), ("Subtype", name("XML"))]), {
            let mut x = b"<?xpacket begin='' id='W5M0MpCehiHzreSzNTczkc9d'?><x:xmpmeta xmlns:x='adobe:ns:meta/'>".to_vec();
            x.extend(data(rng, true));
            x.extend_from_slice(b"</x:xmpmeta><?xpacket end='w'?>");
            x
        })),
    );
    // every second document has strings inside a stream dictionary
    let sd = if rng.chance(1, 2) {
        dict(vec![
            ("Type", name("EmbeddedFile")),
            (
                "Params",
                Object::Dictionary(dict(vec![
                    ("CheckSum", Object::String((0..16).map(|_| rng.byte()).collect(), StringFormat::Hexadecimal)),
                    ("Desc", Object::String(b"a description of sixteen bytes or more".to_vec(), StringFormat::Literal)),
                ])),
            ),
            ("Note", string(rng)),
        ])
    } else {
        dict(vec![("Type", name("EmbeddedFile")), ("Params", Object::Dictionary(dict(vec![("Size", Object::Integer(3))])))])
    };
    o.insert((7, 0), Object::Stream(Stream::new(sd, data(rng, false))));
    o.insert((8, 0), string(rng));
    o.insert((9, 0), Object::Array(vec![string(rng), Object::Integer(42), Object::Dictionary(dict(vec![("K", string(rng))]))]));
    o.insert((10, 0), Object::Stream(Stream::new(Dictionary::new(), vec![])));
    o.insert(genobj, Object::Dictionary(dict(vec![("S", string(rng)), ("A", Object::Array(vec![string(rng)]))])));
    o.insert(far, Object::Dictionary(dict(vec![("S", string(rng))])));
    if xref_obj {
        o.insert(
            (12, 0),
            Object::Stream(Stream::new(dict(vec![("Type", name("XRef")), ("Size", Object::Integer(1))]), data(rng, false))),
        );
    }
    // optional content (at most one kind per document, SecurityAlgorithms!Features)
    if feature == "sig" {
        // a signature dictionary: its Contents (hexadecimal, not a whole number of AES blocks) is never encrypted
        let n = *rng.pick(&[1usize, 20, 37, 256]);
        o.insert(
            FEATURE_IDS[0],
            Object::Dictionary(dict(vec![
                ("Type", name("Sig")),
                ("Filter", name("Adobe.PPKLite")),
                ("SubFilter", name("adbe.pkcs7.detached")),
                ("ByteRange", Object::Array(vec![0.into(), 100.into(), 300.into(), 50.into()])),
                ("Contents", Object::String((0..n).map(|_| rng.byte()).collect(), StringFormat::Hexadecimal)),
                ("Name", string(rng)),
                ("M", Object::String(b"D:20240229120000Z".to_vec(), StringFormat::Literal)),
            ])),
        );
    }
    if feature == "crypt" {
        // streams whose Filter names Crypt without naming a crypt filter: Identity from V 4 on
        o.insert(FEATURE_IDS[1], Object::Stream(Stream::new(dict(vec![("Filter", name("Crypt"))]), data(rng, false))));
        o.insert(
            FEATURE_IDS[2],
            Object::Stream(Stream::new(
                dict(vec![("Filter", Object::Array(vec![name("Crypt")])), ("DecodeParms", Object::Array(vec![Object::Null]))]),
                data(rng, true),
            )),
        );
        o.insert(
            FEATURE_IDS[3],
            Object::Stream(Stream::new(
                dict(vec![("Filter", name("Crypt")), ("DecodeParms", Object::Dictionary(dict(vec![("Type", name("CryptFilterDecodeParms"))])))]),
                data(rng, false),
            )),
        );
    }
    doc.max_id = far.0;
    doc.objects = o;
    // half of the files carry a classical cross-reference table, half a cross-reference stream
    doc.reference_table.cross_reference_type =
        if rng.chance(1, 2) { lopdf::xref::XrefType::CrossReferenceTable } else { lopdf::xref::XrefType::CrossReferenceStream };
    doc.trailer.set("Root", Object::Reference((1, 0)));
    doc.trailer.set("Info", Object::Reference((5, 0)));
    let idlen = *rng.pick(&[16usize, 16, 16, 8, 32]);
    let id0: Vec<u8> = (0..idlen).map(|_| rng.byte()).collect();
    let id1: Vec<u8> = (0..idlen).map(|_| rng.byte()).collect();
    doc.trailer.set(
        "ID",
        Object::Array(vec![Object::String(id0, StringFormat::Hexadecimal), Object::String(id1, StringFormat::Hexadecimal)]),
    );
    doc
}

/// object ids of the optional content
const FEATURE_IDS: [ObjectId; 4] = [(13, 0), (14, 0), (15, 0), (16, 0)];

#[derive(Clone, Debug)]
struct Item {
    id: ObjectId,
    path: String,
    kind: &'static str,
    data: Vec<u8>,
}

#[derive(Clone, Copy, PartialEq)]
enum Ctx {
    Top,
    Dict1,
    Nested,
    StreamDict,
    EncDict,
}

/// Filter names Crypt and the decode parameters of that filter name no crypt filter (Table 14: default Identity)
fn crypt_without_name(s: &Stream) -> bool {
    let filters: Vec<Vec<u8>> = match s.dict.get(b"Filter") {
        Ok(Object::Name(n)) => vec![n.clone()],
        Ok(Object::Array(a)) => a.iter().filter_map(|x| x.as_name().ok().map(|n| n.to_vec())).collect(),
        _ => vec![],
    };
    let Some(index) = filters.iter().position(|n| n == b"Crypt") else { return false };
    let parms = match s.dict.get(b"DecodeParms") {
        Ok(Object::Array(a)) => a.get(index),
        Ok(o) => Some(o),
        Err(_) => None,
    };
    !matches!(parms, Some(Object::Dictionary(d)) if d.has(b"Name"))
}

fn visit_obj(id: ObjectId, obj: &mut Object, path: &str, ctx: Ctx, f: &mut dyn FnMut(ObjectId, &str, &'static str, &mut Vec<u8>)) {
    match obj {
        Object::String(b, _) => {
            let kind = match ctx {
                Ctx::Top => "str.top",
                Ctx::Dict1 => "str.dict",
                Ctx::Nested => "str.nested",
                Ctx::StreamDict => "str.streamdict",
                Ctx::EncDict => "str.encdict",
            };
            f(id, path, kind, b);
        }
        Object::Array(a) => {
            let c = if ctx == Ctx::Top || ctx == Ctx::Dict1 { Ctx::Nested } else { ctx };
            for (k, x) in a.iter_mut().enumerate() {
                visit_obj(id, x, &format!("{path}[{k}]"), c, f);
            }
        }
        Object::Dictionary(d) => {
            let c = match ctx {
                Ctx::Top => Ctx::Dict1,
                Ctx::Dict1 => Ctx::Nested,
                c => c,
            };
            let is_sig = d.has(b"ByteRange");
            for (k, x) in d.iter_mut() {
                let p = format!("{path}/{}", String::from_utf8_lossy(k));
                if is_sig && k == b"Contents" && ctx != Ctx::EncDict {
                    if let Object::String(b, _) = x {
                        f(id, &p, "str.sigcontents", b);
                        continue;
                    }
                }
                visit_obj(id, x, &p, c, f);
            }
        }
        Object::Stream(s) => {
            let kind = if s.dict.has_type(b"Metadata") {
                "stream.meta"
            } else if s.dict.has_type(b"XRef") {
                "stream.xref"
            } else if crypt_without_name(s) {
                "stream.cryptid"
            } else {
                "stream"
            };
            if kind != "stream.xref" {
                for (k, x) in s.dict.iter_mut() {
                    visit_obj(id, x, &format!("{path}/{}", String::from_utf8_lossy(k)), Ctx::StreamDict, f);
                }
            }
            let mut c = std::mem::take(&mut s.content);
            f(id, &format!("{path}/stream"), kind, &mut c);
            s.set_content(c);
        }
        _ => {}
    }
}

/// apply f to every string and stream of the document (objects in id order, then the trailer ID)
fn visit(doc: &mut Document, f: &mut dyn FnMut(ObjectId, &str, &'static str, &mut Vec<u8>)) {
    let enc = doc.trailer.get(b"Encrypt").and_then(Object::as_reference).ok();
    for (id, obj) in doc.objects.iter_mut() {
        let ctx = if Some(*id) == enc { Ctx::EncDict } else { Ctx::Top };
        visit_obj(*id, obj, &format!("{} {}", id.0, id.1), ctx, f);
    }
    if let Ok(Object::Array(a)) = doc.trailer.get_mut(b"ID") {
        for (k, x) in a.iter_mut().enumerate() {
            if let Object::String(b, _) = x {
                f((0, 0), &format!("trailer/ID[{k}]"), "str.id", b);
            }
        }
    }
}

fn items(doc: &Document) -> Vec<Item> {
    let mut d = doc.clone();
    let mut out = vec![];
    visit(&mut d, &mut |id, path, kind, data| out.push(Item { id, path: path.to_string(), kind, data: data.clone() }));
    out
}

fn item_map(doc: &Document) -> BTreeMap<String, Item> {
    items(doc).into_iter().map(|i| (i.path.clone(), i)).collect()
}

fn method_of<'a>(cfg: &'a Cfg, kind: &str) -> (&'a str, &'static str) {
    if kind.starts_with("str.") {
        (&cfg.strf, "str")
    } else {
        (&cfg.stmf, "stm")
    }
}

fn is_aes(m: &str) -> bool {
    m == "AESV2" || m == "AESV3"
}

fn id0_of(doc: &Document) -> Vec<u8> {
    doc.trailer
        .get(b"ID")
        .ok()
        .and_then(|o| o.as_array().ok())
        .and_then(|a| a.first())
        .and_then(|o| o.as_str().ok())
        .map(|b| b.to_vec())
        .unwrap_or_default()
}

// ====================================================================== term-driven reference handler

struct Line {
    cfg: Cfg,
    terms: Terms,
    subjects: HashMap<String, bool>,
    ucmp: usize,
    /// legal values of the Encrypt dictionary's Length entry for this configuration (-1 = absent), canonical one
    lengths: Vec<i64>,
    canon_length: i64,
    /// legal forms of the encryption dictionary (SecurityAlgorithms!Forms)
    forms: Vec<String>,
}

struct Group {
    line: usize,
    user: Value,
    owner: Value,
    tries: Vec<Value>, // CASE lines
}

fn load_terms(path: &str) -> (Vec<Line>, Vec<Group>) {
    let mut lines = vec![];
    let mut index = HashMap::new();
    let mut groups: Vec<Group> = vec![];
    let mut gindex: HashMap<String, usize> = HashMap::new();
    let all = read_ndjson(path);
    for l in all.iter().filter(|l| l["kind"] == "TERMS") {
        let cfg = Cfg::from(l);
        index.insert(cfg.key(), lines.len());
        let subjects = l["subjects"].as_object().unwrap().iter().map(|(k, v)| (k.clone(), v.as_bool().unwrap())).collect();
        lines.push(Line { cfg, terms: Terms::from_line(l), subjects, ucmp: l["ucmp"].as_u64().unwrap() as usize,
            lengths: l["lengths"].as_array().expect("lengths").iter().map(|x| x.as_i64().unwrap()).collect(),
            canon_length: l["canonLength"].as_i64().expect("canonLength"),
            forms: l["forms"].as_array().expect("forms").iter().map(|x| x["f"].as_str().unwrap().to_string()).collect() });
    }
    for l in all.iter().filter(|l| l["kind"] == "CASE") {
        let cfg = Cfg::from(l);
        let li = *index.get(&cfg.key()).unwrap_or_else(|| panic!("CASE without TERMS: {}", cfg.key()));
        let gk = format!("{}|{}|{}", cfg.key(), l["user"], l["owner"]);
        let gi = *gindex.entry(gk).or_insert_with(|| {
            groups.push(Group { line: li, user: l["user"].clone(), owner: l["owner"].clone(), tries: vec![] });
            groups.len() - 1
        });
        groups[gi].tries.push(l.clone());
    }
    // deterministic order whatever order TLC's workers printed in
    groups.sort_by_key(|g| (lines[g.line].cfg.key(), g.user.to_string(), g.owner.to_string()));
    for g in groups.iter_mut() {
        g.tries.sort_by_key(|t| t["try"].to_string());
    }
    (lines, groups)
}

fn item_env(base: &Env, id: ObjectId) -> Env {
    let mut e = base.clone();
    e.insert("num".into(), Val::I(id.0 as i64));
    e.insert("gen".into(), Val::I(id.1 as i64));
    e
}

/// what the ISO writer stores for an item (plaintext for exempt items)
fn ref_encrypt(line: &Line, base: &Env, it: &Item, iv: &[u8]) -> Result<Vec<u8>, String> {
    if !line.subjects[it.kind] {
        return Ok(it.data.clone());
    }
    let (_, which) = method_of(&line.cfg, it.kind);
    let mut e = item_env(base, it.id);
    e.insert("iv".into(), Val::B(iv.to_vec()));
    e.insert("pt".into(), Val::B(it.data.clone()));
    line.terms.bytes(&format!("ct.{which}"), &mut e)
}

/// what the ISO reader makes of a stored item
fn ref_decrypt(line: &Line, base: &Env, it: &Item) -> Result<Vec<u8>, String> {
    if !line.subjects[it.kind] {
        return Ok(it.data.clone());
    }
    let (_, which) = method_of(&line.cfg, it.kind);
    let mut e = item_env(base, it.id);
    e.insert("ct".into(), Val::B(it.data.clone()));
    line.terms.bytes(&format!("pt.{which}"), &mut e)
}

fn rnd_bytes(rng: &mut Rng, n: usize) -> Vec<u8> {
    (0..n).map(|_| rng.byte()).collect()
}

// ====================================================================== direction V: lopdf -> reference

fn filter_for(m: &str) -> Arc<dyn CryptFilter> {
    match m {
        "V2" => Arc::new(Rc4CryptFilter),
        "AESV2" => Arc::new(Aes128CryptFilter),
        "AESV3" => Arc::new(Aes256CryptFilter),
        _ => panic!("method {m}"),
    }
}

fn perms_from(off: &[u32]) -> Permissions {
    let mut bits = Permissions::all().bits();
    for b in off {
        bits &= !(1u64 << (b - 1));
    }
    Permissions::from_bits_truncate(bits)
}

#[allow(deprecated)]
fn lopdf_encrypt(doc: &mut Document, cfg: &Cfg, user: &str, owner: &str, off: &[u32], fek: &[u8]) -> Result<EncryptionState, String> {
    let permissions = perms_from(off);
    let filters = || -> (BTreeMap<Vec<u8>, Arc<dyn CryptFilter>>, Vec<u8>, Vec<u8>) {
        // the standard crypt filter Identity is named, not defined in CF
        let mut cf: BTreeMap<Vec<u8>, Arc<dyn CryptFilter>> = BTreeMap::new();
        let same = cfg.stmf == cfg.strf;
        let mut nm = |m: &str, n: &[u8]| -> Vec<u8> {
            if m == "Identity" {
                b"Identity".to_vec()
            } else {
                cf.insert(n.to_vec(), filter_for(m));
                n.to_vec()
            }
        };
        let sm = nm(&cfg.stmf, if same { b"StdCF" } else { b"StmCF" });
        let sr = nm(&cfg.strf, if same { b"StdCF" } else { b"StrCF" });
        (cf, sm, sr)
    };
    let state = {
        let version = match cfg.v {
            1 => EncryptionVersion::V1 { document: doc, owner_password: owner, user_password: user, permissions },
            2 => EncryptionVersion::V2 { document: doc, owner_password: owner, user_password: user, key_length: cfg.bits as usize, permissions },
            4 => {
                let (crypt_filters, stream_filter, string_filter) = filters();
                EncryptionVersion::V4 {
                    document: doc,
                    encrypt_metadata: cfg.meta,
                    crypt_filters,
                    stream_filter,
                    string_filter,
                    owner_password: owner,
                    user_password: user,
                    permissions,
                }
            }
            5 => {
                let (crypt_filters, stream_filter, string_filter) = filters();
                if cfg.r == 5 {
                    EncryptionVersion::R5 {
                        encrypt_metadata: cfg.meta,
                        crypt_filters,
                        file_encryption_key: fek,
                        stream_filter,
                        string_filter,
                        owner_password: owner,
                        user_password: user,
                        permissions,
                    }
                } else {
                    EncryptionVersion::V5 {
                        encrypt_metadata: cfg.meta,
                        crypt_filters,
                        file_encryption_key: fek,
                        stream_filter,
                        string_filter,
                        owner_password: owner,
                        user_password: user,
                        permissions,
                    }
                }
            }
            v => return Err(format!("V {v}")),
        };
        EncryptionState::try_from(version).map_err(|e| format!("EncryptionState::try_from: {e}"))?
    };
    doc.encrypt(&state).map_err(|e| format!("encrypt: {e}"))?;
    Ok(state)
}

fn str_of(d: &Dictionary, k: &[u8]) -> Vec<u8> {
    d.get(k).ok().and_then(|o| o.as_str().ok()).map(|b| b.to_vec()).unwrap_or_default()
}

/// projection of the Encrypt dictionary
fn dict_json(d: &Dictionary) -> Value {
    let int = |k: &[u8]| d.get(k).ok().and_then(|o| o.as_i64().ok());
    let nm = |k: &[u8]| d.get(k).ok().and_then(|o| o.as_name().ok()).map(|b| String::from_utf8_lossy(b).to_string()).unwrap_or_default();
    let cfm = |f: &[u8]| -> String {
        let fname = d.get(f).ok().and_then(|o| o.as_name().ok()).map(|b| b.to_vec());
        match fname {
            None => String::new(),
            Some(n) if n == b"Identity" => "Identity".to_string(),
            Some(n) => d
                .get(b"CF")
                .ok()
                .and_then(|o| o.as_dict().ok())
                .and_then(|cf| cf.get(&n).ok())
                .and_then(|o| o.as_dict().ok())
                .and_then(|fd| fd.get(b"CFM").ok())
                .and_then(|o| o.as_name().ok())
                .map(|b| String::from_utf8_lossy(b).to_string())
                .unwrap_or_else(|| "?".to_string()),
        }
    };
    let p = int(b"P");
    let pfits = p.map(|p| p >= i32::MIN as i64 && p <= i32::MAX as i64).unwrap_or(false);
    json!({
        "Filter": nm(b"Filter"), "V": int(b"V").unwrap_or(-1), "R": int(b"R").unwrap_or(-1), "Length": int(b"Length").unwrap_or(-1),
        "EncryptMetadata": match d.get(b"EncryptMetadata").ok().and_then(|o| o.as_bool().ok()) { None => "absent", Some(true) => "true", Some(false) => "false" },
        "stmf": cfm(b"StmF"), "strf": cfm(b"StrF"),
        "Olen": str_of(d, b"O").len(), "Ulen": str_of(d, b"U").len(), "OElen": str_of(d, b"OE").len(),
        "UElen": str_of(d, b"UE").len(), "Permslen": str_of(d, b"Perms").len(),
        "P": if pfits { p.unwrap() } else { 0 }, "Pfits": pfits,
    })
}

struct Out {
    out: NdjsonOut,
    dir: &'static str,
    doc: usize,
    cfg: Value,
    absent: bool,
    user_empty: bool,
    user: Value,
    owner: Value,
    hist: Value,
    feature: Value,
}

impl Out {
    fn put(&mut self, mut v: Value) {
        let o = v.as_object_mut().unwrap();
        o.insert("dir".into(), json!(self.dir));
        o.insert("doc".into(), json!(self.doc));
        o.insert("cfg".into(), self.cfg.clone());
        o.insert("absent".into(), json!(self.absent));
        o.insert("userEmpty".into(), json!(self.user_empty));
        o.entry("user").or_insert(self.user.clone());
        o.entry("owner").or_insert(self.owner.clone());
        o.insert("hist".into(), self.hist.clone());
        o.entry("feature").or_insert(self.feature.clone());
        self.out.put(&v);
    }
    fn obs(&mut self, obs: &str, role: &str, kind: &str, n: usize, bad: usize, note: &str) {
        self.put(json!({"ev": "obs", "obs": obs, "role": role, "kind": kind, "n": n, "bad": bad, "note": note}));
    }
}

/// compare one dictionary-level observable
fn cmp(out: &mut Out, obs: &str, role: &str, want: Result<Vec<u8>, String>, got: &[u8]) {
    match want {
        Ok(w) => {
            let note = if w == got { String::new() } else { format!("reference {} lopdf {}", hexs(&w), hexs(got)) };
            out.obs(obs, role, "", 1, (w != got) as usize, &note)
        }
        Err(e) => out.obs(obs, role, "", 1, 1, &format!("reference could not evaluate: {e}")),
    }
}

fn record_one(out: &mut Out, line: &Line, g: &Group, rng: &mut Rng, huge: bool, feature: &str) {
    let cfg = &line.cfg;
    let with_xref = rng.chance(1, 4);
    let plain = gen_doc(rng, with_xref, huge, feature);
    let user = pw_string(&g.user);
    let owner = pw_string(&g.owner);
    let off = pick_off(rng, cfg.r);
    let fek = rnd_bytes(rng, 32);
    let mut enc = plain.clone();
    let state = match guarded(|| lopdf_encrypt(&mut enc, cfg, &user, &owner, &off, &fek)) {
        Ok(Ok(s)) => s,
        Ok(Err(e)) => return out.put(json!({"ev": "crash", "what": "encrypt-error", "msg": e})),
        Err(p) => return out.put(json!({"ev": "crash", "what": "encrypt-panic", "msg": p})),
    };
    let Ok(ed) = enc.get_encrypted().cloned() else {
        return out.put(json!({"ev": "crash", "what": "no-encrypt-dictionary", "msg": ""}));
    };
    out.put(json!({"ev": "dict", "d": dict_json(&ed), "off": off}));
    let (o_l, u_l, oe_l, ue_l, perms_l) = (str_of(&ed, b"O"), str_of(&ed, b"U"), str_of(&ed, b"OE"), str_of(&ed, b"UE"), str_of(&ed, b"Perms"));
    let p = ed.get(b"P").ok().and_then(|o| o.as_i64().ok()).unwrap_or(0);
    let fk_l = state.file_encryption_key().to_vec();
    let t = &line.terms;
    let mut perms_plain = false;

    // ---- the writer's observables, each recomputed from the inputs lopdf was given / the random parts it chose
    let mut w: Env = HashMap::new();
    w.insert("upw".into(), Val::B(prep(cfg.r, &user)));
    w.insert("opw".into(), Val::B(prep(cfg.r, &owner)));
    w.insert("P".into(), Val::I(p));
    w.insert("id0".into(), Val::B(id0_of(&enc)));
    if cfg.r <= 4 {
        cmp(out, "O", "", t.bytes("O", &mut w), &o_l);
        w.insert("O".into(), Val::B(o_l.clone())); // downstream algorithms read O as stored
        cmp(out, "fk", "", t.bytes("fk", &mut w), &fk_l);
        w.insert("fk".into(), Val::B(fk_l.clone()));
        if u_l.len() == 32 {
            w.insert("uarb".into(), Val::B(u_l[16..].to_vec()));
        } else {
            w.insert("uarb".into(), Val::B(vec![0; 16]));
        }
        // Algorithm 5: only the first 16 bytes are defined (ucmp comes from the spec)
        let want = t.bytes("U", &mut w).map(|u| u[..line.ucmp.min(u.len())].to_vec());
        cmp(out, "U", "", want, &u_l[..line.ucmp.min(u_l.len())]);
    } else {
        w.insert("fek".into(), Val::B(fek.clone()));
        cmp(out, "fk", "", t.bytes("fk", &mut w), &fk_l);
        let sl = |x: &Vec<u8>, a: usize, b: usize| if x.len() >= b { x[a..b].to_vec() } else { vec![0; b - a] };
        w.insert("uvs".into(), Val::B(sl(&u_l, 32, 40)));
        w.insert("uks".into(), Val::B(sl(&u_l, 40, 48)));
        w.insert("ovs".into(), Val::B(sl(&o_l, 32, 40)));
        w.insert("oks".into(), Val::B(sl(&o_l, 40, 48)));
        cmp(out, "U", "", t.bytes("U", &mut w), &u_l);
        w.insert("U".into(), Val::B(u_l.clone()));
        cmp(out, "UE", "", t.bytes("UE", &mut w), &ue_l);
        cmp(out, "O", "", t.bytes("O", &mut w), &o_l);
        cmp(out, "OE", "", t.bytes("OE", &mut w), &oe_l);
        // the 4 random bytes of Perms are read from lopdf's value
        let mut pe = w.clone();
        pe.insert("Perms".into(), Val::B(perms_l.clone()));
        match t.bytes("r.perms", &mut pe) {
            Ok(d) if d.len() == 16 => {
                w.insert("rnd".into(), Val::B(d[12..].to_vec()));
                let want = t.bytes("Perms", &mut w);
                // is what lopdf stored the *unencrypted* block of Algorithm 10 (a)-(e)?
                let mut q = w.clone();
                if let Ok(x) = &want {
                    q.insert("Perms".into(), Val::B(x.clone()));
                }
                perms_plain = matches!(t.bytes("r.perms", &mut q), Ok(pl) if perms_l.len() == 16 && pl[..12] == perms_l[..12]);
                match want {
                    Ok(x) => out.obs("Perms", "", "", 1, (x != perms_l) as usize, if perms_plain { "stored-plaintext" } else { "" }),
                    Err(e) => out.obs("Perms", "", "", 1, 1, &e),
                }
            }
            Ok(_) | Err(_) => out.obs("Perms", "", "", 1, 1, "Perms cannot be decrypted"),
        }
    }

    // ---- object keys and ciphertexts
    let pm = item_map(&plain);
    let em = item_map(&enc);
    let mut agg: BTreeMap<(&str, String, &str), (usize, usize, String)> = BTreeMap::new();
    let mut add = |obs: &'static str, role: &str, kind: &'static str, bad: bool, note: String| {
        let e = agg.entry((obs, role.to_string(), kind)).or_insert((0, 0, String::new()));
        e.0 += 1;
        if bad {
            e.1 += 1;
            if e.2.is_empty() {
                e.2 = note;
            }
        }
    };
    if pm.keys().collect::<Vec<_>>() != em.keys().filter(|k| em[*k].kind != "str.encdict").collect::<Vec<_>>() {
        add("structure", "", "stream", true, "encrypt() changed the set of strings and streams".into());
    }
    // (the standard crypt filter Identity has no key)
    let fstr = filter_for(if cfg.strf == "Identity" { "V2" } else { &cfg.strf });
    let fstm = filter_for(if cfg.stmf == "Identity" { "V2" } else { &cfg.stmf });
    for (path, pi) in &pm {
        let Some(ei) = em.get(path) else { continue };
        let (m, which) = method_of(cfg, pi.kind);
        if line.subjects[pi.kind] && pi.id != (0, 0) && m != "Identity" {
            let mut e = item_env(&w, pi.id);
            let want = t.bytes(&format!("objkey.{which}"), &mut e);
            let got = guarded(|| (if which == "str" { &fstr } else { &fstm }).compute_key(&fk_l, pi.id));
            let bad = match (&want, &got) {
                (Ok(a), Ok(Ok(b))) => a != b,
                _ => true,
            };
            add("objkey", "", pi.kind, bad, format!("{path}: reference {:?} lopdf {:?}", want.as_ref().map(|x| hexs(x)), got.as_ref().map(|r| r.as_ref().map(|x| hexs(x)).map_err(|e| e.to_string()))));
        }
        let iv = if is_aes(m) && ei.data.len() >= 16 { ei.data[..16].to_vec() } else { vec![0; 16] };
        let want = ref_encrypt(line, &w, pi, &iv);
        let bad = want.as_ref().map(|x| *x != ei.data).unwrap_or(true);
        add("ct", "", pi.kind, bad, format!("{path}: plaintext {} bytes, lopdf stored {} bytes {}, reference {}", pi.data.len(), ei.data.len(),
            hexs(&ei.data[..ei.data.len().min(24)]), want.as_ref().map(|x| hexs(&x[..x.len().min(24)])).unwrap_or_else(|e| e.clone())));
    }

    // ---- an independent reader: Encrypt dictionary, file identifier and a password, nothing else
    let roles: Vec<(&str, &str)> = if owner.is_empty() { vec![("user", &user)] } else { vec![("user", &user), ("owner", &owner)] };
    for (role, pw) in roles {
        let mut r: Env = HashMap::new();
        r.insert("pw".into(), Val::B(prep(cfg.r, pw)));
        r.insert("P".into(), Val::I(p));
        r.insert("id0".into(), Val::B(id0_of(&enc)));
        r.insert("O".into(), Val::B(o_l.clone()));
        r.insert("U".into(), Val::B(u_l.clone()));
        r.insert("OE".into(), Val::B(oe_l.clone()));
        r.insert("UE".into(), Val::B(ue_l.clone()));
        r.insert("Perms".into(), Val::B(perms_l.clone()));
        let auth = t.truth(&format!("r.auth.{role}"), &mut r);
        out.obs("r.auth", role, "", 1, (auth != Ok(true)) as usize, &format!("{auth:?}"));
        if auth != Ok(true) {
            continue;
        }
        let fk = match t.bytes(&format!("r.fk.{role}"), &mut r) {
            Ok(k) => k,
            Err(e) => {
                out.obs("r.fk", role, "", 1, 1, &e);
                continue;
            }
        };
        out.obs("r.fk", role, "", 1, (fk != fk_l) as usize, "");
        r.insert("fk".into(), Val::B(fk));
        if cfg.r >= 5 {
            let ok = t.truth("r.perms.ok", &mut r);
            out.obs("r.perms.ok", role, "", 1, (ok != Ok(true)) as usize, if perms_plain { "stored-plaintext" } else { "" });
        }
        for (path, pi) in &pm {
            let Some(ei) = em.get(path) else { continue };
            let got = ref_decrypt(line, &r, ei);
            let bad = got.as_ref().map(|x| *x != pi.data).unwrap_or(true);
            add("pt", role, pi.kind, bad, format!("{path}: {}", got.as_ref().map(|x| format!("{} bytes", x.len())).unwrap_or_else(|e| e.clone())));
        }
    }
    for ((obs, role, kind), (n, bad, note)) in agg {
        out.obs(obs, &role, kind, n, bad, &note);
    }

    // ---- the saved file carries the same ciphertext (observable when the loader does not decrypt it itself)
    let mut bytes = vec![];
    let mut tosave = enc.clone();
    let saved = guarded(|| tosave.save_to(&mut bytes).map_err(|e| e.to_string()));
    let same = match saved {
        Ok(Ok(())) => match guarded(|| Document::load_mem(&bytes)) {
            Ok(Ok(l)) if l.is_encrypted() => {
                let lm = item_map(&l);
                let diff = em.iter().filter(|(k, v)| v.kind != "stream.xref" && lm.get(*k).map(|x| x.data != v.data).unwrap_or(true)).count();
                if diff == 0 { "same" } else { "differs" }
            }
            Ok(Ok(_)) => "autodecrypted",
            Ok(Err(_)) => "load-error",
            Err(_) => "load-panic",
        },
        _ => "save-error",
    };
    out.put(json!({"ev": "saved", "st": same}));
}

// ====================================================================== direction G: reference -> lopdf

/// the Encrypt dictionary an ISO writer produces for the configuration
fn ref_encrypt_dict(rng: &mut Rng, cfg: &Cfg, vals: &HashMap<&str, Vec<u8>>, p: i64, dlen: i64, form: &str) -> Dictionary {
    let mut d = Dictionary::new();
    let s = |b: &Vec<u8>, rng: &mut Rng| Object::String(b.clone(), if rng.chance(1, 2) { StringFormat::Hexadecimal } else { StringFormat::Literal });
    d.set("Filter", name("Standard"));
    d.set("V", Object::Integer(cfg.v));
    d.set("R", Object::Integer(cfg.r));
    // Length: one of the values the spec lists as legal for this V (LegalLengths), -1 = no entry
    if dlen >= 0 {
        d.set("Length", Object::Integer(dlen));
    }
    if cfg.v >= 4 {
        let mut cf = Dictionary::new();
        let mk = |m: &str, rng: &mut Rng| {
            let mut f = dict(vec![("CFM", name(m))]);
            if rng.chance(1, 2) {
                f.set("Type", name("CryptFilter"));
            }
            if rng.chance(1, 2) {
                f.set("AuthEvent", name("DocOpen"));
            }
            if rng.chance(1, 2) {
                f.set("Length", Object::Integer(if cfg.v == 5 { 32 } else { 16 }));
            }
            Object::Dictionary(f)
        };
        // the standard crypt filter Identity is named (or, being the default, left out: forms stmf.absent / strf.absent)
        let same = cfg.stmf == cfg.strf;
        for (key, m, fname, absent) in [
            ("StmF", &cfg.stmf, if same { "StdCF" } else { "StmCF" }, form == "stmf.absent"),
            ("StrF", &cfg.strf, if same { "StdCF" } else { "StrCF" }, form == "strf.absent"),
        ] {
            if m == "Identity" {
                if !absent {
                    d.set(key, name("Identity"));
                }
            } else {
                if !cf.has(fname.as_bytes()) {
                    cf.set(fname, mk(m, rng));
                }
                d.set(key, name(fname));
            }
        }
        if !cf.is_empty() || rng.chance(1, 2) {
            d.set("CF", Object::Dictionary(cf));
        }
        if !cfg.meta || rng.chance(1, 2) {
            d.set("EncryptMetadata", Object::Boolean(cfg.meta));
        }
    } else if form == "em.false" {
        // "meaningful only when the value of V is 4 or 5": the metadata stream is encrypted like everything else
        d.set("EncryptMetadata", Object::Boolean(false));
    }
    d.set("O", s(&vals["O"], rng));
    d.set("U", s(&vals["U"], rng));
    d.set("P", Object::Integer(p));
    if cfg.r >= 5 {
        d.set("OE", s(&vals["OE"], rng));
        d.set("UE", s(&vals["UE"], rng));
        d.set("Perms", s(&vals["Perms"], rng));
    }
    d
}

fn lopdf_err(e: &lopdf::Error) -> String {
    let s = e.to_string();
    s.chars().take(80).collect()
}

/// One reference-encrypted document: the plaintext, what the ISO writer makes of it, where its Encrypt dictionary is.
struct RefDoc {
    enc: Document,
    enc_id: Option<ObjectId>, // None: the dictionary stands directly in the trailer
    pm: BTreeMap<String, Item>,
}

/// Does document d (after lopdf's decryption) hold the plaintext of rd?  Kinds of the items that differ.
fn judge_plain(rd: &RefDoc, d: &Document) -> Vec<&'static str> {
    let dm = item_map(d);
    let mut bad = BTreeSet::new();
    for (k, v) in &rd.pm {
        match dm.get(k) {
            Some(x) if x.data == v.data => {}
            _ => {
                bad.insert(v.kind);
            }
        }
    }
    if d.trailer.has(b"Encrypt") || rd.enc_id.map(|id| d.objects.contains_key(&id)).unwrap_or(false) {
        bad.insert("str.encdict");
    }
    bad.into_iter().collect()
}

fn set_perms(d: &mut Document, enc_id: Option<ObjectId>, block: Vec<u8>) {
    let ed = match enc_id {
        Some(id) => d.objects.get_mut(&id),
        None => d.trailer.get_mut(b"Encrypt").ok(),
    };
    if let Some(Object::Dictionary(ed)) = ed {
        ed.set("Perms", Object::String(block, StringFormat::Hexadecimal));
    }
}

fn gen_one(out: &mut Out, line: &Line, g: &Group, rng: &mut Rng, huge: bool, dlen: i64, form: &str, feature: &str) {
    let cfg = &line.cfg;
    let t = &line.terms;
    let plain = gen_doc(rng, false, huge, feature);
    let user = pw_string(&g.user);
    let owner = pw_string(&g.owner);
    let off = pick_off(rng, cfg.r);
    let p = p_value(&off);
    let env_skip = |out: &mut Out, why: &str| out.put(json!({"ev": "env", "why": why}));

    // lopdf's writer and loader transport this (unencrypted) document unchanged?  (not this property's business)
    {
        let pm = item_map(&plain);
        let mut b = vec![];
        let mut d = plain.clone();
        let ok = guarded(|| d.save_to(&mut b).is_ok() && Document::load_mem(&b).map(|l| {
            let lm = item_map(&l);
            pm.iter().all(|(k, v)| lm.get(k).map(|x| x.data == v.data).unwrap_or(false))
        }).unwrap_or(false));
        if ok != Ok(true) {
            return env_skip(out, "plain document does not survive save + load");
        }
    }

    // ---- the ISO writer
    let mut w: Env = HashMap::new();
    w.insert("upw".into(), Val::B(prep(cfg.r, &user)));
    w.insert("opw".into(), Val::B(prep(cfg.r, &owner)));
    w.insert("P".into(), Val::I(p));
    w.insert("id0".into(), Val::B(id0_of(&plain)));
    w.insert("uarb".into(), Val::B(rnd_bytes(rng, 16)));
    for k in ["uvs", "uks", "ovs", "oks"] {
        w.insert(k.into(), Val::B(rnd_bytes(rng, 8)));
    }
    w.insert("rnd".into(), Val::B(rnd_bytes(rng, 4)));
    w.insert("fek".into(), Val::B(rnd_bytes(rng, 32)));
    let mut vals: HashMap<&str, Vec<u8>> = HashMap::new();
    let names: &[&'static str] = if cfg.r <= 4 { &["O", "U", "fk"] } else { &["fk", "U", "UE", "O", "OE", "Perms"] };
    for k in names {
        match t.bytes(k, &mut w) {
            Ok(v) => {
                vals.insert(k, v);
            }
            Err(e) => panic!("reference writer cannot evaluate {k}: {e}"),
        }
    }
    let fk = vals["fk"].clone();
    // the document in the requested form, and the same document in the canonical form without the optional content
    let mut make = |plain: &Document, dlen: i64, form: &str| -> RefDoc {
        let mut enc = plain.clone();
        let mut fail = None;
        visit(&mut enc, &mut |id, path, kind, data| {
            let it = Item { id, path: path.to_string(), kind, data: data.clone() };
            let iv = rnd_bytes(rng, 16);
            match ref_encrypt(line, &w, &it, &iv) {
                Ok(ct) => *data = ct,
                Err(e) => fail = Some(e),
            }
        });
        if let Some(e) = fail {
            panic!("reference writer cannot encrypt: {e}");
        }
        // ciphertext strings are written in hexadecimal form
        for (_, obj) in enc.objects.iter_mut() {
            fn hexify(o: &mut Object) {
                match o {
                    Object::String(_, f) => *f = StringFormat::Hexadecimal,
                    Object::Array(a) => a.iter_mut().for_each(hexify),
                    Object::Dictionary(d) => d.iter_mut().for_each(|(_, v)| hexify(v)),
                    Object::Stream(s) => s.dict.iter_mut().for_each(|(_, v)| hexify(v)),
                    _ => {}
                }
            }
            hexify(obj);
        }
        let ed = ref_encrypt_dict(rng, cfg, &vals, p, dlen, form);
        let enc_id = if form == "enc.direct" {
            // Table 15: the value of Encrypt is the encryption dictionary - here the dictionary itself
            enc.trailer.set("Encrypt", Object::Dictionary(ed));
            None
        } else {
            let id = enc.add_object(Object::Dictionary(ed));
            enc.trailer.set("Encrypt", Object::Reference(id));
            Some(id)
        };
        RefDoc { enc, enc_id, pm: item_map(plain) }
    };
    let rd = make(&plain, dlen, form);
    let variant = dlen != line.canon_length || form != "canon" || feature != "none";
    let canon = if variant {
        let mut pc = plain.clone();
        for id in FEATURE_IDS {
            pc.objects.remove(&id);
        }
        Some(make(&pc, line.canon_length, "canon"))
    } else {
        None
    };
    let enc = &rd.enc;
    let pm = &rd.pm;

    // the reference opens its own document (a failure here is a mistake in the spec or the interpreter)
    for (role, pw) in [("user", &user), ("owner", if owner.is_empty() && cfg.r <= 4 { &user } else { &owner })] {
        let mut r: Env = HashMap::new();
        r.insert("pw".into(), Val::B(prep(cfg.r, pw)));
        r.insert("P".into(), Val::I(p));
        r.insert("id0".into(), Val::B(id0_of(&plain)));
        for k in ["O", "U", "OE", "UE", "Perms"] {
            if let Some(v) = vals.get(k) {
                r.insert(k.into(), Val::B(v.clone()));
            }
        }
        assert_eq!(t.truth(&format!("r.auth.{role}"), &mut r), Ok(true), "reference does not authenticate its own {role} password");
        assert_eq!(t.bytes(&format!("r.fk.{role}"), &mut r).as_ref(), Ok(&fk), "reference does not recover its own file key ({role})");
        r.insert("fk".into(), Val::B(fk.clone()));
        if cfg.r >= 5 {
            assert_eq!(t.truth("r.perms.ok", &mut r), Ok(true), "reference rejects its own Perms");
        }
        for it in items(enc) {
            if it.kind == "str.encdict" {
                continue;
            }
            assert_eq!(ref_decrypt(line, &r, &it).as_ref(), Ok(&pm[&it.path].data), "reference cannot read back {}", it.path);
        }
    }
    // diagnosis for a document in another than the canonical form / with optional content: does the same attempt succeed
    // on the canonical document (same keys, same passwords)?
    let canon_opens = |pw: &str| -> &'static str {
        match &canon {
            None => "na",
            Some(c) => {
                let mut d = c.enc.clone();
                match guarded(|| d.decrypt(pw)) {
                    Ok(Ok(())) if judge_plain(c, &d).is_empty() => "yes",
                    _ => "no",
                }
            }
        }
    };
    let perms_plain_block = || -> Vec<u8> {
        let mut q: Env = HashMap::new();
        q.insert("fk".into(), Val::B(fk.clone()));
        q.insert("Perms".into(), Val::B(vals["Perms"].clone()));
        t.bytes("r.perms", &mut q).expect("r.perms")
    };
    let rec = |tr: Value, route: &str, au: &str, ao: &str, res: &str, err: &str, fkq: &str, bad: Vec<&'static str>, ppo: &str, co: &str| -> Value {
        json!({"ev": "open", "user": g.user, "owner": g.owner, "try": tr, "route": route, "dlen": dlen, "form": form, "feature": feature,
               "authU": au, "authO": ao, "res": res, "err": err, "fk": fkq, "bad": bad, "nitems": pm.len(), "permsPlainOpens": ppo, "canonOpens": co})
    };

    // ---- the file
    let mut bytes = vec![];
    let mut tosave = enc.clone();
    if guarded(|| tosave.save_to(&mut bytes).is_ok()) != Ok(true) {
        return env_skip(out, "save_to failed");
    }
    let loaded = guarded(|| Document::load_mem(&bytes));
    let em = item_map(enc);
    // file route: what load_mem returns
    let file_doc: Option<Document> = match loaded {
        Ok(Ok(l)) => {
            if l.trailer.has(b"Encrypt") {
                // still encrypted (whether or not lopdf sees that it is)
                let lm = item_map(&l);
                let same = em.iter().all(|(k, v)| v.kind == "str.encdict" || lm.get(k).map(|x| x.data == v.data).unwrap_or(false));
                if !same {
                    return env_skip(out, "encrypted document does not survive save + load");
                }
                Some(l)
            } else {
                // the loader decrypted the document with the empty password
                let bad = judge_plain(&rd, &l);
                let co = if bad.is_empty() { "na" } else { canon_opens("") };
                out.put(rec(json!([]), "auto", "na", "na", "auto", "", "na", bad, "na", co));
                None
            }
        }
        Ok(Err(e)) => {
            // load_mem failed as a whole: judged as the attempt with the empty password (the only one the loader makes)
            let mut ppo = "na";
            if cfg.r >= 5 {
                let mut e2 = enc.clone();
                set_perms(&mut e2, rd.enc_id, perms_plain_block());
                let mut b2 = vec![];
                ppo = match guarded(|| e2.save_to(&mut b2).ok().and_then(|_| Document::load_mem(&b2).ok())) {
                    Ok(Some(l)) if judge_plain(&rd, &l).iter().all(|k| *k == "str.streamdict") => "yes",
                    _ => "no",
                };
            }
            // does the canonical document load?
            let co = match &canon {
                None => "na",
                Some(c) => {
                    let mut e2 = c.enc.clone();
                    let mut b2 = vec![];
                    match guarded(|| e2.save_to(&mut b2).ok().and_then(|_| Document::load_mem(&b2).ok())) {
                        Ok(Some(l)) if judge_plain(c, &l).is_empty() => "yes",
                        _ => "no",
                    }
                }
            };
            out.put(rec(json!([]), "load", "na", "na", "err", &lopdf_err(&e), "na", vec![], ppo, co));
            None
        }
        Err(p) => {
            out.put(rec(json!([]), "load", "na", "na", "panic", &p, "na", vec![], "na", "na"));
            None
        }
    };
    let (base, route) = match &file_doc {
        Some(d) => (d.clone(), "file"),
        None => (enc.clone(), "mem"), // the loader already consumed the document: drive decrypt() on the in-memory one
    };
    for c in &g.tries {
        let pw = pw_string(&c["try"]);
        let yn = |r: Result<bool, String>| match r {
            Ok(true) => "yes",
            Ok(false) => "no",
            Err(_) => "panic",
        };
        let au = yn(guarded(|| base.authenticate_user_password(&pw).is_ok()));
        let ao = yn(guarded(|| base.authenticate_owner_password(&pw).is_ok()));
        // the file key lopdf derives for this password
        let fkq = match guarded(|| {
            let alg = lopdf::encryption::PasswordAlgorithm::try_from(&base).map_err(|e| e.to_string())?;
            let raw = alg.sanitize_password(&pw).map_err(|e| e.to_string())?;
            EncryptionState::decode(&base, &raw).map(|s| s.file_encryption_key().to_vec()).map_err(|e| e.to_string())
        }) {
            Ok(Ok(k)) => {
                if k == fk {
                    "eq"
                } else {
                    "ne"
                }
            }
            _ => "na",
        };
        let mut d = base.clone();
        let (res, err, bad) = match guarded(|| d.decrypt(&pw)) {
            Ok(Ok(())) => ("ok", String::new(), judge_plain(&rd, &d)),
            Ok(Err(e)) => ("err", lopdf_err(&e), vec![]),
            Err(p) => ("panic", p, vec![]),
        };
        // diagnosis for revisions 5-6: does the same attempt succeed when /Perms holds the unencrypted block?
        let mut ppo = "na";
        if cfg.r >= 5 && res == "err" {
            let mut d2 = base.clone();
            set_perms(&mut d2, rd.enc_id, perms_plain_block());
            ppo = match guarded(|| d2.decrypt(&pw)) {
                Ok(Ok(())) if judge_plain(&rd, &d2).iter().all(|k| *k == "str.streamdict") => "yes",
                _ => "no",
            };
        }
        let expected = c["expUser"] == json!(true) || c["expOwner"] == json!(true);
        let co = if expected && (res != "ok" || !bad.is_empty()) { canon_opens(&pw) } else { "na" };
        let mut r = rec(c["try"].clone(), route, au, ao, res, &err, fkq, bad, ppo, co);
        r["expUser"] = c["expUser"].clone();
        r["expOwner"] = c["expOwner"].clone();
        out.put(r);
    }
}

/// Text conversions through the public API (a font dictionary's encoding, Document::encode_text) - what any earlier
/// text editing in the same process does.
fn disturb(hist: &[String]) {
    let doc = Document::with_version("1.7");
    for e in hist {
        let font = dict(vec![
            ("Type", name("Font")),
            ("Subtype", name("Type1")),
            ("BaseFont", name("Helvetica")),
            ("Encoding", name(&format!("{e}Encoding"))),
        ]);
        let enc = font.get_font_encoding(&doc).unwrap_or_else(|err| panic!("no encoding {e}: {err}"));
        let bytes = Document::encode_text(&enc, "a\u{20ac}\u{2022}\u{2020}\u{e9}\u{fc} z");
        assert!(bytes.len() >= 3, "encode_text({e}) produced {bytes:?}");
    }
}

// ====================================================================== main

fn main() {
    let args: Vec<String> = std::env::args().collect();
    if let Err(e) = kats() {
        eprintln!("c06: the interpreter's primitives fail their known-answer tests: {e}");
        std::process::exit(2);
    }
    let cmd = args.get(1).map(|s| s.as_str()).unwrap_or("");
    if cmd == "selftest" {
        println!("c06: known-answer tests passed");
        return;
    }
    // History: before anything is judged, this process converts text with the named predefined one-byte encodings
    // through the public API, in the given order (MC_SecurityAlgorithms!Disturb).  One process per order.
    let hist: Vec<String> = arg(&args, "--hist").map(|h| h.split(',').filter(|x| !x.is_empty()).map(|x| x.to_string()).collect()).unwrap_or_default();
    disturb(&hist);
    let seed = arg_u64(&args, "--seed", 1);
    let n = arg_u64(&args, "--n", 50) as usize;
    let (lines, groups) = load_terms(&arg(&args, "--terms").expect("--terms"));
    assert!(!lines.is_empty() && !groups.is_empty(), "no TERMS / CASE lines");
    let outp = arg(&args, "--out").expect("--out");
    let dir: &'static str = match cmd {
        "record" => "V",
        "gen" => "G",
        _ => {
            eprintln!("usage: c06 selftest | record|gen --terms T --seed S --n N --out O");
            std::process::exit(2);
        }
    };
    let mut out = Out { out: NdjsonOut::create(&outp), dir, doc: 0, cfg: json!({}), absent: false, user_empty: false, user: json!([]), owner: json!([]), hist: json!(hist), feature: json!("none") };
    // the groups in a seeded order; n >= groups.len() visits every (configuration, password pair)
    let mut order: Vec<usize> = (0..groups.len()).collect();
    Rng::new(seed ^ 0xC06).shuffle(&mut order);
    // every configuration early: first one group per TERMS line
    let mut seen = BTreeSet::new();
    let mut front: Vec<usize> = vec![];
    let mut back: Vec<usize> = vec![];
    for gi in order {
        if seen.insert(groups[gi].line) {
            front.push(gi)
        } else {
            back.push(gi)
        }
    }
    front.extend(back);
    if !hist.is_empty() {
        // disturbed processes: first the groups whose passwords have characters on which the encodings differ
        let sensitive = |g: &Group| [&g.user, &g.owner].iter().any(|p| p.as_array().map(|a| a.iter().any(|s| s["txt"].as_array().map(|t| !t.is_empty()).unwrap_or(false))).unwrap_or(false));
        let (mut a, b): (Vec<usize>, Vec<usize>) = front.iter().partition(|gi| sensitive(&groups[**gi]));
        a.extend(b);
        front = a;
    }
    // --part k/m: this process handles the documents i with i mod m = k (the check runs the parts side by side)
    let (pk, pmod) = arg(&args, "--part")
        .map(|p| {
            let (a, b) = p.split_once('/').expect("--part k/m");
            (a.parse::<usize>().unwrap(), b.parse::<usize>().unwrap())
        })
        .unwrap_or((0, 1));
    for i in (0..n).filter(|i| i % pmod == pk) {
        let gi = front[i % front.len()];
        let g = &groups[gi];
        let line = &lines[g.line];
        let mut rng = Rng::new(seed.wrapping_mul(1_000_003).wrapping_add(i as u64 * 7919 + if dir == "G" { 1 } else { 2 }));
        out.doc = i;
        out.cfg = line.cfg.json();
        out.absent = g.owner.as_array().map(|a| a.is_empty()).unwrap_or(true);
        out.user_empty = g.user.as_array().map(|a| a.is_empty()).unwrap_or(true);
        out.user = g.user.clone();
        out.owner = g.owner.clone();
        assert_eq!(out.absent && line.cfg.r <= 4, line.cfg.absent, "TERMS / CASE mismatch on the absent owner password");
        let huge = i % 97 == 13;
        // One deviation from the canonical document at a time, every second document canonical: another legal form of the
        // Length entry, another legal form of the dictionary (SecurityAlgorithms!Forms), optional content (Features).
        // Configurations with the Identity filter vary the forms only.
        let k = i + seed as usize;
        let id_cfg = line.cfg.stmf == "Identity" || line.cfg.strf == "Identity";
        if dir == "V" {
            let feats: &[&str] = if id_cfg { &["none"] } else { &["none", "sig", "none", "crypt"] };
            out.feature = json!(feats[k % feats.len()]);
            record_one(&mut out, line, g, &mut rng, huge, feats[k % feats.len()]);
        } else {
            let mut variants: Vec<(i64, String, &str)> = vec![];
            for l in line.lengths.iter().filter(|l| **l != line.canon_length && !id_cfg) {
                variants.push((*l, "canon".into(), "none"));
            }
            for f in line.forms.iter().filter(|f| *f != "canon" && (!id_cfg || f.ends_with(".absent"))) {
                variants.push((line.canon_length, f.clone(), "none"));
            }
            if !id_cfg {
                variants.push((line.canon_length, "canon".into(), "sig"));
                variants.push((line.canon_length, "canon".into(), "crypt"));
            }
            let (dlen, form, feature) = if k % 2 == 0 { (line.canon_length, "canon".to_string(), "none") } else { variants[(k / 2) % variants.len()].clone() };
            out.feature = json!(feature);
            gen_one(&mut out, line, g, &mut rng, huge, dlen, &form, feature);
        }
    }
    out.out.finish();
}
