//! C02 — files written by the specification's Producer are loaded by lopdf.
//! `docs`: seeded abstract documents (file-side values) for Gen_File.tla.
//! `load`: each generated file is loaded with lopdf; the file bytes and the projected result are
//!         logged as File / Load events for Trace_Lifecycle.
use lopdf::{Document, Object};
use lopdf_conform::{gen, guard::guarded, io::*, rng::Rng, wire::*};
use serde_json::{json, Value};

/// direct, non-stream object suitable as a member of an object stream
fn compressible(o: &Object) -> bool {
    !matches!(o, Object::Stream(_) | Object::Reference(_))
}

fn docs(args: &[String]) {
    let seed = arg_u64(args, "--seed", 1);
    let n = arg_u64(args, "--n", 40);
    let max_objects = arg_u64(args, "--max-objects", 6) as usize;
    let max_revs = arg_u64(args, "--max-revs", 1) as usize;
    let deep = arg_u64(args, "--deep", 0) == 1;
    // beyond the statement of C02: updates may delete objects (free entries) and use a freed number again with the
    // next generation.  Off by default; nothing below draws from the generator unless it is on.
    let free_mode = arg_u64(args, "--free", 0) == 1;
    let mut out = NdjsonOut::create(&arg(args, "--out").unwrap());
    let mut rng = Rng::new(seed ^ 0xC02);
    for i in 0..n {
        let mut doc = gen::random_document(&mut rng, max_objects, i % 3 != 0, false);
        // (C08 file set) containers nested beyond the loader's documented limit next to ones exactly at the limit
        if deep && i % 3 == 0 {
            let mut nx = doc.objects.keys().map(|k| k.0).max().unwrap_or(0);
            for d in [49usize, 55, 48, 48, 48, 47] {
                nx += 1;
                doc.objects.insert((nx, 0), gen::nested(d, d % 2 == 0, Object::Integer(d as i64)));
            }
            doc.max_id = nx;
        }
        // every fifth document holds the integers at the ends of the object model's range (and just inside them): a
        // token that fits is an integer object, whatever a number lexer does with overflow
        if i % 5 == 1 {
            let nx = doc.objects.keys().map(|k| k.0).max().unwrap_or(0) + 1;
            let edge = [i64::MIN, i64::MIN + 1, i64::MAX, i64::MAX - 1, -i64::MAX, 0, -1, 1_000_000_000_000_000_000, -1_000_000_000_000_000_000];
            doc.objects.insert((nx, 0), Object::Array(edge.iter().map(|v| Object::Integer(*v)).collect()));
            doc.max_id = doc.max_id.max(nx);
        }
        // (C08 file set) several streams whose Length is an indirect object: when the Producer puts the integers into an
        // object stream, lopdf fills these streams in after the parallel phase ("deferred streams")
        let mut force: Vec<(u32, u16)> = vec![];
        if deep && i % 3 != 0 {
            let mut nx = doc.objects.keys().map(|k| k.0).max().unwrap_or(0);
            for k in 0..3 + rng.below(3) {
                nx += 1;
                let body: Vec<u8> = (0..5 + rng.below(30)).map(|j| b"deferred stream body "[(j + k) % 21]).collect();
                doc.objects.insert((nx, 0), Object::Stream(lopdf::Stream::new(lopdf::Dictionary::new(), body)));
                force.push((nx, 0));
            }
            doc.max_id = nx;
        }
        // indirect stream lengths: for some streams, Length becomes a reference to a new integer object
        let stream_ids: Vec<_> = doc.objects.iter().filter(|(_, o)| matches!(o, Object::Stream(_))).map(|(id, _)| *id).collect();
        let mut next = doc.objects.keys().map(|k| k.0).max().unwrap_or(0);
        let mut length_objs: Vec<(u32, u16)> = vec![];
        for id in stream_ids {
            let content_has_kw = {
                let s = doc.objects[&id].as_stream().unwrap();
                s.content.windows(9).any(|w| w == b"endstream")
            };
            if (force.contains(&id) || rng.chance(1, 2)) && !content_has_kw {
                next += 1;
                let len = doc.objects[&id].as_stream().unwrap().content.len() as i64;
                doc.objects.insert((next, 0), Object::Integer(len));
                length_objs.push((next, 0));
                if let Some(Object::Stream(s)) = doc.objects.get_mut(&id) {
                    s.dict.set("Length", Object::Reference((next, 0)));
                }
            } else if let Some(Object::Stream(s)) = doc.objects.get_mut(&id) {
                s.dict.remove(b"Length");
            }
        }
        // history: revision 1 = the document; each update replaces a random subset and adds objects
        let nrevs = 1 + rng.below(max_revs);
        let g = gen::DocGen { max_depth: 2, ids: doc.objects.keys().copied().collect(), hostile_names: i % 3 != 0, allow_big_reals: false };
        let mut revs: Vec<Value> = vec![];
        let mut live: Vec<(u32, u16)> = doc.objects.keys().copied().collect();
        let mut current: Vec<((u32, u16), Object)> = doc.objects.iter().map(|(k, v)| (*k, v.clone())).collect();
        let mut trailer = doc.trailer.clone();
        let mut freed: Vec<(u32, u16)> = vec![]; // numbers that are free now, with the generation of their next use
        for r in 0..nrevs {
            let mut free_now: Vec<(u32, u16)> = vec![];
            if r > 0 {
                current.clear();
                if free_mode {
                    // delete some live objects (never the integer a stream's Length refers to)
                    for id in live.clone() {
                        if !length_objs.contains(&id) && id.1 < 65535 && rng.chance(1, 4) {
                            live.retain(|x| *x != id);
                            free_now.push((id.0, id.1 + 1));
                        }
                    }
                }
                // replace a random subset of live objects (keeping their generation), add 0-2 new ones
                for id in live.clone() {
                    // (a stream's Length object keeps its value: replacing it would make the file invalid)
                    if rng.chance(1, 3) && !length_objs.contains(&id) {
                        current.push((id, g.object(&mut rng, 0)));
                    }
                }
                for _ in 0..rng.below(3) {
                    // (free mode) a number freed by an earlier revision may be used again, with the recorded generation
                    let id = if free_mode && !freed.is_empty() && rng.chance(1, 2) {
                        freed.remove(rng.below(freed.len()))
                    } else {
                        next += 1;
                        (next, 0)
                    };
                    live.push(id);
                    current.push((id, if rng.chance(1, 4) { g.stream(&mut rng) } else { g.object(&mut rng, 0) }));
                }
                if current.is_empty() && !(free_mode && !free_now.is_empty() && rng.chance(1, 2)) {
                    // an update revision defines at least one object (or, in free mode, deletes at least one)
                    if live.is_empty() || rng.chance(1, 2) {
                        next += 1;
                        live.push((next, 0));
                        current.push(((next, 0), g.object(&mut rng, 0)));
                    } else {
                        let cands: Vec<_> = live.iter().filter(|id| !length_objs.contains(id)).copied().collect();
                        if cands.is_empty() {
                            next += 1;
                            live.push((next, 0));
                            current.push(((next, 0), g.object(&mut rng, 0)));
                        } else {
                            let id = *rng.pick(&cands);
                            current.push((id, g.object(&mut rng, 0)));
                        }
                    }
                }
                for (_, o) in current.iter_mut() {
                    if let Object::Stream(s) = o {
                        s.dict.remove(b"Length");
                    }
                }
                if rng.chance(1, 2) && !live.is_empty() {
                    trailer.set("Info", Object::Reference(*rng.pick(&live)));
                }
            }
            // object streams: generation-0 containers/arrays/strings/names may be stored compressed
            let mut plain: Vec<Value> = vec![];
            let mut groups: Vec<Vec<Value>> = vec![vec![], vec![]];
            for (id, o) in &current {
                if id.1 == 0 && compressible(o) && rng.chance(1, 2) {
                    let gidx = rng.below(2);
                    groups[gidx].push(json!([id.0, obj_to_file_tla(o)]));
                } else {
                    plain.push(json!([id.0, id.1, obj_to_file_tla(o)]));
                }
            }
            let mut comp: Vec<Value> = vec![];
            for mut gmembers in groups {
                // the members of an object stream may stand in any order (a producer writes them as it meets them)
                match rng.below(3) {
                    0 => gmembers.reverse(),
                    1 if gmembers.len() >= 3 => gmembers.rotate_left(1),
                    _ => {}
                }
                if !gmembers.is_empty() {
                    next += 1;
                    let cnum = next;
                    let mut group = json!({"cnum": cnum, "members": gmembers});
                    // one group in three has N and / or First behind a reference to an integer object of the
                    // document (7.3.10 allows it for any dictionary value; the Producer pads the header up to fval)
                    if rng.chance(1, 3) {
                        let count = group["members"].as_array().unwrap().len() as i64;
                        let which = rng.below(3);
                        if which != 1 {
                            next += 1;
                            plain.push(json!([next, 0, obj_to_file_tla(&Object::Integer(count))]));
                            live.push((next, 0));
                            length_objs.push((next, 0));
                            group["nref"] = json!(next);
                        }
                        if which != 0 {
                            next += 1;
                            let fval = 16 * count + rng.below(9) as i64;
                            plain.push(json!([next, 0, obj_to_file_tla(&Object::Integer(fval))]));
                            live.push((next, 0));
                            length_objs.push((next, 0));
                            group["fref"] = json!(next);
                            group["fval"] = json!(fval);
                        }
                    }
                    comp.push(group);
                }
            }
            if free_mode {
                let fr: Vec<Value> = free_now.iter().map(|(n, g)| json!([n, g])).collect();
                revs.push(json!({"objects": plain, "comp": comp, "trailer": dict_to_file_tla(&trailer), "free": fr}));
                freed.extend(free_now);
            } else {
                revs.push(json!({"objects": plain, "comp": comp, "trailer": dict_to_file_tla(&trailer)}));
            }
        }
        out.put(&json!({
            "version": bytes_to_json(doc.version.as_bytes()),
            "binmark": bytes_to_json(&[0xE2u8, 0xE3, 0xCF, 0xD3]),
            "revs": revs,
        }));
    }
    out.finish();
}

fn load(args: &[String]) {
    // few worker threads: more history per thread (state leaking across loads shows up sooner)
    let _ = rayon::ThreadPoolBuilder::new().num_threads(2).build_global();
    let cases = read_ndjson(&arg(args, "--in").unwrap());
    let mut out = NdjsonOut::create(&arg(args, "--out").unwrap());
    for (i, c) in cases.iter().enumerate() {
        let all = json_to_bytes(&c["bytes"]);
        let knobs = json!({"xref": c["xref"], "w": c["w"], "order": c["order"], "junk": c["junk"], "doc": c["doc"],
                           "nrevs": c["nrevs"], "ncomp": c["ncomp"], "redefined": c["redefined"]});
        // the whole file, then (for histories) every prefix that ends at a revision boundary
        let mut cuts: Vec<usize> = vec![all.len()];
        if let Some(cs) = c["cuts"].as_array() {
            for x in cs.iter().rev().skip(1) {
                cuts.push(x.as_u64().unwrap() as usize);
            }
        }
        for (pi, cut) in cuts.iter().enumerate() {
            let bytes = &all[..*cut];
            out.put(&json!({"ev": "File", "case": i, "prefix": pi, "bytes": bytes_to_json(bytes), "knobs": knobs}));
            match guarded(|| Document::load_mem(bytes)) {
                Ok(Ok(d)) => out.put(&json!({"ev": "Load", "case": i, "res": "ok", "doc": doc_to_tla(&d)})),
                Ok(Err(e)) => out.put(&json!({"ev": "Load", "case": i, "res": format!("err:{e:?}"), "doc": doc_to_tla(&Document::new())})),
                Err(p) => out.put(&json!({"ev": "Load", "case": i, "res": format!("panic:{p}"), "doc": doc_to_tla(&Document::new())})),
            }
        }
    }
    out.finish();
}

fn main() {
    let args: Vec<String> = std::env::args().collect();
    match args.get(1).map(String::as_str) {
        Some("docs") => docs(&args),
        Some("load") => load(&args),
        _ => {
            eprintln!("usage: c02 docs --seed S --n N [--max-objects K --max-revs R --deep 0|1 --free 0|1] --out F | load --in F --out F");
            std::process::exit(2)
        }
    }
}
