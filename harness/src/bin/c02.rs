//! C02 — files written by the specification's Producer are loaded by lopdf.
//! `docs`: seeded abstract documents (file-side values) for Gen_File.tla.
//! `load`: each generated file is loaded with lopdf; the file bytes and the projected result are
//!         logged as File / Load events for Trace_Lifecycle.
use lopdf::{Document, Object};
use lopdf_conform::{gen, guard::guarded, io::*, rng::Rng, wire::*};
use serde_json::{json, Value};

fn docs(args: &[String]) {
    let seed = arg_u64(args, "--seed", 1);
    let n = arg_u64(args, "--n", 40);
    let max_objects = arg_u64(args, "--max-objects", 6) as usize;
    let mut out = NdjsonOut::create(&arg(args, "--out").unwrap());
    let mut rng = Rng::new(seed ^ 0xC02);
    for i in 0..n {
        let mut doc = gen::random_document(&mut rng, max_objects, i % 3 != 0, false);
        // the header line must be a comment the reader can delimit: keep versions printable
        // indirect stream lengths: for some streams, Length becomes a reference to a new integer object
        let stream_ids: Vec<_> = doc.objects.iter().filter(|(_, o)| matches!(o, Object::Stream(_))).map(|(id, _)| *id).collect();
        let mut next = doc.objects.keys().map(|k| k.0).max().unwrap_or(0);
        for id in stream_ids {
            let content_has_kw = {
                let s = doc.objects[&id].as_stream().unwrap();
                s.content.windows(9).any(|w| w == b"endstream")
            };
            if rng.chance(1, 2) && !content_has_kw {
                next += 1;
                let len = doc.objects[&id].as_stream().unwrap().content.len() as i64;
                doc.objects.insert((next, 0), Object::Integer(len));
                if let Some(Object::Stream(s)) = doc.objects.get_mut(&id) {
                    s.dict.set("Length", Object::Reference((next, 0)));
                }
            } else if let Some(Object::Stream(s)) = doc.objects.get_mut(&id) {
                s.dict.remove(b"Length");
            }
        }
        // file-side projection
        let objects: Vec<Value> = doc.objects.iter().map(|(id, o)| json!([id.0, id.1, obj_to_file_tla(o)])).collect();
        out.put(&json!({
            "version": bytes_to_json(doc.version.as_bytes()),
            "binmark": bytes_to_json(&[0xE2u8, 0xE3, 0xCF, 0xD3]),
            "trailer": dict_to_file_tla(&doc.trailer),
            "objects": objects,
        }));
    }
    out.finish();
}

fn load(args: &[String]) {
    let cases = read_ndjson(&arg(args, "--in").unwrap());
    let mut out = NdjsonOut::create(&arg(args, "--out").unwrap());
    for (i, c) in cases.iter().enumerate() {
        let bytes = json_to_bytes(&c["bytes"]);
        out.put(&json!({"ev": "File", "case": i, "bytes": c["bytes"], "knobs": {"xref": c["xref"], "w": c["w"], "order": c["order"], "junk": c["junk"], "doc": c["doc"]}}));
        match guarded(|| Document::load_mem(&bytes)) {
            Ok(Ok(d)) => out.put(&json!({"ev": "Load", "case": i, "res": "ok", "doc": doc_to_tla(&d)})),
            Ok(Err(e)) => out.put(&json!({"ev": "Load", "case": i, "res": format!("err:{e:?}"), "doc": doc_to_tla(&Document::new())})),
            Err(p) => out.put(&json!({"ev": "Load", "case": i, "res": format!("panic:{p}"), "doc": doc_to_tla(&Document::new())})),
        }
    }
    out.finish();
}

fn main() {
    let args: Vec<String> = std::env::args().collect();
    match args.get(1).map(String::as_str) {
        Some("docs") => docs(&args),
        Some("load") => load(&args),
        _ => {
            eprintln!("usage: c02 docs --seed S --n N --out F | load --in F --out F");
            std::process::exit(2)
        }
    }
}
