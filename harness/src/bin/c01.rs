//! C01 / C03 — save then load.  `record`: seeded random documents are saved (both cross-reference
//! formats), loaded, saved and loaded again; every call is logged (projected state before the call,
//! produced bytes, projected state after loading) for Trace_Lifecycle.
use lopdf::xref::XrefType;
use lopdf::{Document, IncrementalDocument, Object};
use lopdf_conform::{gen, guard::guarded, io::*, rng::Rng, wire::*};
use serde_json::{json, Value};

/// bytes of payload (strings, names, stream contents) and number of values in an object
fn payload(o: &Object, acc: &mut (usize, usize)) {
    acc.1 += 1;
    match o {
        Object::String(b, _) | Object::Name(b) => acc.0 += b.len(),
        Object::Array(a) => a.iter().for_each(|x| payload(x, acc)),
        Object::Dictionary(d) => d.iter().for_each(|(k, v)| {
            acc.0 += k.len();
            payload(v, acc)
        }),
        Object::Stream(s) => {
            acc.0 += s.content.len();
            s.dict.iter().for_each(|(k, v)| {
                acc.0 += k.len();
                payload(v, acc)
            });
        }
        _ => {}
    }
}

fn save(doc: &mut Document) -> Result<Vec<u8>, String> {
    let mut out = Vec::new();
    // No serialisation of a value needs more than 4 bytes per payload byte (octal escapes) plus a few dozen bytes per value
    // (numbers, brackets, separators, object framing, one cross-reference entry): a file far beyond that cannot be what the
    // document says, and is reported as such instead of being handed to TLC (whose heap it would exhaust).
    let mut acc = (0usize, 0usize);
    doc.objects.values().for_each(|o| payload(o, &mut acc));
    doc.trailer.iter().for_each(|(k, v)| {
        acc.0 += k.len();
        payload(v, &mut acc)
    });
    let bound = 8 * acc.0 + 128 * acc.1 + 256 * (doc.objects.len() + 1) + 100_000;
    match guarded(|| doc.save_to(&mut out)) {
        Ok(Ok(())) if out.len() > bound => Err(format!("oversize: {} bytes written for {} payload bytes in {} values", out.len(), acc.0, acc.1)),
        Ok(Ok(())) => Ok(out),
        Ok(Err(e)) => Err(format!("err:{e}")),
        Err(p) => Err(format!("panic:{p}")),
    }
}

fn load(bytes: &[u8]) -> Result<Document, String> {
    match guarded(|| Document::load_mem(bytes)) {
        Ok(Ok(d)) => Ok(d),
        Ok(Err(e)) => Err(format!("err:{e:?}")),
        Err(p) => Err(format!("panic:{p}")),
    }
}

/// Calls that must not influence later ones: the property holds for every document whatever the process did
/// before.  Between cases the driver loads rejected / unusual inputs on the same threads (state that leaks
/// across calls - thread-local counters, caches keyed on addresses - then shows up in the next case).
fn disturb(rng: &mut Rng) {
    use lopdf::content::Content;
    match rng.below(6) {
        0 => {
            // an object nested deeper than the parser accepts (the object is rejected, the load succeeds)
            let mut d = Document::with_version("1.7");
            d.objects.insert((1, 0), gen::nested(49 + rng.below(30), rng.chance(1, 2), Object::Integer(1)));
            d.objects.insert((2, 0), gen::nested(48, rng.chance(1, 2), Object::Integer(1)));
            d.max_id = 2;
            let mut b = Vec::new();
            let _ = guarded(|| d.save_to(&mut b));
            let _ = guarded(|| Document::load_mem(&b));
        }
        1 => {
            // many empty containers
            let mut d = Document::with_version("1.7");
            d.objects.insert((1, 0), Object::Array((0..80).map(|i| if i % 2 == 0 { Object::Array(vec![]) } else { Object::Dictionary(lopdf::Dictionary::new()) }).collect()));
            d.max_id = 1;
            let mut b = Vec::new();
            let _ = guarded(|| d.save_to(&mut b));
            let _ = guarded(|| Document::load_mem(&b));
        }
        2 => {
            for _ in 0..50 {
                let _ = guarded(|| Content::decode(b"[ [ [ (unterminated"));
                let _ = guarded(|| Content::decode(b"<< /A << /B [ 1 2"));
            }
        }
        3 => {
            let _ = guarded(|| Document::load_mem(b"%PDF-1.4\n1 0 obj\n[[[[[[\nendobj\nxref\n0 1\n0000000000 65535 f \ntrailer\n<</Size 2>>\nstartxref\n32\n%%EOF"));
        }
        4 => {
            let _ = guarded(|| Document::load_mem(&[0x25, 0x50, 0x44, 0x46, 0x2d, 0xff, 0xfe, 0x00]));
        }
        _ => {}
    }
}

/// largest sizes inside a document, per kind: [hex string, literal string, name, array, stream content]
fn sizes(o: &Object, acc: &mut [usize; 5]) {
    match o {
        Object::String(b, lopdf::StringFormat::Hexadecimal) => acc[0] = acc[0].max(b.len()),
        Object::String(b, _) => acc[1] = acc[1].max(b.len()),
        Object::Name(n) => acc[2] = acc[2].max(n.len()),
        Object::Array(a) => {
            acc[3] = acc[3].max(a.len());
            a.iter().for_each(|x| sizes(x, acc));
        }
        Object::Dictionary(d) => d.iter().for_each(|(k, v)| {
            acc[2] = acc[2].max(k.len());
            sizes(v, acc)
        }),
        Object::Stream(s) => {
            acc[4] = acc[4].max(s.content.len());
            s.dict.iter().for_each(|(k, v)| {
                acc[2] = acc[2].max(k.len());
                sizes(v, acc)
            });
        }
        _ => {}
    }
}

fn record(args: &[String]) {
    // few worker threads: more history per thread
    let _ = rayon::ThreadPoolBuilder::new().num_threads(2).build_global();
    let seed = arg_u64(args, "--seed", 1);
    let n = arg_u64(args, "--n", 50);
    let max_objects = arg_u64(args, "--max-objects", 8) as usize;
    let mut out = NdjsonOut::create(&arg(args, "--out").unwrap());
    let mut rng = Rng::new(seed);
    for case in 0..n {
        let hostile = case % 3 != 0;
        let mut doc = gen::random_document(&mut rng, max_objects, hostile, true);
        // half of the documents are first taken through a few public editing calls, so that save/load is also
        // exercised on states reached by editing (compressed streams, renumbered ids, pruned graphs, ...)
        if case % 2 == 1 {
            for _ in 0..1 + rng.below(4) {
                let op = rng.below(7);
                let snapshot = doc.clone();
                let r = guarded(|| {
                    let mut d = snapshot.clone();
                    match op {
                        0 => d.compress(),
                        1 => d.decompress(),
                        2 => d.renumber_objects(),
                        3 => {
                            d.prune_objects();
                        }
                        4 => {
                            d.add_object(Object::string_literal("added"));
                        }
                        5 => {
                            if let Some(id) = d.objects.keys().next().copied() {
                                d.delete_object(id);
                            }
                        }
                        _ => d.delete_zero_length_streams().clear(),
                    }
                    d
                });
                if let Ok(d) = r {
                    // stay inside C01's domain: distinct object numbers (a file has one entry per number)
                    let mut nums: Vec<u32> = d.objects.keys().map(|k| k.0).collect();
                    nums.sort();
                    let distinct = nums.windows(2).all(|w| w[0] != w[1]);
                    if distinct {
                        doc = d;
                    }
                }
            }
        }
        // size boundaries: now and then the last object is a stream that carries the cross-reference section
        // across a power of 256 (offsets needing one more byte than every object header offset)
        if case % 40 == 7 || case % 40 == 28 {
            let last = doc.max_id + 1;
            let size = 65_536 - 700 + rng.below(600);
            let body: Vec<u8> = (0..size).map(|i| b"0123456789abcdef \n"[i % 18]).collect();
            doc.objects.insert((last, 0), Object::Stream(lopdf::Stream::new(lopdf::Dictionary::new(), body)));
            doc.max_id = last;
        }
        // size boundaries of strings: every fifth document carries a hexadecimal and a literal string whose lengths
        // walk through the power-of-two boundaries
        if case % 5 == 3 {
            let lens = [255usize, 256, 257, 511, 512, 513, 1023, 1024, 1025, 4095, 4096, 4097];
            let (a, b) = (lens[(case as usize / 5) % lens.len()], lens[(case as usize / 5 * 7 + 3) % lens.len()]);
            let last = doc.max_id + 1;
            doc.objects.insert((last, 0), Object::Array(vec![
                Object::String(gen::long_bytes(&mut rng, a), lopdf::StringFormat::Hexadecimal),
                Object::String(gen::long_bytes(&mut rng, b), lopdf::StringFormat::Literal),
            ]));
            // ... and an array, a name and a stream content of boundary sizes
            let c = [127usize, 128, 129, 255, 256, 257, 511, 512, 513][(case as usize / 5) % 9];
            let mut d = lopdf::Dictionary::new();
            d.set((0..c).map(|i| b"keyK"[i % 4]).collect::<Vec<u8>>(), Object::Array((0..c * 2).map(|i| Object::Integer(i as i64 - 300)).collect()));
            doc.objects.insert((last + 1, 0), Object::Stream(lopdf::Stream::new(d, gen::long_bytes(&mut rng, c * 16 + (case as usize % 3)))));
            doc.max_id = last + 1;
        }
        // keys and type names that mean something to the writer, in ordinary objects: a dictionary is the
        // linearization parameter dictionary (not written again) only if it has /Linearized and NO /Type entry;
        // with a /Type entry of any kind - a name, or the legal indirect spelling, or a value of another kind - it
        // is an object of the document like any other.  Every fourth document has one.
        if case % 4 == 1 {
            let last = doc.objects.keys().map(|k| k.0).max().unwrap_or(0).max(doc.max_id) + 1;
            let ty = match (case / 4) % 6 {
                0 => Object::Name(b"Catalog".to_vec()),
                1 => Object::Name(b"Linearized".to_vec()),
                2 => Object::Reference((last + 1, 0)),
                3 => Object::Integer(1),
                4 => Object::string_literal("XRef"),
                _ => Object::Array(vec![Object::Name(b"ObjStm".to_vec())]),
            };
            let mut d = lopdf::Dictionary::new();
            d.set("Linearized", Object::Integer(1));
            d.set("Type", ty);
            d.set("L", Object::Integer(case as i64));
            doc.objects.insert((last, 0), Object::Dictionary(d));
            doc.objects.insert((last + 1, 0), Object::Name(b"XRef".to_vec()));
            doc.max_id = last + 1;
        }
        // objects stored with set_object / direct inserts do not maintain max_id: every seventh document has a stale one
        if case % 7 == 4 {
            doc.max_id = rng.below(doc.max_id as usize + 1) as u32;
        }
        let fmt = if case % 2 == 0 { "table" } else { "stream" };
        doc.reference_table.cross_reference_type =
            if fmt == "table" { XrefType::CrossReferenceTable } else { XrefType::CrossReferenceStream };
        let mut sz = [0usize; 5];
        doc.objects.values().for_each(|o| sizes(o, &mut sz));
        out.put(&json!({"ev": "Reset", "case": case, "sizes": sz}));
        disturb(&mut rng);
        let mut cur = doc;
        let mut first_bytes: Option<Vec<u8>> = None;
        let mut saved_mem: Option<Document> = None;
        for cycle in 1..=2 {
            let before = doc_to_tla(&cur);
            match save(&mut cur) {
                Ok(bytes) => {
                    out.put(&json!({"ev": "Save", "case": case, "cycle": cycle, "fmt": fmt, "doc": before, "res": "ok", "bytes": bytes_to_json(&bytes)}));
                    if cycle == 1 {
                        first_bytes = Some(bytes.clone());
                        saved_mem = Some(cur.clone());
                    }
                    match load(&bytes) {
                        Ok(d) => {
                            out.put(&json!({"ev": "Load", "case": case, "cycle": cycle, "res": "ok", "doc": doc_to_tla(&d)}));
                            cur = d;
                        }
                        Err(e) => {
                            out.put(&json!({"ev": "Load", "case": case, "cycle": cycle, "res": e, "doc": doc_to_tla(&Document::new())}));
                            break;
                        }
                    }
                }
                Err(e) => {
                    out.put(&json!({"ev": "Save", "case": case, "cycle": cycle, "fmt": fmt, "doc": before, "res": e, "bytes": Value::Array(vec![])}));
                    break;
                }
            }
        }
        // the SAME in-memory document is saved a second time, untouched or after an edit (saving must not leave
        // state behind in the document that the next save trips over)
        if let Some(mut m) = saved_mem {
            let edited = guarded(|| {
                match case % 4 {
                    0 => {
                        m.add_object(Object::Integer(7));
                    }
                    1 => {}
                    2 => m.renumber_objects(),
                    _ => {
                        m.add_object(Object::string_literal("second save"));
                        m.add_object(Object::Name(b"Again".to_vec()));
                    }
                }
                m
            });
            if let Ok(mut m) = edited {
                let mut nums: Vec<u32> = m.objects.keys().map(|k| k.0).collect();
                nums.sort();
                if nums.windows(2).all(|w| w[0] != w[1]) {
                    let before = doc_to_tla(&m);
                    match save(&mut m) {
                        Ok(bytes) => {
                            out.put(&json!({"ev": "Save", "case": case, "cycle": 4, "fmt": fmt, "doc": before, "res": "ok", "bytes": bytes_to_json(&bytes)}));
                            match load(&bytes) {
                                Ok(d2) => out.put(&json!({"ev": "Load", "case": case, "cycle": 4, "res": "ok", "doc": doc_to_tla(&d2)})),
                                Err(e) => out.put(&json!({"ev": "Load", "case": case, "cycle": 4, "res": e, "doc": doc_to_tla(&Document::new())})),
                            }
                        }
                        Err(e) => out.put(&json!({"ev": "Save", "case": case, "cycle": 4, "fmt": fmt, "doc": before, "res": e, "bytes": Value::Array(vec![])})),
                    }
                }
            }
        }
        // every third case: a document loaded from a file with TWO revisions (made by an incremental update of
        // the first saved file) is saved plainly and loaded again
        if case % 3 == 2 {
            if let Some(b0) = first_bytes {
                if let Ok(Ok(mut inc)) = guarded(|| IncrementalDocument::load_from(&b0[..])) {
                    inc.new_document.add_object(Object::Integer(case as i64));
                    if let Some(id) = inc.get_prev_documents().objects.keys().next().copied() {
                        let _ = inc.opt_clone_object_to_new_document(id);
                    }
                    let mut two = Vec::new();
                    if matches!(guarded(|| inc.save_to(&mut two)), Ok(Ok(()))) {
                        out.put(&json!({"ev": "File", "case": case, "bytes": bytes_to_json(&two), "knobs": {"revisions": 2}}));
                        if let Ok(mut d) = load(&two) {
                            out.put(&json!({"ev": "Load", "case": case, "cycle": 3, "res": "ok", "doc": doc_to_tla(&d)}));
                            let before = doc_to_tla(&d);
                            if let Ok(bytes) = save(&mut d) {
                                out.put(&json!({"ev": "Save", "case": case, "cycle": 3, "fmt": fmt, "doc": before, "res": "ok", "bytes": bytes_to_json(&bytes)}));
                                match load(&bytes) {
                                    Ok(d2) => out.put(&json!({"ev": "Load", "case": case, "cycle": 3, "res": "ok", "doc": doc_to_tla(&d2)})),
                                    Err(e) => out.put(&json!({"ev": "Load", "case": case, "cycle": 3, "res": e, "doc": doc_to_tla(&Document::new())})),
                                }
                            }
                        }
                    }
                }
            }
        }
    }
    out.finish();
}

/// Files written by OTHER producers (the specification's Producer: multi-revision, object streams, hybrid-reference
/// sections, every filter form) are loaded and saved plainly: whatever the loader kept from the old file's
/// structure (Prev, XRefStm, W, Index, object streams, cross-reference streams) must not leak into the new file.
fn resave(args: &[String]) {
    let files = read_ndjson(&arg(args, "--in").unwrap());
    let mut out = NdjsonOut::create(&arg(args, "--out").unwrap());
    for (i, f) in files.iter().enumerate() {
        let bytes = json_to_bytes(&f["bytes"]);
        out.put(&json!({"ev": "Reset", "case": i}));
        out.put(&json!({"ev": "File", "case": i, "bytes": bytes_to_json(&bytes), "knobs": {"resave": true}}));
        let mut d = match load(&bytes) {
            Ok(d) => d,
            Err(e) => {
                out.put(&json!({"ev": "Load", "case": i, "cycle": 5, "res": e, "doc": doc_to_tla(&Document::new())}));
                continue;
            }
        };
        out.put(&json!({"ev": "Load", "case": i, "cycle": 5, "res": "ok", "doc": doc_to_tla(&d)}));
        let fmt = if i % 2 == 0 { "table" } else { "stream" };
        d.reference_table.cross_reference_type =
            if fmt == "table" { XrefType::CrossReferenceTable } else { XrefType::CrossReferenceStream };
        let before = doc_to_tla(&d);
        match save(&mut d) {
            Ok(b) => {
                out.put(&json!({"ev": "Save", "case": i, "cycle": 5, "fmt": fmt, "doc": before, "res": "ok", "bytes": bytes_to_json(&b)}));
                match load(&b) {
                    Ok(d2) => out.put(&json!({"ev": "Load", "case": i, "cycle": 5, "res": "ok", "doc": doc_to_tla(&d2)})),
                    Err(e) => out.put(&json!({"ev": "Load", "case": i, "cycle": 5, "res": e, "doc": doc_to_tla(&Document::new())})),
                }
            }
            Err(e) => out.put(&json!({"ev": "Save", "case": i, "cycle": 5, "fmt": fmt, "doc": before, "res": e, "bytes": Value::Array(vec![])})),
        }
    }
    out.finish();
}

/// Exhaustive byte-pair sweep (thorough tier): for every first byte a, one document whose 256
/// objects carry the two-byte content [a, b] for every b, as a name, a literal string, a
/// hexadecimal string, a dictionary key and a stream body.
fn pairs(args: &[String]) {
    use lopdf::{Dictionary, Object, Stream, StringFormat};
    let from = arg_u64(args, "--from", 0) as u16;
    let to = arg_u64(args, "--to", 256) as u16;
    let mut out = NdjsonOut::create(&arg(args, "--out").unwrap());
    let mut case = 0;
    for kind in ["name", "lit", "hex", "key", "stream"] {
        for a in from..to {
            let mut doc = Document::with_version("1.7");
            for b in 0..256u16 {
                let pair = vec![a as u8, b as u8];
                let o = match kind {
                    "name" => Object::Name(pair),
                    "lit" => Object::String(pair, StringFormat::Literal),
                    "hex" => Object::String(pair, StringFormat::Hexadecimal),
                    "key" => {
                        let mut d = Dictionary::new();
                        d.set(pair, Object::Integer(b as i64));
                        Object::Dictionary(d)
                    }
                    _ => Object::Stream(Stream::new(Dictionary::new(), pair)),
                };
                doc.objects.insert((b as u32 + 1, 0), o);
            }
            doc.max_id = 256;
            doc.trailer.set("Root", Object::Reference((1, 0)));
            let fmt = if (a as usize + kind.len()) % 2 == 0 { "table" } else { "stream" };
            doc.reference_table.cross_reference_type =
                if fmt == "table" { XrefType::CrossReferenceTable } else { XrefType::CrossReferenceStream };
            out.put(&json!({"ev": "Reset", "case": case}));
            let before = doc_to_tla(&doc);
            match save(&mut doc) {
                Ok(bytes) => {
                    out.put(&json!({"ev": "Save", "case": case, "cycle": 1, "fmt": fmt, "doc": before, "res": "ok", "bytes": bytes_to_json(&bytes), "sweep": kind, "first": a}));
                    match load(&bytes) {
                        Ok(d) => out.put(&json!({"ev": "Load", "case": case, "cycle": 1, "res": "ok", "doc": doc_to_tla(&d)})),
                        Err(e) => out.put(&json!({"ev": "Load", "case": case, "cycle": 1, "res": e, "doc": doc_to_tla(&Document::new())})),
                    }
                }
                Err(e) => out.put(&json!({"ev": "Save", "case": case, "cycle": 1, "fmt": fmt, "doc": before, "res": e, "bytes": Value::Array(vec![]), "sweep": kind, "first": a})),
            }
            case += 1;
        }
    }
    out.finish();
}

fn main() {
    let args: Vec<String> = std::env::args().collect();
    lopdf_conform::gen::set_long(true);
    match args.get(1).map(String::as_str) {
        Some("record") => record(&args),
        Some("pairs") => pairs(&args),
        Some("resave") => resave(&args),
        _ => {
            eprintln!("usage: c01 record --seed S --n N --out F");
            std::process::exit(2)
        }
    }
}
