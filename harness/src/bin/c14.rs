//! C14 — content streams survive encode and decode.
//!
//! Every subcommand writes an ndjson trace of public calls for spec/Trace_Content.tla:
//!   {"ev":"Given",  "bytes":[..], ...}                 content somebody else spelled (the TLA+ Producer, or `inline`)
//!   {"ev":"Encode", "ops":[..], "res":.., "bytes":[..]} Content{operations}.encode()
//!   {"ev":"Decode", "res":.., "ops":[..]}               Content::decode(bytes of the preceding Given / Encode)
//! Operations are projected document-side (wire::obj_to_tla: a real carries the exact decimal rounding
//! interval of its f32): [{"op":[bytes],"args":[obj..]}..].
//!
//! `record`  seeded random operation lists (gen.rs objects, every direct kind, hostile bytes), fixed
//!           special cases, the byte-pair sweep inside `Tj` strings and name operands, and a few
//!           probes outside the property's domain (tagged cls = "probe.*"): Encode -> Decode.
//! `cases`   seeded random operation lists as file-side values for the TLA+ Producer (Gen_Content).
//! `replay`  TLC-generated content (REPLAY lines): Given -> Decode -> Encode -> Decode.
//! `history` schedules of ContentHist (disturbances = decoding damaged input, per thread) around judged calls:
//!           Reset -> (Encode -> Decode)* -> Disturb* -> the same (Encode -> Decode)*.
//! `streams` operations decoded through a Stream value under filter chains (none, compress(), Flate, ASCII85, ASCIIHex,
//!           chains) and through a saved and loaded document: DecodeVia events, judged like Decode of the plain bytes.
//! `deep`    nesting at both limits (arrays / dictionaries around a literal string with nested parentheses) decoded on a
//!           2 MiB thread of a supervised worker process (`worker`; `--exe` may be a debug-profile build of this binary).
//! `inline`  seeded inline images (all supported colour spaces x BPC x small geometry, data with EI,
//!           white-space, delimiters): Given -> Decode -> Encode -> Decode.
use lopdf::content::{Content, Operation};
use lopdf::{Dictionary, Object, StringFormat};
use lopdf_conform::{gen, guard::guarded, io::*, rng::Rng, wire::*};
use serde_json::{json, Value};

fn ops_to_tla(ops: &[Operation]) -> Value {
    Value::Array(
        ops.iter()
            .map(|o| json!({"op": bytes_to_json(o.operator.as_bytes()), "args": Value::Array(o.operands.iter().map(obj_to_tla).collect())}))
            .collect(),
    )
}

fn ops_to_file_tla(ops: &[Operation]) -> Value {
    Value::Array(
        ops.iter()
            .map(|o| json!({"op": bytes_to_json(o.operator.as_bytes()), "args": Value::Array(o.operands.iter().map(obj_to_file_tla).collect())}))
            .collect(),
    )
}

fn encode(ops: &[Operation]) -> Result<Vec<u8>, String> {
    let c = Content { operations: ops.to_vec() };
    match guarded(|| c.encode()) {
        Ok(Ok(b)) => Ok(b),
        Ok(Err(e)) => Err(format!("err:{e:?}")),
        Err(p) => Err(format!("panic:{p}")),
    }
}

fn decode(bytes: &[u8]) -> Result<Vec<Operation>, String> {
    match guarded(|| Content::decode(bytes)) {
        Ok(Ok(c)) => Ok(c.operations),
        Ok(Err(e)) => Err(format!("err:{e:?}")),
        Err(p) => Err(format!("panic:{p}")),
    }
}

fn put_decode(out: &mut NdjsonOut, case: u64, cls: &str, bytes: &[u8]) -> Option<Vec<Operation>> {
    match decode(bytes) {
        Ok(ops) => {
            out.put(&json!({"ev": "Decode", "case": case, "cls": cls, "res": "ok", "ops": ops_to_tla(&ops)}));
            Some(ops)
        }
        Err(e) => {
            out.put(&json!({"ev": "Decode", "case": case, "cls": cls, "res": e, "ops": []}));
            None
        }
    }
}

/// Encode -> Decode of one operation list
fn put_roundtrip(out: &mut NdjsonOut, case: u64, cls: &str, ops: &[Operation]) {
    match encode(ops) {
        Ok(bytes) => {
            out.put(&json!({"ev": "Encode", "case": case, "cls": cls, "ops": ops_to_tla(ops), "res": "ok", "bytes": bytes_to_json(&bytes)}));
            put_decode(out, case, cls, &bytes);
        }
        Err(e) => out.put(&json!({"ev": "Encode", "case": case, "cls": cls, "ops": ops_to_tla(ops), "res": e, "bytes": []})),
    }
}

/// Given -> Decode -> Encode -> Decode
fn put_chain(out: &mut NdjsonOut, case: u64, cls: &str, bytes: &[u8], meta: Value) {
    out.put(&json!({"ev": "Given", "case": case, "cls": cls, "bytes": bytes_to_json(bytes), "meta": meta}));
    if let Some(ops) = put_decode(out, case, cls, bytes) {
        put_roundtrip(out, case, cls, &ops);
    }
}

// ---------------------------------------------------------------------------------------------
// generators

/// the operators of ISO 32000-1 Annex A that lie in the alphabet lopdf's parser documents
/// (letters, '*', ''', '"'); d0 / d1 contain a digit and BI / ID / EI delimit inline images
const OPERATORS: &[&str] = &[
    "b", "B", "b*", "B*", "BDC", "BMC", "BT", "BX", "c", "cm", "CS", "cs", "d", "Do", "DP", "EMC", "ET", "EX", "f", "F", "f*",
    "G", "g", "gs", "h", "i", "j", "J", "K", "k", "l", "m", "M", "MP", "n", "q", "Q", "re", "RG", "rg", "ri", "s", "S", "SC",
    "sc", "SCN", "scn", "sh", "T*", "Tc", "Td", "TD", "Tf", "Tj", "TJ", "TL", "Tm", "Tr", "Ts", "Tw", "Tz", "v", "w", "W", "W*",
    "y", "'", "\"",
];
const OP_ALPHABET: &[u8] = b"abcdefghijklmnopqrstuvwxyzABCDEFGHIJKLMNOPQRSTUVWXYZ*'\"";

/// operators the property quantifies over: non-empty strings over the alphabet.  (The words null / true / false
/// and the inline-image delimiters are "unwritable" -- Content!Domain -- and appear in the dedicated opname cases.)
fn in_domain_operator(op: &str) -> bool {
    !op.is_empty() && op.bytes().all(|b| OP_ALPHABET.contains(&b)) && !["null", "true", "false", "BI", "ID", "EI"].contains(&op)
}

fn random_operator(rng: &mut Rng) -> String {
    if rng.chance(3, 4) {
        rng.pick(OPERATORS).to_string()
    } else {
        loop {
            let n = 1 + rng.below(4);
            let s: String = (0..n).map(|_| *rng.pick(OP_ALPHABET) as char).collect();
            // prefixes of keywords (t, tr, nul, fals, n, f) are wanted
            let s = if rng.chance(1, 6) { rng.pick(&["t", "tr", "tru", "n", "nu", "nul", "f", "fa", "fals", "R", "obj", "endobj", "stream", "B", "I", "E", "D"]).to_string() } else { s };
            // now and then an operator that begins or ends like a keyword of the operand grammar
            let s = if rng.chance(1, 25) { format!("{}{}", rng.pick(&["null", "true", "false", "BI", "ID", "EI", "x", "T"]), rng.pick(&["x", "Type", "*", "null", "BI", "true"])) } else { s };
            if in_domain_operator(&s) {
                return s;
            }
        }
    }
}

/// references are not direct objects: replace them (also inside containers)
fn strip_refs(o: Object, rng: &mut Rng) -> Object {
    match o {
        Object::Reference(id) => {
            if rng.chance(1, 2) {
                Object::Integer(id.0 as i64)
            } else {
                Object::Null
            }
        }
        Object::Array(a) => Object::Array(a.into_iter().map(|x| strip_refs(x, rng)).collect()),
        Object::Dictionary(d) => {
            let mut n = Dictionary::new();
            for (k, v) in d.into_iter() {
                n.set(k, strip_refs(v, rng));
            }
            Object::Dictionary(n)
        }
        other => other,
    }
}

fn random_operand(rng: &mut Rng, g: &gen::DocGen) -> Object {
    let o = g.object(rng, 0);
    strip_refs(o, rng)
}

fn random_ops(rng: &mut Rng, hostile: bool, max_ops: usize) -> Vec<Operation> {
    let g = gen::DocGen { max_depth: if rng.chance(1, 3) { 3 } else { 2 }, ids: vec![], hostile_names: hostile, allow_big_reals: true };
    let n = match rng.below(10) {
        0 => 0,
        1 | 2 => 1,
        _ => 1 + rng.below(max_ops),
    };
    (0..n)
        .map(|_| {
            let k = match rng.below(8) {
                0 | 1 => 0,
                2 | 3 | 4 => 1,
                5 => 2,
                _ => rng.below(7),
            };
            Operation { operator: random_operator(rng), operands: (0..k).map(|_| random_operand(rng, &g)).collect() }
        })
        .collect()
}

fn lit(b: &[u8]) -> Object {
    Object::String(b.to_vec(), StringFormat::Literal)
}
fn hexs(b: &[u8]) -> Object {
    Object::String(b.to_vec(), StringFormat::Hexadecimal)
}
fn name(b: &[u8]) -> Object {
    Object::Name(b.to_vec())
}
fn op(o: &str, a: Vec<Object>) -> Operation {
    Operation { operator: o.to_string(), operands: a }
}
fn dict(pairs: Vec<(&[u8], Object)>) -> Object {
    let mut d = Dictionary::new();
    for (k, v) in pairs {
        d.set(k.to_vec(), v);
    }
    Object::Dictionary(d)
}

/// the hostile name vocabulary: empty name, white-space, every delimiter, '#', '#' + two hex digits, bytes >= 128,
/// names that look like table 93 keys or like operators
const HOSTILE_NAMES: &[&[u8]] = &[
    b"", b"A B", b"\t", b"\r", b"\n", b"\x00", b"\x0c", b"(", b")", b"<", b">", b"[", b"]", b"{", b"}", b"/", b"%", b"#", b"Rev#A1", b"#23",
    b"\x80\xff", b"Tag(1)", b"Scan Note", b"Wide", b"IDx", b"EI", b"a/b%c", b"\x7f", b"~!",
];

/// a valid inline image operation built through the API: BI with one Stream operand
fn api_image(cs: &str, full: bool, w: i64, h: i64, bpc: i64, extra: Vec<(Vec<u8>, Object)>, fill: u8) -> Operation {
    let n = match cs {
        "G" | "DeviceGray" => 1,
        "RGB" | "DeviceRGB" => 3,
        _ => 4,
    };
    let len = (h * ((w * n * bpc + 7) / 8)) as usize;
    let mut d = Dictionary::new();
    let (kw, kh, kb, kc): (&[u8], &[u8], &[u8], &[u8]) = if full { (b"Width", b"Height", b"BitsPerComponent", b"ColorSpace") } else { (b"W", b"H", b"BPC", b"CS") };
    d.set(kw.to_vec(), Object::Integer(w));
    d.set(kh.to_vec(), Object::Integer(h));
    d.set(kb.to_vec(), Object::Integer(bpc));
    d.set(kc.to_vec(), name(cs.as_bytes()));
    for (k, v) in extra {
        d.set(k, v);
    }
    let data: Vec<u8> = (0..len).map(|i| if i % 3 == 0 { fill } else { b"EI "[i % 3] }).collect();
    Operation { operator: "BI".to_string(), operands: vec![Object::Stream(lopdf::Stream::new(d, data))] }
}

/// API-built inline images: plain ones and ones carrying an entry whose key / name value is hostile
fn api_images() -> Vec<(String, Vec<Operation>)> {
    let mut v = vec![];
    let spaces = ["G", "DeviceGray", "RGB", "DeviceRGB", "CMYK", "DeviceCMYK"];
    for (i, cs) in spaces.iter().enumerate() {
        v.push(("api.inline.plain".to_string(), vec![op("q", vec![]), api_image(cs, i % 2 == 1, 3, 2, [1, 2, 4, 8][i % 4], vec![], b' '), op("Q", vec![])]));
        v.push((
            "api.inline.optional".to_string(),
            vec![api_image(cs, i % 2 == 0, 2, 2, 8, vec![(if i % 2 == 0 { b"IM".to_vec() } else { b"ImageMask".to_vec() }, Object::Boolean(false)), (b"I".to_vec(), Object::Boolean(true))], b'\n')],
        ));
    }
    for (i, k) in HOSTILE_NAMES.iter().enumerate() {
        let cs = spaces[i % 6];
        let val = match i % 3 {
            0 => Object::Integer(3),
            1 => name(k),
            _ => lit(k),
        };
        v.push(("api.inline.hostile-key".to_string(), vec![op("q", vec![]), api_image(cs, i % 2 == 0, 2, 1, 8, vec![(k.to_vec(), val)], b'A'), op("Q", vec![])]));
    }
    // a hostile name as the value of a standard-looking extra key
    for (i, k) in HOSTILE_NAMES.iter().enumerate().filter(|(i, _)| i % 4 == 0) {
        v.push(("api.inline.hostile-value".to_string(), vec![api_image(spaces[i % 6], false, 1, 1, 8, vec![(b"Intent".to_vec(), name(k))], b'Z')]));
    }
    v
}

fn nested_parens(n: usize) -> Vec<u8> {
    let mut v = vec![b'('; n];
    v.push(b'x');
    v.extend(std::iter::repeat(b')').take(n));
    v
}

/// fixed cases inside the domain: (class, operations)
fn special_cases() -> Vec<(String, Vec<Operation>)> {
    let mut v: Vec<(String, Vec<Operation>)> = vec![];
    let mut add = |c: &str, ops: Vec<Operation>| v.push((format!("special.{c}"), ops));
    add("empty", vec![]);
    add("no-operands", vec![op("q", vec![]), op("Q", vec![]), op("n", vec![]), op("f", vec![]), op("T*", vec![]), op("'", vec![]), op("\"", vec![])]);
    add(
        "text",
        vec![
            op("BT", vec![]),
            op("Tf", vec![name(b"F1"), Object::Integer(12)]),
            op("Td", vec![Object::Real(72.5), Object::Integer(-700)]),
            op("Tj", vec![lit(b"Hello (world) \\ \r\n")]),
            op("TJ", vec![Object::Array(vec![lit(b"A"), Object::Integer(-120), hexs(b"\x00B"), Object::Real(0.5)])]),
            op("'", vec![lit(b")(")]),
            op("\"", vec![Object::Integer(1), Object::Real(2.0), lit(b"")]),
            op("ET", vec![]),
        ],
    );
    add(
        "names-hostile",
        HOSTILE_NAMES
            .iter()
            .enumerate()
            .flat_map(|(i, k)| {
                vec![
                    op(["gs", "cs", "Do", "f", "n"][i % 5], vec![name(k)]),
                    op("BDC", vec![name(k), dict(vec![(k, name(k)), (b"K", Object::Array(vec![name(k), Object::Integer(i as i64)]))])]),
                ]
            })
            .collect(),
    );
    add("names", vec![op("gs", vec![name(b"")]), op("cs", vec![name(b"A B#/()<>[]{}%\x00\x7f\x80\xff")]), op("Do", vec![name(b"Tj")]), op("f", vec![name(b"null")])]);
    add(
        "marked",
        vec![
            op("BDC", vec![name(b"Span"), dict(vec![(b"MCID", Object::Integer(0)), (b"", name(b"")), (b"Lang", lit(b"en\rUS")), (b"K", Object::Array(vec![Object::Null, Object::Boolean(true), dict(vec![])]))])]),
            op("EMC", vec![]),
            op("DP", vec![name(b"P"), dict(vec![])]),
        ],
    );
    add(
        "numbers",
        vec![
            op("re", vec![Object::Integer(0), Object::Integer(-0), Object::Integer(i64::MAX), Object::Integer(i64::MIN)]),
            op("cm", gen::boundary_reals().into_iter().take(24).map(Object::Real).collect()),
            op("cm", gen::boundary_reals().into_iter().skip(24).map(Object::Real).collect()),
            op("w", vec![Object::Real(-0.0)]),
            op("rg", vec![Object::Real(1.0), Object::Real(0.0), Object::Real(1e20)]),
        ],
    );
    add("keywords-as-operands", vec![op("sc", vec![Object::Null, Object::Boolean(true), Object::Boolean(false)]), op("n", vec![Object::Null]), op("t", vec![Object::Boolean(true)]), op("nul", vec![]), op("tru", vec![]), op("fals", vec![]), op("R", vec![Object::Integer(1), Object::Integer(0)])]);
    add("strings", gen_strings());
    add("paren-nesting-100", vec![op("Tj", vec![lit(&nested_parens(100))])]);
    add("paren-nesting-101", vec![op("Tj", vec![lit(&nested_parens(101))])]);
    add("containers", vec![op("d", vec![Object::Array(vec![]), Object::Integer(0)]), op("d", vec![Object::Array(vec![Object::Array(vec![Object::Array(vec![name(b"")])]), dict(vec![(b"A", Object::Array(vec![]))])]), Object::Real(0.25)])]);
    v
}

fn gen_strings() -> Vec<Operation> {
    let xs: &[&[u8]] = &[
        b"", b"(", b")", b"()", b")(", b"(()", b"())", b"\\", b"\\\\", b"\\)", b"\\(", b"\r", b"\n", b"\r\n", b"a\rb", b"a\r\nb", b"\\\r", b"\\\n", b"\\053",
        b"\\0", b"\x00", b"\x0c", b"\x08", b"\t", b"Tj", b" Tj ", b"EI", b"%", b"<>", b"<<>>", b"[]", b"{}", b"/", b"#41", b"\xff\xfe", b"endstream",
    ];
    let mut v = vec![];
    for (i, x) in xs.iter().enumerate() {
        v.push(op(if i % 2 == 0 { "Tj" } else { "'" }, vec![lit(x)]));
        v.push(op("Tj", vec![hexs(x)]));
    }
    v
}

/// operation lists outside the quantifier of the property (observations only): (class, operations)
fn probes() -> Vec<(String, Vec<Operation>)> {
    let mut v: Vec<(String, Vec<Operation>)> = vec![];
    let mut add = |c: &str, ops: Vec<Operation>| v.push((format!("probe.{c}"), ops));
    add("operator-digit", vec![op("d0", vec![Object::Integer(5), Object::Integer(0)]), op("q", vec![])]);
    add("operator-digit", vec![op("d1", vec![Object::Integer(1), Object::Integer(0), Object::Integer(0), Object::Integer(0), Object::Integer(9), Object::Integer(9)])]);
    add("operator-other-regular", vec![op("a-b", vec![]), op("x1", vec![])]);
    // a keyword followed by a digit / sign is one token outside the operator alphabet (like d0): observations
    add("operator-keyword-digit", vec![op("true1", vec![]), op("Tj", vec![lit(b"a")])]);
    add("operator-keyword-digit", vec![op("null.5", vec![Object::Integer(1)])]);
    add("operator-empty", vec![op("", vec![Object::Integer(1)])]);
    add("operand-reference", vec![op("Do", vec![Object::Reference((1, 0))])]);
    add("operand-reference-nested", vec![op("TJ", vec![Object::Array(vec![Object::Reference((1, 0))])])]);
    v
}

// ---------------------------------------------------------------------------------------------
// the edges of the domain (Content!Domain): operator names against the keyword set, numbers at and beyond the
// range of f32, nesting at and above the reader's limit

/// every keyword of the operand grammar -- alone, as prefix, suffix and infix of an operator, with 0 and 1 operands,
/// first, in the middle and last in a sequence
fn opname_cases() -> Vec<(String, Vec<Operation>)> {
    let mut v = vec![];
    for kw in ["null", "true", "false", "BI", "ID", "EI", "R", "obj"] {
        let forms: Vec<(&str, String)> = vec![
            ("alone", kw.to_string()),
            ("prefix", format!("{kw}x")),
            ("prefix", format!("{kw}Type")),
            ("prefix", format!("{kw}*")),
            ("prefix", format!("{kw}'")),
            ("prefix", format!("{kw}{kw}")),
            ("suffix", format!("x{kw}")),
            ("suffix", format!("T*{kw}")),
            ("infix", format!("a{kw}b")),
        ];
        for (pos, name) in forms {
            for (nargs, args) in [(0, vec![]), (1, vec![Object::Integer(1)]), (2, vec![lit(b"s"), Object::Array(vec![Object::Integer(1)])])] {
                let cls = format!("opname.{kw}.{pos}");
                // alone in the stream, between two operations, last, first
                v.push((cls.clone(), vec![op(&name, args.clone())]));
                if nargs < 2 {
                    v.push((cls.clone(), vec![op("q", vec![]), op(&name, args.clone()), op("Q", vec![])]));
                    v.push((cls.clone(), vec![op("q", vec![]), op(&name, args.clone())]));
                    v.push((cls, vec![op(&name, args.clone()), op("Tj", vec![lit(b"after")])]));
                }
            }
        }
    }
    v
}

/// reals at and beyond the range of f32, built through the API
fn number_cases() -> Vec<(String, Vec<Operation>)> {
    let w = |o: Object| vec![op("q", vec![]), op("w", vec![o]), op("Q", vec![])];
    let mut v: Vec<(String, Vec<Operation>)> = vec![];
    for (n, x) in [
        ("max", f32::MAX),
        ("min", f32::MIN),
        ("max-pred", f32::from_bits(f32::MAX.to_bits() - 1)),
        ("min-positive", f32::MIN_POSITIVE),
        ("subnormal-least", f32::from_bits(1)),
        ("subnormal-most", f32::from_bits(0x007f_ffff)),
        ("two-pow-127", 1.7014118e38),
    ] {
        v.push((format!("number.finite.{n}"), w(Object::Real(x))));
        v.push((format!("number.finite.{n}"), vec![op("TJ", vec![Object::Array(vec![Object::Real(x), Object::Real(-x)])])]));
    }
    for (n, x) in [("inf", f32::INFINITY), ("neg-inf", f32::NEG_INFINITY), ("nan", f32::NAN)] {
        v.push((format!("number.nonfinite.{n}"), w(Object::Real(x))));
        v.push((format!("number.nonfinite.{n}"), vec![op("d", vec![Object::Array(vec![Object::Real(x)]), Object::Integer(0)]), op("S", vec![])]));
    }
    // the public conversions from f64 saturate without notice
    for (n, x) in [("from-f64-1e300", 1e300f64), ("from-f64-1e39", 1e39), ("from-f64-neg-1e300", -1e300), ("from-f64-just-above-max", 3.4028236e38)] {
        v.push((format!("number.nonfinite.{n}"), w(Object::from(x))));
    }
    v.push(("number.finite.from-f64-max".to_string(), w(Object::from(3.4028234e38f64))));
    v.push(("number.finite.from-f64-tiny".to_string(), w(Object::from(1e-300f64))));
    v
}

/// number literals at and beyond the range of f32 as a producer spells them: (class, content)
fn number_literals() -> Vec<(String, Vec<u8>)> {
    let zeros = |n: usize| "0".repeat(n);
    let lits: Vec<(&str, String)> = vec![
        ("finite.max", "340282350000000000000000000000000000000.0".to_string()),
        ("finite.max-int-spelling", "340282350000000000000000000000000000000".to_string()),
        ("finite.rounds-to-max", "340282356000000000000000000000000000000.0".to_string()),
        ("beyond.just", "340282360000000000000000000000000000000.0".to_string()),
        ("beyond.1e39", format!("1{}.0", zeros(39))),
        ("beyond.1e39-trailing-dot", format!("1{}.", zeros(39))),
        ("beyond.neg-1e39", format!("-1{}.0", zeros(39))),
        ("beyond.1e60", format!("+1{}.5", zeros(60))),
        ("beyond.1e39-int-spelling", format!("1{}", zeros(39))),
        ("beyond.neg-1e45-int-spelling", format!("-1{}", zeros(45))),
        ("tiny.1e-50", format!("0.{}1", zeros(49))),
        ("tiny.neg-1e-60", format!("-.{}1", zeros(59))),
        ("tiny.subnormal", format!("0.{}14", zeros(44))),
    ];
    let mut v = vec![];
    for (n, l) in lits {
        v.push((format!("literal.{n}"), format!("q\n{l} w\nQ").into_bytes()));
        v.push((format!("literal.{n}"), format!("[{l} (a) {l}] TJ\n/P <</K {l}>> DP").into_bytes()));
        // clause 2: the same literal next to an inline image
        v.push((format!("literal-inline.{n}"), format!("q\nBI /W 2 /H 1 /BPC 8 /CS /G ID AB\nEI\n{l} w\nQ").into_bytes()));
    }
    v
}

fn nested(kind: &str, depth: usize, leaf: Object) -> Object {
    let mut o = leaf;
    for level in 0..depth {
        let dict_level = match kind {
            "arr" => false,
            "dict" => true,
            _ => level % 2 == 1,
        };
        o = if dict_level { dict(vec![(b"K", o)]) } else { Object::Array(vec![o]) };
    }
    o
}

/// arrays / dictionaries nested at, just below and above the reader's limit (parser::MAX_NESTING = 48)
fn nest_cases() -> Vec<(String, Vec<Operation>)> {
    let mut v = vec![];
    // (the JSON reader of TLC accepts 255 levels of nesting: a dictionary level costs three, so 64 is the deepest case)
    for depth in [8usize, 31, 32, 33, 47, 48, 49, 50, 64] {
        for kind in ["arr", "dict", "mix"] {
            v.push((
                format!("nest.{kind}.{depth}"),
                vec![op("q", vec![]), op("DP", vec![name(b"T"), nested(kind, depth, Object::Integer(1))]), op("Q", vec![])],
            ));
        }
    }
    // depth inside the dictionary of an inline image (its entries are not bracketed)
    for depth in [47usize, 48, 49] {
        v.push((format!("nest.inline.{depth}"), vec![api_image("G", false, 1, 1, 8, vec![(b"X".to_vec(), nested("arr", depth, Object::Integer(1)))], b'A')]));
    }
    v
}

// ---------------------------------------------------------------------------------------------
// deep nesting on a small stack, in a supervised worker process (a stack overflow aborts the process: data)

/// `arrays` arrays (or dictionaries) around a literal string with `parens` balanced parentheses
fn deep_ops(kind: &str, arrays: usize, parens: usize) -> Vec<Operation> {
    vec![op("q", vec![]), op("TJ", vec![nested(kind, arrays, lit(&nested_parens(parens)))]), op("Q", vec![])]
}

fn deep_cases() -> Vec<(String, usize, usize)> {
    let mut v = vec![];
    for kind in ["arr", "dict"] {
        for (a, p) in [(0usize, 100usize), (48, 0), (30, 100), (40, 100), (47, 100), (48, 50), (48, 99), (48, 100), (48, 101), (49, 100), (20, 20)] {
            v.push((kind.to_string(), a, p));
        }
    }
    v
}

/// worker side: one case per line {"kind","arrays","parens","stack"}; the answer is [Encode event, Decode event]
fn worker() {
    lopdf_conform::sup::worker_loop(|line| {
        let c: Value = serde_json::from_str(line).expect("case");
        let (kind, a, p) = (c["kind"].as_str().unwrap().to_string(), c["arrays"].as_u64().unwrap() as usize, c["parens"].as_u64().unwrap() as usize);
        let stack = c["stack"].as_u64().unwrap() as usize;
        let cls = c["cls"].as_str().unwrap().to_string();
        let case = c["case"].as_u64().unwrap();
        let h = std::thread::Builder::new()
            .stack_size(stack)
            .spawn(move || roundtrip_events(case, &cls, 0, &deep_ops(&kind, a, p)))
            .expect("spawn");
        // the events are deeply nested JSON: they are passed on as text (serde_json refuses to *parse* more than 128 levels)
        match h.join() {
            Ok(ev) => ev.iter().map(|e| e.to_string()).collect::<Vec<_>>().join("\t"),
            Err(_) => "PANIC".to_string(),
        }
    });
}

/// supervisor side: run the deep cases in `--exe worker` (a debug- or release-profile build of this binary) on threads
/// with a `--stack`-byte stack; a worker that dies or hangs yields a Decode event with res = "crash:..." / "hang"
fn deep(args: &[String]) {
    let exe = arg(args, "--exe").unwrap();
    let label = arg_or(args, "--label", "release");
    let stack = arg_u64(args, "--stack", 2 << 20);
    use std::io::Write;
    let mut out = std::io::BufWriter::new(std::fs::File::create(arg(args, "--out").unwrap()).expect("create"));
    let cases = deep_cases();
    let lines: Vec<String> = cases
        .iter()
        .enumerate()
        .map(|(i, (k, a, p))| json!({"case": i, "kind": k, "arrays": a, "parens": p, "stack": stack, "cls": format!("deep.{label}.{k}.{a}x{p}")}).to_string())
        .collect();
    let outcomes = lopdf_conform::sup::run_cases(&exe, &["worker".to_string()], &lines, std::time::Duration::from_secs(30), 2048);
    for (i, ((k, a, p), oc)) in cases.iter().zip(outcomes).enumerate() {
        let cls = format!("deep.{label}.{k}.{a}x{p}");
        let why = match oc {
            lopdf_conform::sup::Outcome::Line(l) if l != "PANIC" => {
                for e in l.split('\t') {
                    writeln!(out, "{e}").expect("write");
                }
                continue;
            }
            lopdf_conform::sup::Outcome::Line(_) => "crash:panic in worker thread".to_string(),
            lopdf_conform::sup::Outcome::Crash(st) => format!("crash:{st}"),
            lopdf_conform::sup::Outcome::Hang => "hang".to_string(),
        };
        // the worker died: the operations and their encoding are computed here on a large stack (encoding is not
        // what overflows), the Decode event records the death
        let (k2, a2, p2, cls2) = (k.clone(), *a, *p, cls.clone());
        let ev = std::thread::Builder::new()
            .stack_size(256 << 20)
            .spawn(move || {
                let ops = deep_ops(&k2, a2, p2);
                match encode(&ops) {
                    Ok(bytes) => json!({"ev": "Encode", "case": i, "cls": cls2, "t": 0, "ops": ops_to_tla(&ops), "res": "ok", "bytes": bytes_to_json(&bytes)}),
                    Err(e) => json!({"ev": "Encode", "case": i, "cls": cls2, "t": 0, "ops": ops_to_tla(&ops), "res": e, "bytes": []}),
                }
                .to_string()
            })
            .expect("spawn")
            .join()
            .expect("encode on a large stack");
        let encoded = ev.contains("\"res\":\"ok\"");
        writeln!(out, "{ev}").expect("write");
        if encoded {
            writeln!(out, "{}", json!({"ev": "Decode", "case": i, "cls": cls, "t": 0, "res": why, "ops": []})).expect("write");
        }
    }
    out.flush().expect("flush");
}

// ---------------------------------------------------------------------------------------------
// record

fn sweep_row(kind: &str, a: u8) -> Vec<Operation> {
    (0..=255u8)
        .map(|b| match kind {
            "str" => op("Tj", vec![lit(&[a, b])]),
            "hex" => op("Tj", vec![hexs(&[a, b])]),
            _ => op("gs", vec![name(&[a, b])]),
        })
        .collect()
}

fn record(args: &[String]) {
    let seed = arg_u64(args, "--seed", 1);
    let n = arg_u64(args, "--n", 100);
    let rows = arg_or(args, "--rows", "critical"); // "all" | "critical" | "none"
    let mut out = NdjsonOut::create(&arg(args, "--out").unwrap());
    let mut rng = Rng::new(seed ^ 0xC14);
    let mut case = 0u64;
    for (cls, ops) in special_cases() {
        put_roundtrip(&mut out, case, &cls, &ops);
        case += 1;
    }
    for (cls, ops) in probes() {
        put_roundtrip(&mut out, case, &cls, &ops);
        case += 1;
    }
    for (cls, ops) in api_images().into_iter().chain(opname_cases()).chain(number_cases()).chain(nest_cases()) {
        put_roundtrip(&mut out, case, &cls, &ops);
        case += 1;
    }
    for (cls, bytes) in number_literals() {
        put_chain(&mut out, case, &cls, &bytes, json!({}));
        case += 1;
    }
    for i in 0..n {
        let ops = random_ops(&mut rng, i % 3 != 0, 6);
        put_roundtrip(&mut out, case, "random", &ops);
        case += 1;
    }
    // byte pairs <a, b> as the whole content of a literal string / a name (one record per first byte)
    let critical: Vec<u8> = {
        let mut v: Vec<u8> = b"()\\#/<>[]%{} \r\n\t\x00\x0c08nA\x7f\x80\xff".to_vec();
        // plus a few seed-dependent rows
        for _ in 0..4 {
            v.push(rng.byte());
        }
        v.sort();
        v.dedup();
        v
    };
    let firsts: Vec<u8> = match rows.as_str() {
        "all" => (0..=255u8).collect(),
        "none" => vec![],
        _ => critical,
    };
    for a in firsts {
        for kind in ["str", "name"] {
            put_roundtrip(&mut out, case, &format!("sweep.{kind}.{a}"), &sweep_row(kind, a));
            case += 1;
        }
        if a % 16 == 7 {
            put_roundtrip(&mut out, case, &format!("sweep.hex.{a}"), &sweep_row("hex", a));
            case += 1;
        }
    }
    out.finish();
}

// ---------------------------------------------------------------------------------------------
// cases for the TLA+ Producer

fn cases(args: &[String]) {
    let seed = arg_u64(args, "--seed", 1);
    let n = arg_u64(args, "--n", 40);
    let mut out = NdjsonOut::create(&arg(args, "--out").unwrap());
    let mut rng = Rng::new(seed ^ 0xC14_0002);
    for i in 0..n {
        let mut ops = random_ops(&mut rng, i % 2 == 0, 3);
        if ops.is_empty() {
            ops.push(op("q", vec![]));
        }
        // the Producer spells numbers from decimal tokens: keep reals finite (gen.rs only makes finite ones)
        out.put(&json!({"ops": ops_to_file_tla(&ops), "idws": 32, "free": false}));
    }
    out.finish();
}

// ---------------------------------------------------------------------------------------------
// replay of TLC-generated content

fn replay(args: &[String]) {
    let cases = read_ndjson(&arg(args, "--in").unwrap());
    let mut out = NdjsonOut::create(&arg(args, "--out").unwrap());
    for (i, c) in cases.iter().enumerate() {
        let bytes = json_to_bytes(&c["bytes"]);
        let cls = format!("producer.{}", c["u"].as_str().unwrap_or("file"));
        let mut meta = c.clone();
        meta.as_object_mut().unwrap().remove("bytes");
        put_chain(&mut out, i as u64, &cls, &bytes, meta);
    }
    out.finish();
}

// ---------------------------------------------------------------------------------------------
// inline images spelled by the harness

/// optional entries of ISO 32000-1 Table 93 that a valid image may spell out with their default or
/// neutral values (they never change the data length)
#[derive(Clone, Copy, PartialEq, Debug)]
enum Opt {
    ImFalse,
    Interp(bool),
    Decode(bool), // inverted?
}

struct Inline {
    cs: &'static str,
    bpc: usize,
    w: usize,
    h: usize,
    /// required keys in full (Width ...) or abbreviated (W ...)
    full_keys: bool,
    /// optional keys in full (ImageMask, Interpolate, Decode) or abbreviated (IM, I, D)
    full_opt_keys: bool,
    opts: Vec<Opt>,
    /// entries outside table 93 (ignored by readers) whose key / value come from the hostile name vocabulary
    hostile: Vec<(Vec<u8>, u8)>,
    /// spell every byte of a hostile name as #xx (else only the bytes that need it)
    hex_all: bool,
    /// order of the entries: a permutation seed (0 = required entries first, in W H BPC CS order)
    order: u64,
    extra: u8,
    idws: u8,
    data: Vec<u8>,
    /// stencil mask: /IM true, no colour space; bpc = 0 means BitsPerComponent is left out
    mask: bool,
    filter: bool,
}

fn ncomp(cs: &str) -> usize {
    match cs {
        "G" | "DeviceGray" | "Gray" => 1,
        "RGB" | "DeviceRGB" => 3,
        _ => 4,
    }
}

/// a name as a producer may spell it (7.3.5): #xx for what is not a regular character, for '#', and for bytes
/// outside the printable range; `all`: every byte as #xx, lower-case hex digits for every other one
fn spell_name(b: &[u8], all: bool) -> String {
    let mut s = String::from("/");
    for (i, &c) in b.iter().enumerate() {
        let must = b" \t\r\n\x00\x0c()<>[]{}/%#".contains(&c) || !(33..=126).contains(&c);
        if must || all {
            if i % 2 == 1 && all {
                s.push_str(&format!("#{c:02x}"));
            } else {
                s.push_str(&format!("#{c:02X}"));
            }
        } else {
            s.push(c as char);
        }
    }
    s
}

fn inline_entries(im: &Inline) -> Vec<String> {
    let (kw, kh, kb, kc) = if im.full_keys { ("Width", "Height", "BitsPerComponent", "ColorSpace") } else { ("W", "H", "BPC", "CS") };
    let (kim, ki, kd) = if im.full_opt_keys { ("ImageMask", "Interpolate", "Decode") } else { ("IM", "I", "D") };
    let mut e = vec![format!("/{kw} {}", im.w), format!("/{kh} {}", im.h)];
    let n = if im.mask { 1 } else { ncomp(im.cs) };
    if im.mask {
        if im.bpc != 0 {
            e.push(format!("/{kb} {}", im.bpc));
        }
        e.push(format!("/{kim} true"));
    } else {
        e.push(format!("/{kb} {}", im.bpc));
        e.push(format!("/{kc} /{}", im.cs));
    }
    for o in &im.opts {
        match o {
            Opt::ImFalse => e.push(format!("/{kim} false")),
            Opt::Interp(b) => e.push(format!("/{ki} {b}")),
            Opt::Decode(inv) => {
                let pair = if *inv { "1 0" } else { "0 1" };
                e.push(format!("/{kd} [{}]", vec![pair; n].join(" ")));
            }
        }
    }
    for (k, vk) in &im.hostile {
        let key = spell_name(k, im.hex_all);
        e.push(match vk % 3 {
            0 => format!("{key} 3"),
            1 => format!("{key} {}", spell_name(k, !im.hex_all)),
            _ => format!("{key} <{}>", k.iter().map(|c| format!("{c:02X}")).collect::<String>()),
        });
    }
    if im.filter {
        e.push("/F /AHx".to_string());
    }
    if im.order != 0 {
        let mut r = Rng::new(im.order);
        r.shuffle(&mut e);
    }
    e
}

fn inline_bytes(im: &Inline) -> Vec<u8> {
    let e = inline_entries(im);
    let mut s = String::from("q\nBI\n");
    // entries separated by a blank, or (every value here ends in a delimiter or is followed by '/') by nothing
    // where that is unambiguous: "/W 3/H 2"
    s.push_str(&e.join(if im.extra % 3 == 1 { "" } else { " " }));
    s.push_str(if im.extra % 2 == 0 { "\nID" } else { " ID" });
    let mut b = s.into_bytes();
    b.push(im.idws);
    b.extend_from_slice(&im.data);
    b.extend_from_slice(if im.extra % 4 < 2 { b"\nEI\nQ" } else { b" EI Q\n" });
    b
}

fn image_data(rng: &mut Rng, len: usize) -> Vec<u8> {
    let mut d: Vec<u8> = match rng.below(4) {
        0 => (0..len).map(|_| rng.byte()).collect(),
        1 => (0..len).map(|i| b"EI \nEI Q "[i % 9]).collect(),
        2 => (0..len).map(|_| *rng.pick(b" \t\r\n\x00\x0cEIQ()<>[]/%")).collect(),
        _ => (0..len).map(|_| *rng.pick(gen::SIGMA)).collect(),
    };
    // the first and last byte decide how the data meets ID / EI
    if len > 0 {
        match rng.below(6) {
            0 => d[0] = *rng.pick(b" \t\r\n"),
            1 => d[0] = *rng.pick(b"\x00\x0c"),
            2 => d[len - 1] = *rng.pick(b" \n\rE"),
            _ => {}
        }
    }
    d
}

/// the sets of optional entries every colour space x BPC combination is tried with
fn opt_sets() -> Vec<(Vec<Opt>, bool)> {
    vec![
        (vec![], false),
        (vec![Opt::ImFalse], false),
        (vec![Opt::ImFalse], true),
        (vec![Opt::Interp(false)], false),
        (vec![Opt::Interp(true)], true),
        (vec![Opt::Decode(false)], false),
        (vec![Opt::Decode(true)], true),
        (vec![Opt::ImFalse, Opt::Interp(true), Opt::Decode(false)], false),
        (vec![Opt::Decode(false), Opt::Interp(false), Opt::ImFalse], true),
    ]
}

fn opts_json(o: &[Opt]) -> Value {
    Value::Array(o.iter().map(|x| Value::from(format!("{x:?}"))).collect())
}

fn inline(args: &[String]) {
    let seed = arg_u64(args, "--seed", 1);
    let n = arg_u64(args, "--n", 100);
    let mut out = NdjsonOut::create(&arg(args, "--out").unwrap());
    let mut rng = Rng::new(seed ^ 0xC14_0003);
    let mut case = 0u64;
    let spaces = ["G", "DeviceGray", "RGB", "DeviceRGB", "CMYK", "DeviceCMYK"];
    let geos = [(1usize, 1usize), (3, 2), (5, 3)];
    // every supported colour space x BPC x every set of optional entries (geometry rotating), then random ones
    let mut todo: Vec<(&'static str, usize, usize, usize, Vec<Opt>, bool)> = vec![];
    let mut k = 0usize;
    for cs in spaces {
        for bpc in [1, 2, 4, 8] {
            for (opts, full) in opt_sets() {
                let (w, h) = geos[k % 3];
                k += 1;
                todo.push((cs, bpc, w, h, opts, full));
            }
        }
    }
    for _ in 0..n {
        let mut opts = vec![];
        if rng.chance(1, 3) {
            opts.push(Opt::ImFalse);
        }
        if rng.chance(1, 3) {
            opts.push(Opt::Interp(rng.chance(1, 2)));
        }
        if rng.chance(1, 3) {
            opts.push(Opt::Decode(rng.chance(1, 2)));
        }
        todo.push((*rng.pick(&spaces), *rng.pick(&[1, 2, 4, 8]), 1 + rng.below(9), 1 + rng.below(5), opts, rng.chance(1, 2)));
    }
    for (i, (cs, bpc, w, h, opts, full_opt)) in todo.into_iter().enumerate() {
        let len = h * ((w * ncomp(cs) * bpc + 7) / 8);
        let im = Inline {
            cs,
            bpc,
            w,
            h,
            full_keys: matches!(cs, "DeviceGray" | "DeviceRGB" | "DeviceCMYK") && rng.chance(1, 2),
            full_opt_keys: full_opt,
            // a third of the images keep the conventional order, the others any order
            order: if i % 3 == 0 { 0 } else { 1 + rng.next_u64() % 1_000_000 },
            opts,
            // every third image carries one or two hostile entries, rotating through the vocabulary
            hostile: if i % 3 == 1 {
                let mut hv = vec![(HOSTILE_NAMES[(i / 3) % HOSTILE_NAMES.len()].to_vec(), (i / 3) as u8)];
                if i % 2 == 0 {
                    hv.push((HOSTILE_NAMES[(i / 3 + 7) % HOSTILE_NAMES.len()].to_vec(), (i / 3 + 1) as u8));
                }
                hv.dedup_by(|a, b| a.0 == b.0);
                hv
            } else {
                vec![]
            },
            hex_all: i % 2 == 0,
            extra: rng.byte(),
            idws: if rng.chance(1, 8) { *rng.pick(b"\r\t") } else { *rng.pick(b" \n") },
            data: image_data(&mut rng, len),
            mask: false,
            filter: false,
        };
        let bytes = inline_bytes(&im);
        let meta = json!({"cs": cs, "bpc": bpc, "w": w, "h": h, "idws": im.idws, "len": len, "opts": opts_json(&im.opts),
                          "full_keys": im.full_keys, "full_opt_keys": im.full_opt_keys, "entries": inline_entries(&im), "hostile": im.hostile.len(),
                          "first": im.data.first().map(|x| *x as i64).unwrap_or(-1), "last": im.data.last().map(|x| *x as i64).unwrap_or(-1)});
        put_chain(&mut out, case, "inline", &bytes, meta);
        case += 1;
    }
    // stencil masks as 8.9.6.2 defines them (ImageMask true, one bit per sample, no colour space): valid images,
    // but not "of a supported colour space" -- the check reports what lopdf does with them as observations
    for (j, (w, h)) in [(1usize, 1usize), (8, 2), (9, 3), (17, 1)].into_iter().enumerate() {
        for (v, (bpc, opts)) in [(0usize, vec![]), (1, vec![]), (0, vec![Opt::Decode(true)]), (1, vec![Opt::Interp(true), Opt::Decode(false)])].into_iter().enumerate() {
            let len = h * ((w + 7) / 8);
            let im = Inline {
                cs: "",
                bpc,
                w,
                h,
                full_keys: (j + v) % 2 == 1,
                full_opt_keys: (j + v) % 2 == 1,
                opts,
                hostile: vec![],
                hex_all: false,
                order: if v % 2 == 0 { 0 } else { 7 + (j * 4 + v) as u64 },
                extra: (j * 4 + v) as u8,
                idws: b' ',
                data: image_data(&mut rng, len),
                mask: true,
                filter: false,
            };
            let bytes = inline_bytes(&im);
            put_chain(&mut out, case, "inline.mask", &bytes, json!({"w": w, "h": h, "bpc": bpc, "opts": opts_json(&im.opts), "entries": inline_entries(&im)}));
            case += 1;
        }
    }
    // observations outside the quantifier ("supported colour space"): names that are not ISO abbreviations,
    // a mask with a colour space, filtered data, FF / NUL after ID
    let base = |cs: &'static str, bpc: usize, w: usize, h: usize, idws: u8, data: Vec<u8>| Inline {
        cs, bpc, w, h, full_keys: false, full_opt_keys: false, opts: vec![], hostile: vec![], hex_all: false, order: 0, extra: 0, idws, data, mask: false, filter: false,
    };
    let probes: Vec<(&str, Inline)> = vec![
        ("probe.inline.cs-Gray", base("Gray", 8, 2, 1, b' ', vec![1, 2])),
        ("probe.inline.cs-RGBA", base("RGBA", 8, 1, 1, b' ', vec![1, 2, 3, 4])),
        ("probe.inline.filter", Inline { filter: true, ..base("G", 8, 1, 1, b' ', b"41>".to_vec()) }),
        ("probe.inline.idws-ff", base("G", 8, 2, 1, 0x0c, vec![65, 66])),
        ("probe.inline.idws-nul", base("RGB", 8, 1, 1, 0, vec![65, 66, 67])),
        // not ISO (a mask must not name a colour space) but seen in the field: /IM true with BPC 1 and /CS /G
        ("probe.inline.mask-with-cs", Inline { opts: vec![], ..base("G", 1, 8, 2, b' ', vec![0xAA, 0x55]) }),
    ];
    for (cls, mut im) in probes {
        let mut bytes = inline_bytes(&im);
        if cls == "probe.inline.mask-with-cs" {
            im.opts = vec![];
            bytes = b"q\nBI\n/W 8 /H 2 /BPC 1 /CS /G /IM true\nID \xaaU\nEI\nQ".to_vec();
        }
        put_chain(&mut out, case, cls, &bytes, json!({"cs": im.cs, "bpc": im.bpc, "w": im.w, "h": im.h, "idws": im.idws}));
        case += 1;
    }
    out.finish();
}

// ---------------------------------------------------------------------------------------------
// history independence (spec/ContentHist.tla): disturbances on the judging thread, same cases before and after

/// damaged inputs of one kind (ContentHist!Kinds); variant i
fn damaged(kind: &str, i: usize) -> Vec<u8> {
    let pick = |xs: &[&[u8]]| xs[i % xs.len()].to_vec();
    match kind {
        "trunc-array" => pick(&[b"[1 2 [3", b"q [ (a) [ /N [", b"[[[[", b"/X [1 2 TJ", b"[<</A [1"]),
        "trunc-dict" => pick(&[b"<</A 1 /B <<", b"/P <</K <</L", b"<<", b"/Span <</MCID 0 BDC", b"<</A [<</B"]),
        "trunc-string" => pick(&[b"[(abc", b"<</A (x(y)", b"[<41", b"<</K [(\\", b"[ [ (unterminated"]),
        "too-deep" => {
            let n = 49 + i % 23;
            let (o, c): (&[u8], &[u8]) = if i % 2 == 0 { (b"[", b"]") } else { (b"<</A ", b">>") };
            let mut v = o.repeat(n);
            v.extend_from_slice(b"1");
            v.extend(c.repeat(n));
            v.extend_from_slice(b" TJ");
            v
        }
        "unbalanced" => pick(&[b"[1 2 > Tj", b"<< /A ] >> BDC", b"[ [ ] > ]", b"<</A 1 ] TJ", b"[ << ] >>"]),
        "bad-token" => pick(&[b"[1 2 } ] TJ", b"<</A } >> BDC", b"[ 1 0 R x ] TJ", b"<</A 1 /B ) >>", b"[ [ { ] ] TJ"]),
        "inline-trunc" => pick(&[b"BI /W 1 /D [0 1 ID", b"BI /DP <</K [1 ID x EI", b"BI /W 1 /H 1 /BPC 8 /CS /G /D [0 ", b"BI /D [[[ ID", b"q BI /X << ID"]),
        _ => {
            // "load-damaged": a file whose objects are truncated arrays / dictionaries (the loader parses objects on
            // this thread and on the workers of the global rayon pool)
            let body: &[u8] = [&b"[1 2 [3"[..], b"<</A <</B [", b"[[[[[[", b"<</K [<<"][i % 4];
            let mut f = b"%PDF-1.4\n1 0 obj\n".to_vec();
            f.extend_from_slice(body);
            f.extend_from_slice(b"\nendobj\n2 0 obj\n");
            f.extend_from_slice(body);
            f.extend_from_slice(b"\nendobj\ntrailer\n<</Root 1 0 R/Size 3>>\nstartxref\n0\n%%EOF\n");
            f
        }
    }
}

/// decode `n` damaged inputs of a kind on the calling thread; returns (errors, oks, panics)
fn disturb(kind: &str, n: usize, salt: usize) -> (usize, usize, usize) {
    let (mut e, mut o, mut p) = (0, 0, 0);
    for i in 0..n {
        let b = damaged(kind, i + salt);
        let r = if kind == "load-damaged" {
            match guarded(|| lopdf::Document::load_mem(&b)) {
                Ok(Ok(_)) => Ok(()),
                Ok(Err(_)) => Err(false),
                Err(_) => Err(true),
            }
        } else {
            match decode(&b) {
                Ok(_) => Ok(()),
                Err(m) => Err(m.starts_with("panic")),
            }
        };
        match r {
            Ok(()) => o += 1,
            Err(false) => e += 1,
            Err(true) => p += 1,
        }
    }
    (e, o, p)
}

/// valid operation lists whose operands nest arrays / dictionaries exactly `d` deep (d = 0..3)
fn judged_cases(d: usize, rng: &mut Rng) -> Vec<Vec<Operation>> {
    let int = Object::Integer;
    let fixed: Vec<Vec<Operation>> = match d {
        0 => vec![vec![op("BT", vec![]), op("Tf", vec![name(b"F1"), int(12)]), op("Tj", vec![lit(b"abc")]), op("ET", vec![])]],
        1 => vec![
            vec![op("TJ", vec![Object::Array(vec![lit(b"A"), int(-120), lit(b"B")])])],
            vec![op("BDC", vec![name(b"Span"), dict(vec![(b"MCID", int(0))])]), op("EMC", vec![])],
            vec![op("q", vec![]), api_image("G", false, 2, 1, 8, vec![(b"D".to_vec(), Object::Array(vec![int(0), int(1)]))], b'x'), op("Q", vec![])],
        ],
        2 => vec![
            vec![op("TJ", vec![Object::Array(vec![Object::Array(vec![int(1)]), dict(vec![(b"A", int(2))])])])],
            vec![op("BDC", vec![name(b"P"), dict(vec![(b"K", Object::Array(vec![int(1), int(2)]))])])],
        ],
        _ => vec![
            vec![op("BDC", vec![name(b"P"), dict(vec![(b"K", Object::Array(vec![dict(vec![(b"A", Object::Array(vec![int(1)]))])]))])])],
            vec![op("d", vec![Object::Array(vec![Object::Array(vec![Object::Array(vec![name(b"")])])]), int(0)])],
        ],
    };
    let mut v = fixed;
    for _ in 0..2 {
        v.push(random_ops(rng, true, 3));
    }
    v
}

type Job = Box<dyn FnOnce() + Send>;

/// thread 1 of the model: a dedicated OS thread; thread 2: the worker of a one-thread rayon pool
struct Execs {
    tx: std::sync::mpsc::Sender<Job>,
    pool: rayon::ThreadPool,
}

impl Execs {
    fn new() -> Execs {
        let (tx, rx) = std::sync::mpsc::channel::<Job>();
        std::thread::Builder::new()
            .stack_size(32 << 20)
            .spawn(move || {
                for j in rx {
                    j()
                }
            })
            .expect("spawn");
        let pool = rayon::ThreadPoolBuilder::new().num_threads(1).stack_size(32 << 20).build().expect("pool");
        Execs { tx, pool }
    }
    fn on<T: Send + 'static>(&self, t: u64, f: impl FnOnce() -> T + Send + 'static) -> T {
        if t == 1 {
            let (rtx, rrx) = std::sync::mpsc::channel();
            self.tx.send(Box::new(move || {
                let _ = rtx.send(f());
            })).expect("send job");
            rrx.recv().expect("job result")
        } else {
            self.pool.install(f)
        }
    }
}

/// Encode -> Decode of `ops` as JSON events (run on whatever thread calls it)
fn roundtrip_events(case: u64, cls: &str, t: u64, ops: &[Operation]) -> Vec<Value> {
    let mut v = vec![];
    match encode(ops) {
        Ok(bytes) => {
            v.push(json!({"ev": "Encode", "case": case, "cls": cls, "t": t, "ops": ops_to_tla(ops), "res": "ok", "bytes": bytes_to_json(&bytes)}));
            match decode(&bytes) {
                Ok(o) => v.push(json!({"ev": "Decode", "case": case, "cls": cls, "t": t, "res": "ok", "ops": ops_to_tla(&o)})),
                Err(e) => v.push(json!({"ev": "Decode", "case": case, "cls": cls, "t": t, "res": e, "ops": []})),
            }
        }
        Err(e) => v.push(json!({"ev": "Encode", "case": case, "cls": cls, "t": t, "ops": ops_to_tla(ops), "res": e, "bytes": []})),
    }
    v
}

fn history(args: &[String]) {
    let seed = arg_u64(args, "--seed", 1);
    let reps = arg_u64(args, "--reps", 64) as usize;
    let scheds = read_ndjson(&arg(args, "--in").unwrap());
    let mut out = NdjsonOut::create(&arg(args, "--out").unwrap());
    for (si, sc) in scheds.iter().enumerate() {
        let hist = sc["hist"].as_array().expect("hist");
        let judge = hist.last().expect("judge step");
        let (jt, jd) = (judge["t"].as_u64().unwrap(), judge["d"].as_u64().unwrap() as usize);
        let mut rng = Rng::new(seed ^ 0xC14_0004 ^ ((si as u64) << 20));
        let cases = judged_cases(jd, &mut rng);
        let ex = Execs::new();
        out.put(&json!({"ev": "Reset", "sched": si, "hist": sc["hist"], "t": jt, "d": jd}));
        // the same cases on the judging thread before ...
        for (ci, ops) in cases.iter().enumerate() {
            let o = ops.clone();
            for e in ex.on(jt, move || roundtrip_events(ci as u64, "history.fresh", jt, &o)) {
                out.put(&e);
            }
        }
        // ... the disturbances of the schedule, each on its thread ...
        for (k, st) in hist.iter().enumerate() {
            if st["a"].as_str() != Some("disturb") {
                continue;
            }
            let (t, kind) = (st["t"].as_u64().unwrap(), st["kind"].as_str().unwrap().to_string());
            let kd = kind.clone();
            let (e, o, p) = ex.on(t, move || disturb(&kd, reps, k * 7 + si));
            out.put(&json!({"ev": "Disturb", "sched": si, "t": t, "kind": kind, "n": reps, "err": e, "ok": o, "panic": p}));
        }
        // ... and after
        for (ci, ops) in cases.iter().enumerate() {
            let o = ops.clone();
            for e in ex.on(jt, move || roundtrip_events(ci as u64, "history.after", jt, &o)) {
                out.put(&e);
            }
        }
    }
    out.finish();
}

// ---------------------------------------------------------------------------------------------
// content decoded THROUGH a Stream value: filters are transparent (decode of the stream = decode of its plain bytes)

fn flate(data: &[u8]) -> Vec<u8> {
    use std::io::Write;
    let mut e = flate2::write::ZlibEncoder::new(Vec::new(), flate2::Compression::default());
    e.write_all(data).expect("deflate");
    e.finish().expect("deflate")
}

fn ascii85(data: &[u8]) -> Vec<u8> {
    let mut out = vec![];
    for chunk in data.chunks(4) {
        let mut b = [0u8; 4];
        b[..chunk.len()].copy_from_slice(chunk);
        let mut v = u32::from_be_bytes(b);
        if v == 0 && chunk.len() == 4 {
            out.push(b'z');
            continue;
        }
        let mut d = [0u8; 5];
        for i in (0..5).rev() {
            d[i] = (v % 85) as u8 + b'!';
            v /= 85;
        }
        out.extend_from_slice(&d[..chunk.len() + 1]);
    }
    out.extend_from_slice(b"~>");
    out
}

fn ascii_hex(data: &[u8]) -> Vec<u8> {
    let mut out: Vec<u8> = data.iter().flat_map(|b| format!("{b:02X}").into_bytes()).collect();
    out.push(b'>');
    out
}

/// a stream whose stored content is `plain` under the named filter chain (applied by a reader left to right)
fn filtered_stream(plain: &[u8], chain: &str) -> Option<lopdf::Stream> {
    let mut s = lopdf::Stream::new(Dictionary::new(), plain.to_vec());
    match chain {
        "none" => {}
        "compress()" => {
            s.compress().ok()?;
            if s.dict.get(b"Filter").is_err() {
                return None; // too small to be worth compressing: same as "none"
            }
        }
        "empty-array" => s.dict.set("Filter", Object::Array(vec![])),
        "flate" => {
            s.set_content(flate(plain));
            s.dict.set("Filter", name(b"FlateDecode"));
        }
        "a85" => {
            s.set_content(ascii85(plain));
            s.dict.set("Filter", name(b"ASCII85Decode"));
        }
        "ahx" => {
            s.set_content(ascii_hex(plain));
            s.dict.set("Filter", Object::Array(vec![name(b"ASCIIHexDecode")]));
        }
        "a85+flate" => {
            s.set_content(ascii85(&flate(plain)));
            s.dict.set("Filter", Object::Array(vec![name(b"ASCII85Decode"), name(b"FlateDecode")]));
        }
        _ => {
            s.set_content(ascii_hex(&flate(plain)));
            s.dict.set("Filter", Object::Array(vec![name(b"ASCIIHexDecode"), name(b"FlateDecode")]));
        }
    }
    Some(s)
}

fn put_via(out: &mut NdjsonOut, case: u64, cls: &str, via: &str, chain: &str, r: Result<Vec<Operation>, String>) {
    match r {
        Ok(ops) => out.put(&json!({"ev": "DecodeVia", "case": case, "cls": cls, "via": via, "filters": chain, "res": "ok", "ops": ops_to_tla(&ops)})),
        Err(e) => out.put(&json!({"ev": "DecodeVia", "case": case, "cls": cls, "via": via, "filters": chain, "res": e, "ops": []})),
    }
}

fn wrap<T>(r: Result<lopdf::Result<T>, String>) -> Result<T, String> {
    match r {
        Ok(Ok(v)) => Ok(v),
        Ok(Err(e)) => Err(format!("err:{e:?}")),
        Err(p) => Err(format!("panic:{p}")),
    }
}

/// a one-page document whose page content is `stream`
fn page_doc(stream: lopdf::Stream) -> (lopdf::Document, lopdf::ObjectId, lopdf::ObjectId) {
    let mut doc = lopdf::Document::with_version("1.5");
    let pages_id = doc.new_object_id();
    let contents_id = doc.add_object(stream);
    let mut page = Dictionary::new();
    page.set("Type", name(b"Page"));
    page.set("Parent", Object::Reference(pages_id));
    page.set("Contents", Object::Reference(contents_id));
    let page_id = doc.add_object(page);
    let mut pages = Dictionary::new();
    pages.set("Type", name(b"Pages"));
    pages.set("Kids", Object::Array(vec![Object::Reference(page_id)]));
    pages.set("Count", Object::Integer(1));
    pages.set("MediaBox", Object::Array(vec![0.into(), 0.into(), 612.into(), 792.into()]));
    doc.objects.insert(pages_id, Object::Dictionary(pages));
    let mut cat = Dictionary::new();
    cat.set("Type", name(b"Catalog"));
    cat.set("Pages", Object::Reference(pages_id));
    let cat_id = doc.add_object(cat);
    doc.trailer.set("Root", Object::Reference(cat_id));
    (doc, page_id, contents_id)
}

fn streams(args: &[String]) {
    let seed = arg_u64(args, "--seed", 1);
    let n = arg_u64(args, "--n", 20);
    let mut out = NdjsonOut::create(&arg(args, "--out").unwrap());
    let mut rng = Rng::new(seed ^ 0xC14_0005);
    // operation lists: long enough for compress() to pay, fixed hostile ones, seeded random ones
    let mut lists: Vec<(String, Vec<Operation>)> = vec![];
    lists.push(("lines-120".to_string(), (0..40i64).flat_map(|i| vec![op("m", vec![i.into(), 0.into()]), op("l", vec![i.into(), 100.into()]), op("S", vec![])]).collect()));
    for (c, ops) in special_cases().into_iter().filter(|(c, _)| ["special.text", "special.strings", "special.names-hostile", "special.marked", "special.numbers"].contains(&c.as_str())) {
        lists.push((c, ops));
    }
    lists.push(("inline".to_string(), vec![op("q", vec![]), api_image("RGB", false, 3, 2, 8, vec![], b' '), op("Q", vec![])]));
    for i in 0..n {
        let mut ops = vec![];
        for _ in 0..(1 + rng.below(12)) {
            ops.extend(random_ops(&mut rng, i % 2 == 0, 6));
        }
        lists.push(("random".to_string(), ops));
    }
    let chains = ["none", "compress()", "empty-array", "flate", "a85", "ahx", "a85+flate", "ahx+flate"];
    let mut case = 0u64;
    for (li, (lc, ops)) in lists.iter().enumerate() {
        let plain = match encode(ops) {
            Ok(b) => b,
            Err(_) => continue,
        };
        for chain in chains {
            let Some(stream) = filtered_stream(&plain, chain) else { continue };
            let cls = format!("stream.{lc}");
            // the reference point: Content::encode of the operations and Content::decode of the plain bytes
            out.put(&json!({"ev": "Encode", "case": case, "cls": cls, "ops": ops_to_tla(ops), "res": "ok", "bytes": bytes_to_json(&plain)}));
            put_decode(&mut out, case, &cls, &plain);
            // (a) Stream::decode_content
            let s1 = stream.clone();
            put_via(&mut out, case, &cls, "Stream::decode_content", chain, wrap(guarded(move || s1.decode_content())).map(|c| c.operations));
            // (b) the modify-style loop of tests/modify.rs: decode_content -> (edit nothing) -> write the encoded content
            // back -> read the page content again.  set_plain_content is the call for unfiltered bytes; set_content
            // stores raw bytes and is only equivalent when the stream has no filter
            for setter in ["set_plain_content", "set_content"] {
                if setter == "set_content" && !["none", "empty-array"].contains(&chain) {
                    continue;
                }
                let mut s2 = stream.clone();
                let r = wrap(guarded(move || -> lopdf::Result<Vec<Operation>> {
                    let content = s2.decode_content()?;
                    let bytes = content.encode()?;
                    if setter == "set_content" {
                        s2.set_content(bytes);
                    } else {
                        s2.set_plain_content(bytes);
                    }
                    Ok(Content::decode(&s2.get_plain_content()?)?.operations)
                }));
                put_via(&mut out, case, &cls, &format!("modify-loop.{setter}"), chain, r);
            }
            // (c) through a document: page content, saved and loaded; both decoders on the loaded page
            if li % 2 == 0 || chain == "compress()" {
                let s3 = stream.clone();
                let r = guarded(move || -> lopdf::Result<(Vec<Operation>, Vec<Operation>)> {
                    let (mut doc, _, _) = page_doc(s3);
                    let mut bytes = Vec::new();
                    doc.save_to(&mut bytes)?;
                    let loaded = lopdf::Document::load_mem(&bytes)?;
                    let page_id = *loaded.get_pages().values().next().ok_or(lopdf::Error::PageNumberNotFound(1))?;
                    let a = loaded.get_and_decode_page_content(page_id)?.operations;
                    let cid = loaded.get_page_contents(page_id)[0];
                    let b = loaded.get_object(cid)?.as_stream()?.decode_content()?.operations;
                    Ok((a, b))
                });
                match wrap(r) {
                    Ok((a, b)) => {
                        put_via(&mut out, case, &cls, "Document::get_and_decode_page_content(save;load)", chain, Ok(a));
                        put_via(&mut out, case, &cls, "Stream::decode_content(save;load)", chain, Ok(b));
                    }
                    Err(e) => put_via(&mut out, case, &cls, "Document::get_and_decode_page_content(save;load)", chain, Err(e)),
                }
            }
            case += 1;
        }
        // (d) add_to_page_content -> Document::compress -> save -> load (the path of the library's own examples)
        let ops2 = ops.clone();
        let cls = format!("stream.{lc}");
        let r = guarded(move || -> lopdf::Result<(Vec<Operation>, Vec<Operation>, bool)> {
            let (mut doc, page_id, _) = page_doc(lopdf::Stream::new(Dictionary::new(), vec![]));
            doc.add_to_page_content(page_id, Content { operations: ops2 })?;
            doc.compress();
            let mut bytes = Vec::new();
            doc.save_to(&mut bytes)?;
            let loaded = lopdf::Document::load_mem(&bytes)?;
            let page_id = *loaded.get_pages().values().next().ok_or(lopdf::Error::PageNumberNotFound(1))?;
            let a = loaded.get_and_decode_page_content(page_id)?.operations;
            let cid = *loaded.get_page_contents(page_id).last().ok_or(lopdf::Error::PageNumberNotFound(1))?;
            let st = loaded.get_object(cid)?.as_stream()?;
            Ok((a, st.decode_content()?.operations, st.dict.get(b"Filter").is_ok()))
        });
        out.put(&json!({"ev": "Encode", "case": case, "cls": cls, "ops": ops_to_tla(ops), "res": "ok", "bytes": bytes_to_json(&plain)}));
        put_decode(&mut out, case, &cls, &plain);
        match wrap(r) {
            Ok((a, b, filtered)) => {
                let chain = if filtered { "Document::compress" } else { "none" };
                put_via(&mut out, case, &cls, "add_to_page_content;compress;save;load;get_and_decode_page_content", chain, Ok(a));
                put_via(&mut out, case, &cls, "add_to_page_content;compress;save;load;Stream::decode_content", chain, Ok(b));
            }
            Err(e) => put_via(&mut out, case, &cls, "add_to_page_content;compress;save;load;get_and_decode_page_content", "Document::compress", Err(e)),
        }
        case += 1;
    }
    out.finish();
}

fn main() {
    let args: Vec<String> = std::env::args().collect();
    match args.get(1).map(String::as_str) {
        Some("record") => record(&args),
        Some("cases") => cases(&args),
        Some("replay") => replay(&args),
        Some("inline") => inline(&args),
        Some("history") => history(&args),
        Some("streams") => streams(&args),
        Some("worker") => worker(),
        Some("deep") => deep(&args),
        _ => {
            eprintln!("usage: c14 record --seed S --n N [--rows all|critical|none] --out F | cases --seed S --n N --out F | replay --in F --out F | inline --seed S --n N --out F | history --seed S --in F --out F [--reps N] | streams --seed S --n N --out F | deep --exe PATH --label L [--stack BYTES] --out F | worker");
            std::process::exit(2)
        }
    }
}
