//! C17 — bookmarks become a well-formed outline that reads back.
//!
//! One *case* is a bookmark forest given as an add sequence
//!   {np, adds:[{parent, title:[code points], page, zg}], adjust, style}
//! (parent = 1-based index of an earlier add, 0 = top level; page = page number 1..np, 0 = the
//! zero page (0,zg)).  `run_case` drives the real API (add_bookmark*, adjust_zero_pages,
//! build_outline, further allocations (add_object / new_object_id), catalog /Outlines (through
//! catalog_mut or as a new catalog made with add_object), get_toc, save_to/load_mem in both xref formats) and logs one
//! record: the forest as lopdf holds it, the produced outline sub-graph projected to
//! [id, Parent, First, Last, Next, Prev, Title bytes, destination page] and the three get_toc()
//! results.  `replay` runs the cases TLC generated (MC_Outline), `record` seeded random forests
//! (<= 25 bookmarks, depth <= 6, Unicode titles).  Both write the same record format, which
//! Trace_Outline judges.  Cases run in a supervised child process so that a panic, abort, stack
//! overflow or hang (get_toc on a Next cycle never returns) is data.
//!
//! Document-side dimensions of a case: `dests` (a /Names /Dests name tree or a PDF 1.1 /Dests dictionary in
//! every legal spelling next to the forest), `room` (the base document's max_id is placed `room` numbers
//! below the highest usable object number u32::MAX - 1; ids >= 3*2^30 are logged minus 2^31 so that they fit
//! TLC's integers), and the stack: the walkers named in `small` (subset of adjust/build/toc; given for the
//! deep chains, where it matters) run on a thread with `stack_kb` KiB (default 2048, Rust's default for
//! spawned threads), everything else of such a case on a 1 GiB thread.  Chains t1 > t2 > ... > tn of any length are logged in a compact per-level format
//! (kind = "chain") that Trace_Outline!ChainJudge checks in linear time.
use lopdf::xref::XrefType;
use lopdf::{dictionary, Bookmark, Dictionary, Document, Object, ObjectId};
use lopdf_conform::{guard::guarded, io::*, rng::Rng, sup};
use serde_json::{json, Value};
use std::collections::{BTreeSet, HashMap};
use std::time::Duration;

const BAD: u32 = 999_999_999;

/// number of objects `add_dests` allocates for a spelling
fn dests_objects(dests: &str) -> usize {
    match dests {
        "none" | "old-direct" | "old-names-key" => 0,
        "tree-direct" => 3,     // tree root, leaf, destination dictionary
        "kids-ref" => 4,        // + Kids array
        "names-ref" => 4,       // + Names array
        "d-ref" => 4,           // + D array
        "value-array-ref" => 3, // root, leaf, destination array as an object
        "old-refs" => 2,        // destination array object, destination dictionary object
        _ => panic!("harness: unknown dests spelling {dests}"),
    }
}

/// A table of named destinations next to the bookmark forest (no bookmark uses it), in one of the legal
/// spellings: PDF 1.2 name tree under /Names /Dests (ISO 32000-1 7.9.6, 12.3.2.3) with Kids / Names / D given
/// directly or as indirect references, or the PDF 1.1 /Dests dictionary of the catalog.
fn add_dests(doc: &mut Document, catalog: &mut Dictionary, dests: &str, page: ObjectId) {
    let arr = |fit: &str| Object::Array(vec![Object::Reference(page), Object::Name(fit.as_bytes().to_vec())]);
    let name = |s: &str| Object::string_literal(s);
    match dests {
        "none" => {}
        "tree-direct" | "kids-ref" | "names-ref" | "d-ref" | "value-array-ref" => {
            let root_id = doc.new_object_id();
            let leaf_id = doc.new_object_id();
            let d: Object = if dests == "d-ref" { Object::Reference(doc.add_object(arr("Fit"))) } else { arr("Fit") };
            let value: Object = if dests == "value-array-ref" {
                Object::Reference(doc.add_object(arr("FitB")))
            } else {
                Object::Reference(doc.add_object(dictionary! {"D" => d}))
            };
            let names = Object::Array(vec![name("chap1"), value, name("chap2"), Object::Dictionary(dictionary! {"D" => arr("FitH")})]);
            let names: Object = if dests == "names-ref" { Object::Reference(doc.add_object(names)) } else { names };
            doc.objects.insert(
                leaf_id,
                Object::Dictionary(dictionary! {"Names" => names, "Limits" => vec![name("chap1"), name("chap2")]}),
            );
            let kids = Object::Array(vec![Object::Reference(leaf_id)]);
            let kids: Object = if dests == "kids-ref" { Object::Reference(doc.add_object(kids)) } else { kids };
            doc.objects.insert(root_id, Object::Dictionary(dictionary! {"Kids" => kids}));
            catalog.set("Names", dictionary! {"Dests" => Object::Reference(root_id)});
        }
        "old-direct" => {
            catalog.set("Dests", dictionary! {"chap1" => arr("Fit"), "chap2" => dictionary!{"D" => arr("FitH")}});
        }
        "old-names-key" => {
            // a destination may be called anything, also "Names" or "Kids"
            catalog.set("Dests", dictionary! {"Names" => dictionary!{"D" => arr("Fit")}, "Kids" => dictionary!{"D" => arr("FitB")}});
        }
        "old-refs" => {
            let a = doc.add_object(arr("Fit"));
            let d = doc.add_object(dictionary! {"D" => Object::Reference(a)});
            catalog.set("Dests", dictionary! {"chap1" => Object::Reference(a), "chap2" => Object::Reference(d)});
        }
        _ => panic!("harness: unknown dests spelling {dests}"),
    }
}

pub const DESTS: &[&str] =
    &["none", "tree-direct", "kids-ref", "names-ref", "d-ref", "value-array-ref", "old-direct", "old-names-key", "old-refs"];

/// Document with `np` pages.  `style` (seeded) decides extra objects, the order in which page
/// objects get their ids (so page number != id order), an intermediate Pages node, and whether the
/// document is first saved and loaded (a *loaded* base document).  Returns (doc, page ids in page order).
fn mkdoc(np: usize, style: u64, dests: &str, room: Option<u32>) -> Result<(Document, Vec<u32>), String> {
    let mut rng = Rng::new(style);
    let mut doc = Document::with_version("1.5");
    // the base document has at most 16 objects; with `room` its max_id ends exactly `room` below u32::MAX - 1
    let draw = (rng.below(3), rng.below(3), np >= 2 && rng.chance(1, 3));
    let mut rng = Rng::new(style ^ 0x5151);
    if let Some(room) = room {
        let nobj = 1 + draw.0 + np + draw.2 as usize + draw.1 + 1 + dests_objects(dests);
        doc.max_id = (u32::MAX - 1).checked_sub(room).and_then(|x| x.checked_sub(nobj as u32)).ok_or("harness: room")?;
    }
    let pages_id = doc.new_object_id();
    for _ in 0..draw.0 {
        doc.add_object(dictionary! {"Type" => "Font", "Subtype" => "Type1", "BaseFont" => "Courier"});
    }
    let mut ids: Vec<ObjectId> = (0..np).map(|_| doc.new_object_id()).collect();
    if style % 2 == 1 {
        rng.shuffle(&mut ids);
    }
    let nested = draw.2;
    let split = if nested { 1 + rng.below(np - 1) } else { np };
    let inner_id = if nested { Some(doc.new_object_id()) } else { None };
    for (k, id) in ids.iter().enumerate() {
        let parent = if k >= split { inner_id.unwrap() } else { pages_id };
        doc.objects.insert(
            *id,
            Object::Dictionary(dictionary! {"Type" => "Page", "Parent" => parent,
                "MediaBox" => vec![0.into(), 0.into(), 595.into(), 842.into()]}),
        );
    }
    let mut kids: Vec<Object> = ids[..split].iter().map(|i| Object::Reference(*i)).collect();
    if let Some(inner) = inner_id {
        let ik: Vec<Object> = ids[split..].iter().map(|i| Object::Reference(*i)).collect();
        doc.objects.insert(
            inner,
            Object::Dictionary(dictionary! {"Type" => "Pages", "Parent" => pages_id, "Count" => ik.len() as i64, "Kids" => ik}),
        );
        kids.push(Object::Reference(inner));
    }
    doc.objects
        .insert(pages_id, Object::Dictionary(dictionary! {"Type" => "Pages", "Count" => np as i64, "Kids" => kids}));
    for _ in 0..draw.1 {
        doc.add_object(Object::Integer(7));
    }
    let mut catalog = dictionary! {"Type" => "Catalog", "Pages" => pages_id};
    add_dests(&mut doc, &mut catalog, dests, ids[0]);
    let catalog_id = doc.add_object(catalog);
    doc.trailer.set("Root", catalog_id);
    if let Some(room) = room {
        if doc.max_id != u32::MAX - 1 - room {
            return Err(format!("harness: room {} vs max_id {}", room, doc.max_id));
        }
    }
    if room.is_none() && rng.chance(1, 4) {
        // a loaded base document (max_id comes from the reader)
        let fmt = if rng.chance(1, 2) { "table" } else { "stream" };
        // a failure here is data about lopdf (a plain n-page document must save and load), not a harness failure
        doc = save_load(&mut doc, fmt).map_err(|e| format!("base-document: {e}"))?;
    }
    let pageids: Vec<u32> = ids.iter().map(|i| i.0).collect();
    Ok((doc, pageids))
}

fn link(d: &Dictionary, key: &[u8]) -> u32 {
    match d.get(key) {
        Err(_) => 0,
        Ok(Object::Reference((n, 0))) => *n,
        Ok(_) => BAD,
    }
}

fn deref<'a>(doc: &'a Document, o: &'a Object) -> &'a Object {
    let mut o = o;
    for _ in 0..8 {
        match o {
            Object::Reference(id) => match doc.objects.get(id) {
                Some(x) => o = x,
                None => return o,
            },
            _ => return o,
        }
    }
    o
}

fn dest_of_array(doc: &Document, d: &Object) -> Option<u32> {
    match deref(doc, d) {
        Object::Array(a) => match a.first() {
            Some(Object::Reference((n, 0))) => Some(*n),
            _ => None,
        },
        _ => None,
    }
}

/// projection of one outline item
fn item_json(doc: &Document, id: u32, d: &Dictionary) -> Value {
    let title: Vec<u32> = match d.get(b"Title").map(|t| deref(doc, t)) {
        Ok(Object::String(b, _)) => b.iter().map(|x| *x as u32).collect(),
        _ => vec![BAD],
    };
    let (mut dk, mut aid, mut dest) = ("none".to_string(), 0u32, 0u32);
    if let Ok(a) = d.get(b"A") {
        if let Object::Reference((n, 0)) = a {
            aid = *n;
        }
        if let Object::Dictionary(ad) = deref(doc, a) {
            let s = ad.get(b"S").ok().and_then(|s| s.as_name().ok()).map(|n| String::from_utf8_lossy(n).to_string());
            dk = format!("A:{}", s.unwrap_or_default());
            dest = ad.get(b"D").ok().and_then(|x| dest_of_array(doc, x)).unwrap_or(0);
        } else {
            dk = "A:bad".to_string();
        }
    } else if let Ok(x) = d.get(b"Dest") {
        dk = "Dest".to_string();
        dest = dest_of_array(doc, x).unwrap_or(0);
    }
    json!({"id": wid(id), "parent": wid(link(d, b"Parent")), "first": wid(link(d, b"First")), "last": wid(link(d, b"Last")),
           "next": wid(link(d, b"Next")), "prev": wid(link(d, b"Prev")), "title": title, "dk": dk, "aid": wid(aid), "dest": wid(dest)})
}

/// Run `f` on a thread of its own with a stack of `kb` KiB (a panic inside `f` is re-raised here).
fn on_stack<T: Send>(kb: usize, f: impl FnOnce() -> T + Send) -> T {
    std::thread::scope(|s| {
        let h = std::thread::Builder::new().stack_size(kb * 1024).spawn_scoped(s, f).expect("spawn phase thread");
        match h.join() {
            Ok(v) => v,
            Err(e) => std::panic::resume_unwind(e),
        }
    })
}

/// which stack a phase runs on
struct Stacks {
    kb: usize,
    small: Vec<String>,
}

impl Stacks {
    fn run<T: Send>(&self, phase: &str, f: impl FnOnce() -> T + Send) -> T {
        if self.small.iter().any(|p| p == phase) {
            on_stack(self.kb, f)
        } else {
            f()
        }
    }
}

/// get_toc (and the drop of everything it built) as data; `flat` = per-column arrays for chain records
fn toc_json(doc: &Document, st: &Stacks, flat: bool) -> Value {
    match st.run("toc", || guarded(|| doc.get_toc())) {
        Ok(Ok(t)) if flat => json!({"ok": true, "err": "", "errors": t.errors.len(), "n": t.toc.len(),
            "lv": t.toc.iter().map(|e| e.level).collect::<Vec<_>>(),
            "pg": t.toc.iter().map(|e| e.page).collect::<Vec<_>>(),
            "tt": t.toc.iter().map(|e| e.title.chars().map(|c| c as u32).collect::<Vec<_>>()).collect::<Vec<_>>()}),
        Ok(Ok(t)) => json!({"ok": true, "err": "", "errors": t.errors.len(),
            "toc": t.toc.iter().map(|e| json!([e.level, e.title.chars().map(|c| c as u32).collect::<Vec<_>>(), e.page])).collect::<Vec<_>>()}),
        Ok(Err(e)) if flat => json!({"ok": false, "err": lopdf_conform::wire::err_tag(&e), "errors": 0, "n": 0, "lv": [], "pg": [], "tt": []}),
        Ok(Err(e)) => json!({"ok": false, "err": lopdf_conform::wire::err_tag(&e), "errors": 0, "toc": []}),
        Err(p) if flat => json!({"ok": false, "err": format!("panic: {p}"), "errors": 0, "n": 0, "lv": [], "pg": [], "tt": []}),
        Err(p) => json!({"ok": false, "err": format!("panic: {p}"), "errors": 0, "toc": []}),
    }
}

fn save_load(doc: &mut Document, fmt: &str) -> Result<Document, String> {
    doc.reference_table.cross_reference_type =
        if fmt == "table" { XrefType::CrossReferenceTable } else { XrefType::CrossReferenceStream };
    let mut buf = Vec::new();
    match guarded(|| doc.save_to(&mut buf)) {
        Ok(Ok(())) => {}
        Ok(Err(e)) => return Err(format!("save: {e}")),
        Err(p) => return Err(format!("save panic: {p}")),
    }
    match guarded(|| Document::load_mem(&buf)) {
        Ok(Ok(d)) => Ok(d),
        Ok(Err(e)) => Err(format!("load: {}", lopdf_conform::wire::err_tag(&e))),
        Err(p) => Err(format!("load panic: {p}")),
    }
}

/// Object numbers as TLC can hold them: the top quarter of u32 is moved down by 2^31 (order among the
/// numbers of one document is kept as long as none lies in [2^30, 3*2^30), which no case produces).
fn wid(x: u32) -> u32 {
    if x >= 3 << 30 {
        x - (1 << 31)
    } else if x >= 1 << 30 {
        BAD
    } else {
        x
    }
}

fn wids(v: &[u32]) -> Vec<u32> {
    v.iter().map(|x| wid(*x)).collect()
}

/// title of level k (1-based) of a compact chain: "t<k>", and a CJK character + <k> on every third level
fn chain_title(k: usize) -> String {
    if k % 3 == 0 {
        format!("\u{7AE0}{k}")
    } else {
        format!("t{k}")
    }
}

/// the bookmark forest of a case: either explicit `adds` or the chain t1 > t2 > ... > tn with `pages`
enum Forest<'a> {
    Adds(&'a Vec<Value>),
    Chain { n: usize, zero: bool, leaf_page: usize },
}

fn run_case(c: &Value) -> Value {
    let np = c["np"].as_u64().unwrap() as usize;
    let style = c["style"].as_u64().unwrap_or(0);
    let dests = c["dests"].as_str().unwrap_or("none").to_string();
    let room = c["room"].as_u64().map(|r| r as u32);
    let compact = c["kind"].as_str() == Some("chain");
    let st = Stacks {
        kb: c["stack_kb"].as_u64().unwrap_or(2048) as usize,
        small: c["small"]
            .as_array()
            .map(|a| a.iter().map(|x| x.as_str().unwrap().to_string()).collect())
            .unwrap_or_default(),
    };
    let fmts: Vec<String> = c["fmts"]
        .as_array()
        .map(|a| a.iter().map(|x| x.as_str().unwrap().to_string()).collect())
        .unwrap_or_else(|| vec!["table".into(), "stream".into()]);
    let chain = c["chain"].as_bool().unwrap_or(true);
    let adjust = c["adjust"].as_bool().unwrap_or(true);
    // allocations after build_outline are the allocator's business: at the numeric limit they are only made
    // when the numbers left after the outline suffice for them
    let nbook = if compact { c["n"].as_u64().unwrap_or(0) } else { c["adds"].as_array().map(|a| a.len() as u64).unwrap_or(0) };
    let mut post_n = c["post"].as_u64().unwrap_or(0);
    let mut link_new = c["link"].as_str() == Some("new");
    if let Some(r) = room {
        if (r as u64) < 1 + 2 * nbook + post_n + link_new as u64 {
            post_n = 0;
            link_new = false;
        }
    }
    let mut rec = json!({"np": np, "adjust": adjust, "style": style, "fmts": fmts, "chain": chain,
                         "post": post_n, "link": if link_new { "new" } else { "mut" },
                         "dests": dests, "room": room.map(|r| r as i64).unwrap_or(-1),
                         "stack_kb": st.kb, "small": st.small});
    let empty = vec![];
    let forest = if compact {
        rec["kind"] = json!("chain");
        rec["n"] = c["n"].clone();
        rec["zero"] = c["zero"].clone();
        rec["leaf_page"] = c["leaf_page"].clone();
        Forest::Chain {
            n: c["n"].as_u64().unwrap() as usize,
            zero: c["zero"].as_bool().unwrap_or(false),
            leaf_page: c["leaf_page"].as_u64().unwrap_or(1) as usize,
        }
    } else {
        rec["adds"] = c["adds"].clone();
        Forest::Adds(c["adds"].as_array().unwrap_or(&empty))
    };
    let (mut doc, pageids) = match guarded(|| mkdoc(np, style, &dests, room)) {
        Ok(Ok(x)) => x,
        Ok(Err(e)) => {
            rec["panic"] = json!(e);
            return rec;
        }
        Err(p) => {
            rec["panic"] = json!(format!("base-document: panic: {p}"));
            return rec;
        }
    };
    rec["pageids"] = json!(wids(&pageids));
    // ---- AddBookmark*
    let mut bids: Vec<u32> = vec![];
    let r = guarded(|| match &forest {
        Forest::Adds(adds) => {
            for a in adds.iter() {
                let title: String =
                    a["title"].as_array().unwrap().iter().map(|x| char::from_u32(x.as_u64().unwrap() as u32).expect("scalar value")).collect();
                let p = a["page"].as_u64().unwrap() as usize;
                let page: ObjectId = if p == 0 { (0, a["zg"].as_u64().unwrap_or(0) as u16) } else { (pageids[p - 1], 0) };
                let parent = match a["parent"].as_u64().unwrap() as usize {
                    0 => None,
                    k => Some(bids[k - 1]),
                };
                let fmt = a["fmt"].as_u64().unwrap_or(0) as u32;
                let id = doc.add_bookmark(Bookmark::new(title, [0.0, 0.5, 1.0], fmt, page), parent);
                bids.push(id);
            }
        }
        Forest::Chain { n, zero, leaf_page } => {
            // level k: page ((k + leaf_page) mod np) + 1, or the zero page on every level but the last
            for k in 1..=*n {
                let page: ObjectId = if *zero && k < *n { (0, 0) } else { (pageids[(k + leaf_page) % np], 0) };
                let parent = bids.last().copied();
                let id = doc.add_bookmark(Bookmark::new(chain_title(k), [0.0, 0.5, 1.0], (k % 4) as u32, page), parent);
                bids.push(id);
            }
        }
    });
    if let Err(p) = r {
        rec["panic"] = json!(format!("add_bookmark: {p}"));
        return rec;
    }
    if !compact {
        rec["bids"] = json!(bids);
        rec["roots"] = json!(doc.bookmarks);
        rec["children"] =
            json!(bids.iter().map(|b| doc.bookmark_table.get(b).map(|x| x.children.clone()).unwrap_or_default()).collect::<Vec<_>>());
    }
    // ---- AdjustZeroPages
    if adjust {
        if let Err(p) = st.run("adjust", || guarded(|| doc.adjust_zero_pages())) {
            rec["panic"] = json!(format!("adjust_zero_pages: {p}"));
            return rec;
        }
    }
    if !compact {
        rec["adj"] = json!(bids.iter().map(|b| doc.bookmark_table.get(b).map(|x| wid(x.page.0)).unwrap_or(BAD)).collect::<Vec<_>>());
    }
    // ---- BuildOutline
    let before = doc.objects.clone();
    let before_state = (doc.max_id, doc.trailer.clone());
    rec["base"] = json!(wid(doc.max_id));
    if !compact {
        rec["oldids"] = json!(before.keys().map(|k| wid(k.0)).collect::<BTreeSet<u32>>());
    }
    let root = match st.run("build", || guarded(|| doc.build_outline())) {
        Ok(r) => r,
        Err(p) => {
            rec["panic"] = json!(format!("build_outline: {p}"));
            return rec;
        }
    };
    let rootn = match root {
        Some((n, 0)) => wid(n),
        Some(_) => BAD,
        None => 0,
    };
    rec["root"] = json!(rootn);
    rec["max_id"] = json!(wid(doc.max_id));
    let changed: Vec<u32> = before.iter().filter(|(k, v)| doc.objects.get(k) != Some(v)).map(|(k, _)| k.0).collect();
    rec["changed"] = json!(wids(&changed));
    // did a refusing build_outline leave the document alone?
    rec["untouched"] = json!(doc.objects == before && doc.max_id == before_state.0 && doc.trailer == before_state.1);
    let mut items = vec![];
    let mut others = vec![];
    let mut rootrec = json!({"first": 0, "last": 0, "present": false});
    for (id, o) in doc.objects.iter() {
        if before.contains_key(id) && !changed.contains(&id.0) {
            continue;
        }
        if id.1 != 0 {
            others.push(BAD);
            continue;
        }
        match o {
            Object::Dictionary(d) if Some(*id) == root => {
                rootrec = json!({"first": wid(link(d, b"First")), "last": wid(link(d, b"Last")), "present": true});
            }
            Object::Dictionary(d) if d.has(b"Title") => items.push(item_json(&doc, id.0, d)),
            _ => others.push(wid(id.0)),
        }
    }
    rec["rootrec"] = rootrec;
    if compact {
        // per level: the item whose /Title is a spelling of the level's title (the validator re-checks the bytes)
        let n = bids.len();
        let mut by_title: HashMap<Vec<u64>, Vec<usize>> = HashMap::new();
        for (j, it) in items.iter().enumerate() {
            let t: Vec<u64> = it["title"].as_array().unwrap().iter().map(|x| x.as_u64().unwrap()).collect();
            by_title.entry(t).or_default().push(j);
        }
        let cols = ["id", "parent", "first", "last", "next", "prev", "aid", "dest"];
        let mut col: Vec<Vec<u64>> = vec![Vec::with_capacity(n); cols.len()];
        let (mut found, mut dkok, mut titles, mut destpn) = (vec![], vec![], vec![], vec![]);
        for k in 1..=n {
            let t = chain_title(k);
            let ascii: Vec<u64> = t.bytes().map(|b| b as u64).collect();
            let mut u16be: Vec<u64> = vec![0xFE, 0xFF];
            u16be.extend(t.encode_utf16().flat_map(|u| u.to_be_bytes()).map(|b| b as u64));
            let mut u8bom: Vec<u64> = vec![0xEF, 0xBB, 0xBF];
            u8bom.extend(t.bytes().map(|b| b as u64));
            let mut hits: Vec<usize> = vec![];
            for cand in [if t.is_ascii() { Some(ascii) } else { None }, Some(u16be), Some(u8bom)].into_iter().flatten() {
                if let Some(js) = by_title.get(&cand) {
                    hits.extend(js);
                }
            }
            if hits.len() == 1 {
                let it = &items[hits[0]];
                found.push(1);
                for (ci, cn) in cols.iter().enumerate() {
                    col[ci].push(it[*cn].as_u64().unwrap());
                }
                dkok.push(if matches!(it["dk"].as_str(), Some("A:GoTo") | Some("Dest")) { 1 } else { 0 });
                titles.push(it["title"].clone());
                let d = it["dest"].as_u64().unwrap();
                destpn.push(rec["pageids"].as_array().unwrap().iter().position(|p| p.as_u64() == Some(d)).map(|i| i + 1).unwrap_or(0));
            } else {
                found.push(0);
                for c in col.iter_mut() {
                    c.push(0);
                }
                dkok.push(0);
                titles.push(json!([]));
                destpn.push(0);
            }
        }
        for (ci, cn) in cols.iter().enumerate() {
            rec[*cn] = json!(col[ci]);
        }
        rec["found"] = json!(found);
        rec["dkok"] = json!(dkok);
        rec["title"] = json!(titles);
        rec["destpn"] = json!(destpn);
        rec["nitems"] = json!(items.len());
        rec["nothers"] = json!(others.len());
    } else {
        rec["items"] = json!(items);
        rec["others"] = json!(others);
    }
    // ---- allocations after build_outline: `post` calls alternating add_object / new_object_id, then
    //      LinkCatalog: "mut" = /Outlines set in the existing catalog (as examples/merge.rs and the README
    //      do), "new" = a new catalog carrying /Outlines is made with add_object and becomes the Root
    let built = doc.objects.clone();
    let mut later: Vec<u32> = vec![];
    let post = guarded(|| {
        for j in 0..post_n {
            let id = if j % 2 == 0 { doc.add_object(Object::Integer(j as i64)) } else { doc.new_object_id() };
            later.push(if id.1 == 0 { wid(id.0) } else { BAD });
        }
        if let Some(r) = root {
            if link_new {
                match doc.catalog().map(|d| d.clone()) {
                    Ok(mut cat) => {
                        cat.set("Outlines", Object::Reference(r));
                        let id = doc.add_object(cat);
                        later.push(if id.1 == 0 { wid(id.0) } else { BAD });
                        doc.trailer.set("Root", Object::Reference(id));
                        true
                    }
                    Err(_) => false,
                }
            } else {
                match doc.catalog_mut() {
                    Ok(cat) => {
                        cat.set("Outlines", Object::Reference(r));
                        true
                    }
                    Err(_) => false,
                }
            }
        } else {
            true
        }
    });
    match post {
        Ok(true) => {}
        Ok(false) => {
            rec["panic"] = json!("base-document: no catalog");
            return rec;
        }
        Err(p) => {
            rec["panic"] = json!(format!("allocation-after-build: {p}"));
            return rec;
        }
    }
    rec["later"] = json!(later);
    // outline objects that no longer are what build_outline wrote
    rec["clobbered"] = json!(built
        .iter()
        .filter(|(k, v)| !before.contains_key(k) && doc.objects.get(k) != Some(v))
        .map(|(k, _)| wid(k.0))
        .collect::<Vec<u32>>());
    // ---- GetToc, then Save;Load;GetToc in the xref formats of `fmts` (each format on the previously reloaded
    //      document when chain = true, on the original otherwise)
    let mut tocs = vec![toc_json(&doc, &st, compact)];
    let mut cur = doc.clone();
    for f in fmts.iter() {
        let src = if chain { &mut cur } else { &mut doc };
        match save_load(src, f) {
            Ok(d) => {
                tocs.push(toc_json(&d, &st, compact));
                if chain {
                    cur = d;
                }
            }
            Err(e) if compact => tocs.push(json!({"ok": false, "err": e, "errors": 0, "n": 0, "lv": [], "pg": [], "tt": []})),
            Err(e) => tocs.push(json!({"ok": false, "err": e, "errors": 0, "toc": []})),
        }
    }
    rec["tocs"] = json!(tocs);
    rec
}

// ------------------------------------------------------------------ case sources
const POOL: &[(u32, u32)] = &[
    (0x20, 0x7E), (0x20, 0x7E), (0x00, 0x7F), (0xA0, 0xFF), (0x100, 0x24F), (0x370, 0x3FF), (0x400, 0x4FF), (0x590, 0x6FF),
    (0x900, 0xDFF), (0x2000, 0x2BFF), (0x3040, 0x30FF), (0x4E00, 0x9FFF), (0xAC00, 0xD7A3), (0xE000, 0xF8FF), (0xFB00, 0xFFFF),
    (0x10000, 0x1FFFF), (0x1F300, 0x1FAFF), (0x20000, 0x2FFFF), (0xF0000, 0x10FFFF), (0x0, 0x10FFFF),
];
const SPECIAL: &[u32] = &[0x28, 0x29, 0x5C, 0x0D, 0x0A, 0x09, 0x00, 0xFEFF, 0xFFFE, 0xFFFD, 0x285C, 0x0D0A, 0x5C28, 0x2928, 0xD7FF, 0xE000,
    0x10000, 0x10FFFF, 0xFF, 0x100, 0x7F, 0x80, 0xFE, 0xFFFF];

fn scalar(rng: &mut Rng, lo: u32, hi: u32) -> u32 {
    loop {
        let c = lo + (rng.next_u64() % ((hi - lo + 1) as u64)) as u32;
        if !(0xD800..=0xDFFF).contains(&c) {
            return c;
        }
    }
}

fn random_title(rng: &mut Rng) -> Vec<u32> {
    let kind = rng.below(10);
    let len = match rng.below(8) {
        0 => 0,
        1 => 1,
        2 => 2,
        _ => 1 + rng.below(14),
    };
    let mut t = vec![];
    let (lo, hi) = *rng.pick(POOL);
    for _ in 0..len {
        t.push(match kind {
            0..=2 => scalar(rng, 0x20, 0x7E),                 // printable ASCII
            3 => *rng.pick(SPECIAL),                           // delimiters, EOLs, BOM look-alikes
            4..=6 => scalar(rng, lo, hi),                      // one script
            7 => if rng.chance(1, 2) { scalar(rng, 0x20, 0x7E) } else { scalar(rng, lo, hi) },
            _ => { let (a, b) = *rng.pick(POOL); scalar(rng, a, b) }
        });
    }
    t
}

fn random_case(rng: &mut Rng) -> Value {
    let np_max = match rng.below(4) { 0 => 1, 1 => 3, _ => 9 };
    let np = 1 + rng.below(np_max);
    let n = match rng.below(10) {
        0 => 1 + rng.below(2),
        1..=6 => 2 + rng.below(10),
        _ => 10 + rng.below(16),
    };
    // forest: parent of bookmark k among earlier ones with depth < 6, or top level; shapes: random / deep / wide
    let shape = rng.below(4);
    let mut parent = vec![0usize; n];
    let mut depth = vec![1usize; n];
    for k in 1..n {
        let p = match shape {
            0 => if rng.chance(1, 3) { 0 } else { 1 + rng.below(k) },
            1 => if rng.chance(1, 6) { 0 } else { k },                       // chains
            2 => if rng.chance(1, 2) { 0 } else { 1 + rng.below(1 + k / 4) }, // wide
            _ => rng.below(k + 1),
        };
        let p = if p > 0 && depth[p - 1] >= 6 { parent[p - 1] } else { p };
        parent[k] = p;
        depth[k] = if p == 0 { 1 } else { depth[p - 1] + 1 };
    }
    let has_child: Vec<bool> = (0..n).map(|k| parent.iter().any(|p| *p == k + 1)).collect();
    let zero_rate = *rng.pick(&[0u32, 1, 2, 4]);
    let mut titles: Vec<Vec<u32>> = vec![];
    while titles.len() < n {
        let t = random_title(rng);
        if !titles.contains(&t) {
            titles.push(t);
        }
    }
    let mut any_zero = false;
    let adds: Vec<Value> = (0..n)
        .map(|k| {
            let zero = has_child[k] && rng.chance(zero_rate, 4);
            any_zero |= zero;
            json!({"parent": parent[k], "title": titles[k], "page": if zero { 0 } else { 1 + rng.below(np) },
                   "zg": if zero && rng.chance(1, 3) { 1 + rng.below(5) } else { 0 }, "fmt": rng.below(4)})
        })
        .collect();
    let first_table = rng.chance(1, 2);
    json!({"np": np, "adds": adds, "adjust": any_zero || rng.chance(2, 3), "style": rng.next_u64() >> 34,
           "fmts": if first_table { ["table", "stream"] } else { ["stream", "table"] }, "chain": rng.chance(1, 2),
           "post": rng.below(4), "link": if rng.chance(1, 2) { "mut" } else { "new" },
           "dests": if rng.chance(1, 2) { "none" } else { *rng.pick(DESTS) }})
}

extern "C" {
    fn setrlimit(resource: i32, rlim: *const [u64; 2]) -> i32;
}

fn worker() {
    #[cfg(target_os = "linux")]
    unsafe {
        let mb: u64 = std::env::var("VERIF_WORKER_MEM_MB").ok().and_then(|s| s.parse().ok()).unwrap_or(0);
        if mb > 0 {
            let lim = [mb << 20, mb << 20];
            setrlimit(9 /* RLIMIT_AS */, &lim);
        }
        let zero = [0u64, 0u64];
        setrlimit(4 /* RLIMIT_CORE */, &zero);
    }
    lopdf_conform::guard::quiet_panics();
    sup::worker_loop(|l| {
        let c: Value = serde_json::from_str(l).expect("case json");
        // for deep chains everything that is not a walker under test runs on a 1 GiB (lazily committed) stack
        let big = c["n"].as_u64().unwrap_or(0) >= 1000;
        let run = || guarded(|| run_case(&c));
        match if big { on_stack(1 << 20, run) } else { run() } {
            Ok(r) => r.to_string(),
            Err(p) => {
                let mut v = c.clone();
                v["panic"] = json!(format!("harness/run_case: {p}"));
                v.to_string()
            }
        }
    });
}

fn supervise(cases: &[Value], secs: u64) -> Vec<Value> {
    let exe = std::env::current_exe().unwrap().to_string_lossy().to_string();
    let lines: Vec<String> = cases.iter().map(|c| c.to_string()).collect();
    let res = sup::run_cases(&exe, &["worker".to_string()], &lines, Duration::from_secs(secs), 8192);
    let mut out = vec![];
    for (c, r) in cases.iter().zip(res) {
        // a run that did not answer keeps its inputs (the case) and says what happened
        let mut v = match r {
            sup::Outcome::Line(l) => serde_json::from_str(&l).expect("worker answer"),
            sup::Outcome::Hang => {
                let mut v = c.clone();
                v["panic"] = json!(format!("hang: no answer within {secs} s"));
                v
            }
            sup::Outcome::Crash(s) => {
                let mut v = c.clone();
                v["panic"] = json!(format!("crash: {s}"));
                v
            }
        };
        for k in ["case", "cls"] {
            if let Some(x) = c.get(k) {
                v[k] = x.clone();
            }
        }
        out.push(v);
    }
    out
}

fn write_all(recs: &[Value], out: &str) {
    let mut o = NdjsonOut::create(out);
    for v in recs {
        o.put(v);
    }
    o.finish();
}

/// the deterministic classes appended to every recorded set
fn class_cases(rng: &mut Rng, deep: u64) -> (Vec<Value>, Vec<Value>) {
    let mut light = vec![];
    let mut heavy = vec![];
    let sty = |rng: &mut Rng| rng.next_u64() >> 34;
    // titles made of balanced parentheses nested around the reader's literal-string limit (100)
    for depth in [99usize, 100, 101, 130] {
        let mut t: Vec<u32> = vec![0x28; depth];
        t.push(0x61 + (depth % 26) as u32);
        t.extend(std::iter::repeat(0x29).take(depth));
        let sib: Vec<u32> = "()) plain ((".chars().map(|c| c as u32).collect();
        light.push(json!({"cls": "parens", "np": 2, "adds": [{"parent": 0, "title": sib, "page": 0, "zg": 0, "fmt": 0},
            {"parent": 1, "title": t, "page": 2, "zg": 0, "fmt": 0}, {"parent": 0, "title": [0x4E2D, 0x28], "page": 1, "zg": 0, "fmt": 1}],
            "adjust": true, "style": sty(rng), "fmts": ["table", "stream"], "chain": depth % 2 == 0,
            "post": depth % 3, "link": if depth % 2 == 0 { "new" } else { "mut" }}));
    }
    // a small forest next to a named-destination table in every legal spelling
    let t = |s: &str| s.chars().map(|c| c as u32).collect::<Vec<u32>>();
    for (i, d) in DESTS.iter().enumerate() {
        light.push(json!({"cls": "dests", "dests": d, "np": 2, "adds": [{"parent": 0, "title": t("A"), "page": 0, "zg": 0, "fmt": 0},
            {"parent": 1, "title": t("B \u{2014} \u{7AE0}"), "page": 2, "zg": 0, "fmt": 0}, {"parent": 0, "title": t("chap1"), "page": 1, "zg": 0, "fmt": 0}],
            "adjust": true, "style": sty(rng), "fmts": ["table", "stream"], "chain": i % 2 == 0, "post": i % 2,
            "link": if i % 3 == 0 { "new" } else { "mut" }}));
    }
    // object numbers at the numeric limit: `room` numbers are left above the base document's max_id
    // (2 bookmarks need 1 + 2*2 = 5; saving in the xref-stream format needs one more and Size one more)
    for (room, fmts) in [(40u32, vec!["stream"]), (13, vec!["stream"]), (5, vec![]), (4, vec![]), (3, vec![]), (1, vec![]), (0, vec![])] {
        // saving + loading a document with such numbers takes lopdf about 10 s: those two runs go to the slow batch
        let slow = !fmts.is_empty();
        if slow && deep < 100_000 {
            continue;
        }
        let case = json!({"cls": "ids", "room": room, "np": 1, "adds": [{"parent": 0, "title": t("A"), "page": 1, "zg": 0, "fmt": 0},
            {"parent": if room % 2 == 0 { 1 } else { 0 }, "title": t("B"), "page": 1, "zg": 0, "fmt": 0}],
            "adjust": room % 3 == 0, "style": sty(rng), "fmts": fmts, "chain": true, "post": 0, "link": "mut"});
        if slow {
            heavy.push(case);
        } else {
            light.push(case);
        }
    }
    // chains t1 > t2 > ... > tn: one walker at a time on the small stack
    for n in [10u64, 100, 1000, 10_000, 100_000] {
        if n > deep {
            continue;
        }
        let fmts = if n <= 1000 { json!(["table", "stream"]) } else { json!(["stream"]) };
        let mut v = vec![
            json!({"cls": "deep", "kind": "chain", "n": n, "zero": false, "leaf_page": 1, "np": 3, "adjust": false, "small": ["build"],
                   "style": sty(rng), "fmts": fmts, "chain": true, "post": 1, "link": "new"}),
            json!({"cls": "deep", "kind": "chain", "n": n, "zero": false, "leaf_page": 2, "np": 2, "adjust": n % 100 == 0, "small": ["toc"],
                   "style": sty(rng), "fmts": fmts, "chain": false, "post": 0, "link": "mut"}),
            json!({"cls": "deep", "kind": "chain", "n": n, "zero": true, "leaf_page": 0, "np": 3, "adjust": true, "small": ["adjust"],
                   "style": sty(rng), "fmts": if n <= 1000 { json!(["stream"]) } else { json!([]) }, "chain": true, "post": 0, "link": "mut"}),
        ];
        if n <= 100 {
            // the same chain in the general record format (judged by Outline!Judge), all walkers on the small stack
            let adds: Vec<Value> = (1..=n as usize)
                .map(|k| json!({"parent": k - 1, "title": t(&chain_title(k)), "page": if k < n as usize { 0 } else { 2 }, "zg": 0, "fmt": 0}))
                .collect();
            v.push(json!({"cls": "deep", "np": 2, "adds": adds, "adjust": true, "style": sty(rng), "fmts": ["table", "stream"],
                          "chain": true, "post": 2, "link": "new", "small": ["adjust", "build", "toc"]}));
        }
        if n >= 10_000 {
            heavy.extend(v);
        } else {
            light.extend(v);
        }
    }
    (light, heavy)
}

fn main() {
    let args: Vec<String> = std::env::args().collect();
    match args.get(1).map(String::as_str) {
        Some("worker") => worker(),
        Some("replay") => {
            // cases generated by TLC: {np, adds:[{parent,title,page}], adjust, post, link [, dests, room, fmts]}
            let mut cases = read_ndjson(&arg(&args, "--in").unwrap());
            for (i, c) in cases.iter_mut().enumerate() {
                c["case"] = json!(i + 1);
                c["style"] = json!(i % 7);
                if c.get("fmts").is_none() {
                    c["fmts"] = json!(["table", "stream"]);
                }
                c["chain"] = json!(true);
            }
            write_all(&supervise(&cases, 10), &arg(&args, "--out").unwrap());
        }
        Some("record") => {
            let mut rng = Rng::new(arg_u64(&args, "--seed", 1));
            let n = arg_u64(&args, "--n", 100);
            let mut cases: Vec<Value> = (0..n).map(|_| random_case(&mut rng)).collect();
            let (light, heavy) = class_cases(&mut rng, arg_u64(&args, "--deep", 10_000));
            cases.extend(light);
            let mut recs = supervise(&cases, 10);
            recs.extend(supervise(&heavy, 300));
            write_all(&recs, &arg(&args, "--out").unwrap());
        }
        _ => {
            eprintln!("usage: c17 replay --in F --out F | record --seed S --n N [--deep D] --out F");
            std::process::exit(2)
        }
    }
}
