//! C17 — bookmarks become a well-formed outline that reads back.
//!
//! One *case* is a bookmark forest given as an add sequence
//!   {np, adds:[{parent, title:[code points], page, zg}], adjust, style}
//! (parent = 1-based index of an earlier add, 0 = top level; page = page number 1..np, 0 = the
//! zero page (0,zg)).  `run_case` drives the real API (add_bookmark*, adjust_zero_pages,
//! build_outline, further allocations (add_object / new_object_id), catalog /Outlines (through
//! catalog_mut or as a new catalog made with add_object), get_toc, save_to/load_mem in both xref formats) and logs one
//! record: the forest as lopdf holds it, the produced outline sub-graph projected to
//! [id, Parent, First, Last, Next, Prev, Title bytes, destination page] and the three get_toc()
//! results.  `replay` runs the cases TLC generated (MC_Outline), `record` seeded random forests
//! (<= 25 bookmarks, depth <= 6, Unicode titles).  Both write the same record format, which
//! Trace_Outline judges.  Cases run in a supervised child process so that a panic, abort, stack
//! overflow or hang (get_toc on a Next cycle never returns) is data.
use lopdf::xref::XrefType;
use lopdf::{dictionary, Bookmark, Dictionary, Document, Object, ObjectId};
use lopdf_conform::{guard::guarded, io::*, rng::Rng, sup};
use serde_json::{json, Value};
use std::collections::BTreeSet;
use std::time::Duration;

const BAD: u32 = 999_999_999;

/// Document with `np` pages.  `style` (seeded) decides extra objects, the order in which page
/// objects get their ids (so page number != id order), an intermediate Pages node, and whether the
/// document is first saved and loaded (a *loaded* base document).  Returns (doc, page ids in page order).
fn mkdoc(np: usize, style: u64) -> Result<(Document, Vec<u32>), String> {
    let mut rng = Rng::new(style);
    let mut doc = Document::with_version("1.5");
    let pages_id = doc.new_object_id();
    for _ in 0..rng.below(3) {
        doc.add_object(dictionary! {"Type" => "Font", "Subtype" => "Type1", "BaseFont" => "Courier"});
    }
    let mut ids: Vec<ObjectId> = (0..np).map(|_| doc.new_object_id()).collect();
    if style % 2 == 1 {
        rng.shuffle(&mut ids);
    }
    let nested = np >= 2 && rng.chance(1, 3);
    let split = if nested { 1 + rng.below(np - 1) } else { np };
    let inner_id = if nested { Some(doc.new_object_id()) } else { None };
    for (k, id) in ids.iter().enumerate() {
        let parent = if k >= split { inner_id.unwrap() } else { pages_id };
        doc.objects.insert(
            *id,
            Object::Dictionary(dictionary! {"Type" => "Page", "Parent" => parent,
                "MediaBox" => vec![0.into(), 0.into(), 595.into(), 842.into()]}),
        );
    }
    let mut kids: Vec<Object> = ids[..split].iter().map(|i| Object::Reference(*i)).collect();
    if let Some(inner) = inner_id {
        let ik: Vec<Object> = ids[split..].iter().map(|i| Object::Reference(*i)).collect();
        doc.objects.insert(
            inner,
            Object::Dictionary(dictionary! {"Type" => "Pages", "Parent" => pages_id, "Count" => ik.len() as i64, "Kids" => ik}),
        );
        kids.push(Object::Reference(inner));
    }
    doc.objects
        .insert(pages_id, Object::Dictionary(dictionary! {"Type" => "Pages", "Count" => np as i64, "Kids" => kids}));
    for _ in 0..rng.below(3) {
        doc.add_object(Object::Integer(7));
    }
    let catalog_id = doc.add_object(dictionary! {"Type" => "Catalog", "Pages" => pages_id});
    doc.trailer.set("Root", catalog_id);
    if rng.chance(1, 4) {
        // a loaded base document (max_id comes from the reader)
        let fmt = if rng.chance(1, 2) { "table" } else { "stream" };
        // a failure here is data about lopdf (a plain n-page document must save and load), not a harness failure
        doc = save_load(&mut doc, fmt).map_err(|e| format!("base-document: {e}"))?;
    }
    let pageids: Vec<u32> = ids.iter().map(|i| i.0).collect();
    Ok((doc, pageids))
}

fn link(d: &Dictionary, key: &[u8]) -> u32 {
    match d.get(key) {
        Err(_) => 0,
        Ok(Object::Reference((n, 0))) => *n,
        Ok(_) => BAD,
    }
}

fn deref<'a>(doc: &'a Document, o: &'a Object) -> &'a Object {
    let mut o = o;
    for _ in 0..8 {
        match o {
            Object::Reference(id) => match doc.objects.get(id) {
                Some(x) => o = x,
                None => return o,
            },
            _ => return o,
        }
    }
    o
}

fn dest_of_array(doc: &Document, d: &Object) -> Option<u32> {
    match deref(doc, d) {
        Object::Array(a) => match a.first() {
            Some(Object::Reference((n, 0))) => Some(*n),
            _ => None,
        },
        _ => None,
    }
}

/// projection of one outline item
fn item_json(doc: &Document, id: u32, d: &Dictionary) -> Value {
    let title: Vec<u32> = match d.get(b"Title").map(|t| deref(doc, t)) {
        Ok(Object::String(b, _)) => b.iter().map(|x| *x as u32).collect(),
        _ => vec![BAD],
    };
    let (mut dk, mut aid, mut dest) = ("none".to_string(), 0u32, 0u32);
    if let Ok(a) = d.get(b"A") {
        if let Object::Reference((n, 0)) = a {
            aid = *n;
        }
        if let Object::Dictionary(ad) = deref(doc, a) {
            let s = ad.get(b"S").ok().and_then(|s| s.as_name().ok()).map(|n| String::from_utf8_lossy(n).to_string());
            dk = format!("A:{}", s.unwrap_or_default());
            dest = ad.get(b"D").ok().and_then(|x| dest_of_array(doc, x)).unwrap_or(0);
        } else {
            dk = "A:bad".to_string();
        }
    } else if let Ok(x) = d.get(b"Dest") {
        dk = "Dest".to_string();
        dest = dest_of_array(doc, x).unwrap_or(0);
    }
    json!({"id": id, "parent": link(d, b"Parent"), "first": link(d, b"First"), "last": link(d, b"Last"),
           "next": link(d, b"Next"), "prev": link(d, b"Prev"), "title": title, "dk": dk, "aid": aid, "dest": dest})
}

fn toc_json(doc: &Document) -> Value {
    match guarded(|| doc.get_toc()) {
        Ok(Ok(t)) => json!({"ok": true, "err": "", "errors": t.errors.len(),
            "toc": t.toc.iter().map(|e| json!([e.level, e.title.chars().map(|c| c as u32).collect::<Vec<_>>(), e.page])).collect::<Vec<_>>()}),
        Ok(Err(e)) => json!({"ok": false, "err": lopdf_conform::wire::err_tag(&e), "errors": 0, "toc": []}),
        Err(p) => json!({"ok": false, "err": format!("panic: {p}"), "errors": 0, "toc": []}),
    }
}

fn save_load(doc: &mut Document, fmt: &str) -> Result<Document, String> {
    doc.reference_table.cross_reference_type =
        if fmt == "table" { XrefType::CrossReferenceTable } else { XrefType::CrossReferenceStream };
    let mut buf = Vec::new();
    match guarded(|| doc.save_to(&mut buf)) {
        Ok(Ok(())) => {}
        Ok(Err(e)) => return Err(format!("save: {e}")),
        Err(p) => return Err(format!("save panic: {p}")),
    }
    match guarded(|| Document::load_mem(&buf)) {
        Ok(Ok(d)) => Ok(d),
        Ok(Err(e)) => Err(format!("load: {}", lopdf_conform::wire::err_tag(&e))),
        Err(p) => Err(format!("load panic: {p}")),
    }
}

fn run_case(c: &Value) -> Value {
    let np = c["np"].as_u64().unwrap() as usize;
    let style = c["style"].as_u64().unwrap_or(0);
    let (mut doc, pageids) = match guarded(|| mkdoc(np, style)) {
        Ok(Ok(x)) => x,
        Ok(Err(e)) => return json!({"np": np, "adds": c["adds"], "panic": e}),
        Err(p) => return json!({"np": np, "adds": c["adds"], "panic": format!("base-document: panic: {p}")}),
    };
    let adds = c["adds"].as_array().unwrap();
    let fmts: Vec<String> = c["fmts"]
        .as_array()
        .map(|a| a.iter().map(|x| x.as_str().unwrap().to_string()).collect())
        .unwrap_or_else(|| vec!["table".into(), "stream".into()]);
    let chain = c["chain"].as_bool().unwrap_or(true);
    let adjust = c["adjust"].as_bool().unwrap_or(true);
    let mut rec = json!({"np": np, "pageids": pageids, "adds": c["adds"], "adjust": adjust, "style": style,
                         "fmts": fmts, "chain": chain, "post": c["post"].as_u64().unwrap_or(0),
                         "link": c["link"].as_str().unwrap_or("mut")});
    // ---- AddBookmark*
    let mut bids: Vec<u32> = vec![];
    let r = guarded(|| {
        for a in adds {
            let title: String =
                a["title"].as_array().unwrap().iter().map(|x| char::from_u32(x.as_u64().unwrap() as u32).expect("scalar value")).collect();
            let p = a["page"].as_u64().unwrap() as usize;
            let page: ObjectId = if p == 0 { (0, a["zg"].as_u64().unwrap_or(0) as u16) } else { (pageids[p - 1], 0) };
            let parent = match a["parent"].as_u64().unwrap() as usize {
                0 => None,
                k => Some(bids[k - 1]),
            };
            let fmt = a["fmt"].as_u64().unwrap_or(0) as u32;
            let id = doc.add_bookmark(Bookmark::new(title, [0.0, 0.5, 1.0], fmt, page), parent);
            bids.push(id);
        }
    });
    if let Err(p) = r {
        rec["panic"] = json!(format!("add_bookmark: {p}"));
        return rec;
    }
    rec["bids"] = json!(bids);
    rec["roots"] = json!(doc.bookmarks);
    rec["children"] =
        json!(bids.iter().map(|b| doc.bookmark_table.get(b).map(|x| x.children.clone()).unwrap_or_default()).collect::<Vec<_>>());
    // ---- AdjustZeroPages
    if adjust {
        if let Err(p) = guarded(|| doc.adjust_zero_pages()) {
            rec["panic"] = json!(format!("adjust_zero_pages: {p}"));
            return rec;
        }
    }
    rec["adj"] = json!(bids.iter().map(|b| doc.bookmark_table.get(b).map(|x| x.page.0).unwrap_or(BAD)).collect::<Vec<_>>());
    // ---- BuildOutline
    let before = doc.objects.clone();
    rec["base"] = json!(doc.max_id);
    rec["oldids"] = json!(before.keys().map(|k| k.0).collect::<BTreeSet<u32>>());
    let root = match guarded(|| doc.build_outline()) {
        Ok(r) => r,
        Err(p) => {
            rec["panic"] = json!(format!("build_outline: {p}"));
            return rec;
        }
    };
    let rootn = match root {
        Some((n, 0)) => n,
        Some(_) => BAD,
        None => 0,
    };
    rec["root"] = json!(rootn);
    rec["max_id"] = json!(doc.max_id);
    let changed: Vec<u32> = before.iter().filter(|(k, v)| doc.objects.get(k) != Some(v)).map(|(k, _)| k.0).collect();
    rec["changed"] = json!(changed);
    let mut items = vec![];
    let mut others = vec![];
    let mut rootrec = json!({"first": 0, "last": 0, "present": false});
    for (id, o) in doc.objects.iter() {
        if before.contains_key(id) && !changed.contains(&id.0) {
            continue;
        }
        if id.1 != 0 {
            others.push(BAD);
            continue;
        }
        match o {
            Object::Dictionary(d) if Some(*id) == root => {
                rootrec = json!({"first": link(d, b"First"), "last": link(d, b"Last"), "present": true});
            }
            Object::Dictionary(d) if d.has(b"Title") => items.push(item_json(&doc, id.0, d)),
            _ => others.push(id.0),
        }
    }
    rec["rootrec"] = rootrec;
    rec["items"] = json!(items);
    rec["others"] = json!(others);
    // ---- allocations after build_outline: `post` calls alternating add_object / new_object_id, then
    //      LinkCatalog: "mut" = /Outlines set in the existing catalog (as examples/merge.rs and the README
    //      do), "new" = a new catalog carrying /Outlines is made with add_object and becomes the Root
    let built = doc.objects.clone();
    let mut later: Vec<u32> = vec![];
    for j in 0..c["post"].as_u64().unwrap_or(0) {
        let id = if j % 2 == 0 { doc.add_object(Object::Integer(j as i64)) } else { doc.new_object_id() };
        later.push(if id.1 == 0 { id.0 } else { BAD });
    }
    if let Some(r) = root {
        let linked = if c["link"].as_str() == Some("new") {
            match doc.catalog().map(|d| d.clone()) {
                Ok(mut cat) => {
                    cat.set("Outlines", Object::Reference(r));
                    let id = doc.add_object(cat);
                    later.push(if id.1 == 0 { id.0 } else { BAD });
                    doc.trailer.set("Root", Object::Reference(id));
                    true
                }
                Err(_) => false,
            }
        } else {
            match doc.catalog_mut() {
                Ok(cat) => {
                    cat.set("Outlines", Object::Reference(r));
                    true
                }
                Err(_) => false,
            }
        };
        if !linked {
            rec["panic"] = json!("base-document: no catalog");
            return rec;
        }
    }
    rec["later"] = json!(later);
    // outline objects that no longer are what build_outline wrote
    rec["clobbered"] = json!(built
        .iter()
        .filter(|(k, v)| !before.contains_key(k) && doc.objects.get(k) != Some(v))
        .map(|(k, _)| k.0)
        .collect::<Vec<u32>>());
    // ---- GetToc, then Save;Load;GetToc in both xref formats (second format on the reloaded document
    //      when chain = true, on the original otherwise)
    rec["toc0"] = toc_json(&doc);
    let mut cur = doc.clone();
    for (k, f) in fmts.iter().enumerate() {
        let key = format!("toc{}", k + 1);
        let src = if chain { &mut cur } else { &mut doc };
        match save_load(src, f) {
            Ok(d) => {
                rec[&key] = toc_json(&d);
                rec[format!("xref{}", k + 1)] = json!(match d.reference_table.cross_reference_type {
                    XrefType::CrossReferenceTable => "table",
                    XrefType::CrossReferenceStream => "stream",
                });
                if chain {
                    cur = d;
                }
            }
            Err(e) => {
                rec[&key] = json!({"ok": false, "err": e, "errors": 0, "toc": []});
                rec[format!("xref{}", k + 1)] = json!("none");
            }
        }
    }
    rec
}

// ------------------------------------------------------------------ case sources
const POOL: &[(u32, u32)] = &[
    (0x20, 0x7E), (0x20, 0x7E), (0x00, 0x7F), (0xA0, 0xFF), (0x100, 0x24F), (0x370, 0x3FF), (0x400, 0x4FF), (0x590, 0x6FF),
    (0x900, 0xDFF), (0x2000, 0x2BFF), (0x3040, 0x30FF), (0x4E00, 0x9FFF), (0xAC00, 0xD7A3), (0xE000, 0xF8FF), (0xFB00, 0xFFFF),
    (0x10000, 0x1FFFF), (0x1F300, 0x1FAFF), (0x20000, 0x2FFFF), (0xF0000, 0x10FFFF), (0x0, 0x10FFFF),
];
const SPECIAL: &[u32] = &[0x28, 0x29, 0x5C, 0x0D, 0x0A, 0x09, 0x00, 0xFEFF, 0xFFFE, 0xFFFD, 0x285C, 0x0D0A, 0x5C28, 0x2928, 0xD7FF, 0xE000,
    0x10000, 0x10FFFF, 0xFF, 0x100, 0x7F, 0x80, 0xFE, 0xFFFF];

fn scalar(rng: &mut Rng, lo: u32, hi: u32) -> u32 {
    loop {
        let c = lo + (rng.next_u64() % ((hi - lo + 1) as u64)) as u32;
        if !(0xD800..=0xDFFF).contains(&c) {
            return c;
        }
    }
}

fn random_title(rng: &mut Rng) -> Vec<u32> {
    let kind = rng.below(10);
    let len = match rng.below(8) {
        0 => 0,
        1 => 1,
        2 => 2,
        _ => 1 + rng.below(14),
    };
    let mut t = vec![];
    let (lo, hi) = *rng.pick(POOL);
    for _ in 0..len {
        t.push(match kind {
            0..=2 => scalar(rng, 0x20, 0x7E),                 // printable ASCII
            3 => *rng.pick(SPECIAL),                           // delimiters, EOLs, BOM look-alikes
            4..=6 => scalar(rng, lo, hi),                      // one script
            7 => if rng.chance(1, 2) { scalar(rng, 0x20, 0x7E) } else { scalar(rng, lo, hi) },
            _ => { let (a, b) = *rng.pick(POOL); scalar(rng, a, b) }
        });
    }
    t
}

fn random_case(rng: &mut Rng) -> Value {
    let np_max = match rng.below(4) { 0 => 1, 1 => 3, _ => 9 };
    let np = 1 + rng.below(np_max);
    let n = match rng.below(10) {
        0 => 1 + rng.below(2),
        1..=6 => 2 + rng.below(10),
        _ => 10 + rng.below(16),
    };
    // forest: parent of bookmark k among earlier ones with depth < 6, or top level; shapes: random / deep / wide
    let shape = rng.below(4);
    let mut parent = vec![0usize; n];
    let mut depth = vec![1usize; n];
    for k in 1..n {
        let p = match shape {
            0 => if rng.chance(1, 3) { 0 } else { 1 + rng.below(k) },
            1 => if rng.chance(1, 6) { 0 } else { k },                       // chains
            2 => if rng.chance(1, 2) { 0 } else { 1 + rng.below(1 + k / 4) }, // wide
            _ => rng.below(k + 1),
        };
        let p = if p > 0 && depth[p - 1] >= 6 { parent[p - 1] } else { p };
        parent[k] = p;
        depth[k] = if p == 0 { 1 } else { depth[p - 1] + 1 };
    }
    let has_child: Vec<bool> = (0..n).map(|k| parent.iter().any(|p| *p == k + 1)).collect();
    let zero_rate = *rng.pick(&[0u32, 1, 2, 4]);
    let mut titles: Vec<Vec<u32>> = vec![];
    while titles.len() < n {
        let t = random_title(rng);
        if !titles.contains(&t) {
            titles.push(t);
        }
    }
    let mut any_zero = false;
    let adds: Vec<Value> = (0..n)
        .map(|k| {
            let zero = has_child[k] && rng.chance(zero_rate, 4);
            any_zero |= zero;
            json!({"parent": parent[k], "title": titles[k], "page": if zero { 0 } else { 1 + rng.below(np) },
                   "zg": if zero && rng.chance(1, 3) { 1 + rng.below(5) } else { 0 }, "fmt": rng.below(4)})
        })
        .collect();
    let first_table = rng.chance(1, 2);
    json!({"np": np, "adds": adds, "adjust": any_zero || rng.chance(2, 3), "style": rng.next_u64() >> 34,
           "fmts": if first_table { ["table", "stream"] } else { ["stream", "table"] }, "chain": rng.chance(1, 2),
           "post": rng.below(4), "link": if rng.chance(1, 2) { "mut" } else { "new" }})
}

extern "C" {
    fn setrlimit(resource: i32, rlim: *const [u64; 2]) -> i32;
}

fn worker() {
    #[cfg(target_os = "linux")]
    unsafe {
        let mb: u64 = std::env::var("VERIF_WORKER_MEM_MB").ok().and_then(|s| s.parse().ok()).unwrap_or(0);
        if mb > 0 {
            let lim = [mb << 20, mb << 20];
            setrlimit(9 /* RLIMIT_AS */, &lim);
        }
        let zero = [0u64, 0u64];
        setrlimit(4 /* RLIMIT_CORE */, &zero);
    }
    lopdf_conform::guard::quiet_panics();
    sup::worker_loop(|l| {
        let c: Value = serde_json::from_str(l).expect("case json");
        match guarded(|| run_case(&c)) {
            Ok(r) => r.to_string(),
            Err(p) => json!({"np": c["np"], "adds": c["adds"], "panic": format!("harness/run_case: {p}")}).to_string(),
        }
    });
}

fn supervise(cases: &[Value], out: &str) {
    let exe = std::env::current_exe().unwrap().to_string_lossy().to_string();
    let lines: Vec<String> = cases.iter().map(|c| c.to_string()).collect();
    let res = sup::run_cases(&exe, &["worker".to_string()], &lines, Duration::from_secs(10), 2048);
    let mut o = NdjsonOut::create(out);
    for (c, r) in cases.iter().zip(res) {
        let mut v = match r {
            sup::Outcome::Line(l) => serde_json::from_str(&l).expect("worker answer"),
            sup::Outcome::Hang => json!({"np": c["np"], "adds": c["adds"], "panic": "hang: no answer within 10 s"}),
            sup::Outcome::Crash(s) => json!({"np": c["np"], "adds": c["adds"], "panic": format!("crash: {s}")}),
        };
        if let Some(k) = c.get("case") {
            v["case"] = k.clone();
        }
        o.put(&v);
    }
    o.finish();
}

fn main() {
    let args: Vec<String> = std::env::args().collect();
    match args.get(1).map(String::as_str) {
        Some("worker") => worker(),
        Some("replay") => {
            // cases generated by TLC: {np, adds:[{parent,title,page}], adjust, post, link}
            let mut cases = read_ndjson(&arg(&args, "--in").unwrap());
            for (i, c) in cases.iter_mut().enumerate() {
                c["case"] = json!(i + 1);
                c["style"] = json!(i % 7);
                c["fmts"] = json!(["table", "stream"]);
                c["chain"] = json!(true);
            }
            supervise(&cases, &arg(&args, "--out").unwrap());
        }
        Some("record") => {
            let mut rng = Rng::new(arg_u64(&args, "--seed", 1));
            let n = arg_u64(&args, "--n", 100);
            let mut cases: Vec<Value> = (0..n).map(|_| random_case(&mut rng)).collect();
            // titles made of balanced parentheses nested around the reader's literal-string limit (100)
            for depth in [99usize, 100, 101, 130] {
                let mut t: Vec<u32> = vec![0x28; depth];
                t.push(0x61 + (depth % 26) as u32);
                t.extend(std::iter::repeat(0x29).take(depth));
                let sib: Vec<u32> = "()) plain ((".chars().map(|c| c as u32).collect();
                cases.push(json!({"np": 2, "adds": [{"parent": 0, "title": sib, "page": 0, "zg": 0, "fmt": 0},
                    {"parent": 1, "title": t, "page": 2, "zg": 0, "fmt": 0}, {"parent": 0, "title": [0x4E2D, 0x28], "page": 1, "zg": 0, "fmt": 1}],
                    "adjust": true, "style": rng.next_u64() >> 34, "fmts": ["table", "stream"], "chain": depth % 2 == 0,
                    "post": depth % 3, "link": if depth % 2 == 0 { "new" } else { "mut" }}));
            }
            supervise(&cases, &arg(&args, "--out").unwrap());
        }
        _ => {
            eprintln!("usage: c17 replay --in F --out F | record --seed S --n N --out F");
            std::process::exit(2)
        }
    }
}
