//! C08 — loading is deterministic under every thread schedule.  Each file is loaded (a) plainly,
//! (b) inside rayon pools of 1,2,3,4,8,16 threads, repeatedly, (c) with every completion order of the
//! object-stream blocks that the TLA+ model (MC_ParallelLoad) enumerated, forced through hook H1.
//! Digests of the projected document and the observed natural block orders are logged for
//! Trace_ParallelLoad.
use lopdf::Document;
use lopdf_conform::{flt, guard::guarded, io::*, wire::*};
use serde_json::{json, Value};

fn fnv(s: &str) -> String {
    let mut h: u64 = 0xcbf29ce484222325;
    for b in s.bytes() {
        h ^= b as u64;
        h = h.wrapping_mul(0x100000001b3);
    }
    format!("{h:016x}")
}

fn load_digest(bytes: &[u8]) -> (String, String, Vec<u32>) {
    let r = guarded(|| Document::load_mem(bytes));
    let obs = lopdf::verif_hooks::observed_completion_order();
    LATE.with(|l| *l.borrow_mut() = lopdf::verif_hooks::observed_deferred_order());
    match r {
        Ok(Ok(d)) => ("ok".into(), fnv(&doc_to_json(&d).to_string()), obs),
        Ok(Err(e)) => (format!("err:{e:?}"), "-".into(), obs),
        Err(p) => (format!("panic:{p}"), "-".into(), obs),
    }
}

thread_local! {
    /// deferred streams (hook H2) of the last load_digest call on this thread, in the order the workers pushed them
    static LATE: std::cell::RefCell<Vec<u32>> = const { std::cell::RefCell::new(Vec::new()) };
}

fn late() -> Vec<u32> {
    LATE.with(|l| l.borrow().clone())
}

fn main() {
    let args: Vec<String> = std::env::args().collect();
    let files = read_ndjson(&arg(&args, "--in").unwrap());
    let orders: Vec<Value> = read_ndjson(&arg(&args, "--orders").unwrap());
    let reps = arg_u64(&args, "--reps", 3);
    let max_perm_n = arg_u64(&args, "--max-perm-n", 6) as usize;
    let mut out = NdjsonOut::create(&arg(&args, "--out").unwrap());
    let pools: Vec<(usize, rayon::ThreadPool)> = [1usize, 2, 3, 4, 8, 16]
        .iter()
        .map(|&k| (k, rayon::ThreadPoolBuilder::new().num_threads(k).build().expect("pool")))
        .collect();
    for (i, c) in files.iter().enumerate() {
        let bytes = json_to_bytes(&c["bytes"]);
        lopdf::verif_hooks::force_completion_order(None);
        let (res, hash, obs) = load_digest(&bytes);
        let mut containers = obs.clone();
        containers.sort();
        out.put(&json!({"file": i, "kind": "base", "late": late(), "res": res, "hash": hash, "observed": obs, "containers": containers}));
        for (k, pool) in &pools {
            for rep in 0..reps {
                let (res, hash, obs) = pool.install(|| load_digest(&bytes));
                out.put(&json!({"file": i, "kind": "pool", "threads": k, "rep": rep, "res": res, "hash": hash, "observed": obs, "containers": containers}));
            }
        }
        // (H2) the streams filled in after the merge, forced into ascending and into descending order
        if late().len() >= 2 {
            for asc in [true, false] {
                lopdf::verif_hooks::force_deferred_order(Some(asc));
                let (res, hash, obs) = load_digest(&bytes);
                out.put(&json!({"file": i, "kind": "defer", "asc": asc, "late": late(), "res": res, "hash": hash, "observed": obs, "containers": containers}));
            }
            lopdf::verif_hooks::force_deferred_order(None);
        }
        let n = containers.len();
        if n >= 2 && n <= max_perm_n {
            for o in orders.iter().filter(|o| o["n"].as_u64() == Some(n as u64)) {
                let order: Vec<usize> = o["order"].as_array().unwrap().iter().map(|x| x.as_u64().unwrap() as usize).collect();
                lopdf::verif_hooks::force_completion_order(Some(order.clone()));
                let (res, hash, obs) = load_digest(&bytes);
                out.put(&json!({"file": i, "kind": "perm", "order": order, "res": res, "hash": hash, "observed": obs, "containers": containers}));
            }
            lopdf::verif_hooks::force_completion_order(None);
        }
    }
    // shared-buffer phase: files of (nearly) equal length are padded with line ends to one common length and
    // loaded alternately from ONE buffer (same address, same length): the result must not depend on what was
    // loaded from that address before (state keyed on the buffer instead of on its content)
    lopdf::verif_hooks::force_completion_order(None);
    let mut padded: Vec<(usize, Vec<u8>)> = files.iter().enumerate().map(|(i, c)| (i, json_to_bytes(&c["bytes"]))).collect();
    padded.sort_by_key(|(_, b)| b.len());
    let mut g = 0;
    while g < padded.len() {
        let l0 = padded[g].1.len();
        let mut h = g;
        while h < padded.len() && padded[h].1.len() <= l0 + 300 && h - g < 6 {
            h += 1;
        }
        if h - g >= 2 {
            let len = padded[h - 1].1.len();
            let group: Vec<(usize, Vec<u8>)> = padded[g..h].iter().map(|(i, b)| {
                let mut v = b.clone();
                v.resize(len, b'\n');
                (*i, v)
            }).collect();
            for (i, v) in &group {
                let (res, hash, obs) = load_digest(v);
                let mut cs = obs.clone();
                cs.sort();
                out.put(&json!({"file": 100000 + i, "kind": "fresh", "res": res, "hash": hash, "observed": obs, "containers": cs}));
            }
            let mut buf = vec![0u8; len];
            // few worker threads, several rounds: the same thread meets the same address with other content
            let small = &pools[if g % 2 == 0 { 0 } else { 1 }].1;
            for round in 0..6 {
                for (i, v) in &group {
                    buf.copy_from_slice(v);
                    let (res, hash, obs) = small.install(|| load_digest(&buf));
                    let mut cs = obs.clone();
                    cs.sort();
                    out.put(&json!({"file": 100000 + i, "kind": "shared", "rep": round, "res": res, "hash": hash, "observed": obs, "containers": cs}));
                }
            }
        }
        g = h.max(g + 1);
    }
    // filtered loading (Reader::read(Some(f))): pure filters that drop objects by number or mark dictionaries;
    // every schedule must give the document the rayon-free build gives, and the plain load restricted to
    // what the filter keeps (ParallelLoad!FilterRestricts)
    let nflt = arg_u64(&args, "--filtered-files", 0) as usize;
    for (i, c) in files.iter().enumerate().take(nflt) {
        let bytes = json_to_bytes(&c["bytes"]);
        lopdf::verif_hooks::force_completion_order(None);
        let plain = match guarded(|| Document::load_mem(&bytes)) {
            Ok(Ok(d)) => d,
            _ => continue,
        };
        let deferred = !lopdf::verif_hooks::observed_deferred_order().is_empty();
        for k in 0..flt::NFILTERS {
            let exp = match flt::expectation(&plain, k, deferred) {
                Some(e) => e,
                None => continue,
            };
            let ghosts: Vec<u32> = exp["ghosts"].as_array().unwrap().iter().map(|x| x.as_u64().unwrap() as u32).collect();
            let mut put = |sched: Value, r: std::result::Result<lopdf::Result<Document>, String>, out: &mut NdjsonOut| -> Vec<u32> {
                let obs = lopdf::verif_hooks::observed_completion_order();
                let (res, hash, lhash, ids) = match r {
                    Ok(r) => flt::outcome(r, &ghosts),
                    Err(p) => (format!("panic:{p}"), "-".into(), "-".into(), vec![]),
                };
                let mut cs = obs.clone();
                cs.sort();
                let mut rec = json!({"file": 200000 + i * 8 + k, "src": i, "kind": "filtered", "filter": k, "sched": sched, "res": res, "hash": hash,
                                     "lhash": lhash, "ids": ids, "observed": obs, "containers": cs});
                for (key, v) in exp.as_object().unwrap() {
                    rec[key] = v.clone();
                }
                out.put(&rec);
                obs
            };
            let obs = put(json!("base"), guarded(|| flt::load_filtered(&bytes, k)), &mut out);
            for (t, pool) in &pools {
                put(json!({"threads": t}), pool.install(|| guarded(|| flt::load_filtered(&bytes, k))), &mut out);
            }
            let n = obs.len();
            if (2..=3).contains(&n) {
                for o in orders.iter().filter(|o| o["n"].as_u64() == Some(n as u64)) {
                    let order: Vec<usize> = o["order"].as_array().unwrap().iter().map(|x| x.as_u64().unwrap() as usize).collect();
                    lopdf::verif_hooks::force_completion_order(Some(order.clone()));
                    put(json!({"order": order}), guarded(|| flt::load_filtered(&bytes, k)), &mut out);
                }
                lopdf::verif_hooks::force_completion_order(None);
            }
        }
    }
    out.finish();
}
