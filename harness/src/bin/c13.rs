//! C13 — read-only queries are total on arbitrary object graphs.
//!
//! Documents travel as the abstract value type of spec/Queries.tla:
//!   Val = {"k": kind, "n": int, "s": string, "e": [Val...], "d": [[key, Val]...]}
//!   doc = {"objs": [Val...] (object i = objs[i-1], generation 0), "root": Val (trailer /Root)}
//! A reference with n = 0 is dangling (concretised as 99999 0 R).
//!
//!   c13 gen    --seed S --n N --out F [--keys A,B,..]
//!                                            seeded random typed-chaos documents (<= 12 objects); --keys adds the key
//!                                            names harvested from the sources under test to the vocabulary
//!   c13 run    --in F --out F [--timeout-ms T] [--mem-mb M]
//!                                            supervisor: every record {"doc":..} is run in an isolated child
//!                                            worker; hang / abort / stack overflow are data for that case
//!   c13 worker                               (child) reads cases on stdin, answers one line per case
//!   c13 gen-chains --seed S --tier quick|thorough --out F
//!                                            deterministic families of LONG ACYCLIC CHAINS through every link the
//!                                            walkers follow, lengths around and far beyond every limit: {"fam","len"}
//!   c13 chains --in F --out F [--stack-kb K] [--timeout-ms T] [--mem-mb M]
//!                                            every query of the family plan is one supervised case, run in a thread
//!                                            with a K KiB stack (default 2048 = Rust's spawned-thread default)
//!
//! Output of `run`, one record per input record:
//!   {"i": index, "ran": bool, "obs": [{"q": query, "id": n, "kind": "panic"|"hang"|"crash", "msg": ..}],
//!    "res": {"outl","toc": tag; "pages": {t, ids}; "deref","nd","img": [tag per object];
//!            "rsrc","cont": [{t, ids} per object]}}   (tag = ok | err | na | panic | hang | crash)
//! obs lists every call that did NOT return a value or an error (the property's oracle).
use lopdf::{Dictionary, Document, Object, ObjectId, Stream, StringFormat};
use lopdf_conform::{guard::guarded, io::*, rng::Rng, sup};
use serde_json::{json, Value};
use std::time::Duration;

const DANGLING: u32 = 99_999;
const BIG: i64 = 1 << 30; // |n| >= BIG stands for an integer near the i64 limits

// ------------------------------------------------------------------ concretisation Val -> Object
fn str_bytes(s: &str) -> Vec<u8> {
    match s {
        "BE" => vec![0xFE, 0xFF],
        "BE+1" => vec![0xFE, 0xFF, 0x00],
        "BE+2" => vec![0xFE, 0xFF, 0x00, 0x78],
        "LE" => vec![0xFF, 0xFE],
        "LE+1" => vec![0xFF, 0xFE, 0x78],
        "LE+2" => vec![0xFF, 0xFE, 0x78, 0x00],
        _ => s.as_bytes().to_vec(),
    }
}

const TEXT_CONTENT: &[u8] = b"BT /F1 12 Tf (Hi) Tj [(a) -200 (b)] TJ ET";

fn stream_bytes(s: &str) -> Vec<u8> {
    match s {
        "" => vec![],
        "text" => TEXT_CONTENT.to_vec(),
        "junk" => b"\xff((( << [ /".to_vec(),
        "z" => {
            use std::io::Write;
            let mut e = flate2::write::ZlibEncoder::new(Vec::new(), flate2::Compression::default());
            e.write_all(TEXT_CONTENT).unwrap();
            e.finish().unwrap()
        }
        _ => s.as_bytes().to_vec(),
    }
}

fn to_dict(pairs: &Value) -> Dictionary {
    let mut d = Dictionary::new();
    if let Some(ps) = pairs.as_array() {
        for p in ps {
            let key = p[0].as_str().expect("dict key");
            d.set(key.as_bytes().to_vec(), to_obj(&p[1]));
        }
    }
    d
}

fn to_obj(v: &Value) -> Object {
    let k = v["k"].as_str().unwrap_or_else(|| panic!("no kind in {v}"));
    let n = v["n"].as_i64().unwrap_or(0);
    let s = v["s"].as_str().unwrap_or("");
    match k {
        "null" => Object::Null,
        "bool" => Object::Boolean(n != 0),
        "int" => Object::Integer(if n >= BIG {
            i64::MAX - (n - BIG)
        } else if n <= -BIG {
            i64::MIN + (-n - BIG)
        } else {
            n
        }),
        "real" => Object::Real(if n == 0 { 1.5 } else { f32::NAN }),
        "name" => Object::Name(s.as_bytes().to_vec()),
        "str" => Object::String(str_bytes(s), StringFormat::Literal),
        "arr" => Object::Array(v["e"].as_array().map(|a| a.iter().map(to_obj).collect()).unwrap_or_default()),
        "dict" => Object::Dictionary(to_dict(&v["d"])),
        "stream" => {
            let d = to_dict(&v["d"]);
            let mut st = Stream::new(Dictionary::new(), stream_bytes(s));
            for (key, val) in d.iter() {
                st.dict.set(key.clone(), val.clone()); // a chaos /Length overrides the computed one
            }
            Object::Stream(st)
        }
        "ref" => Object::Reference((if n <= 0 { DANGLING } else { n as u32 }, 0)),
        _ => panic!("unknown kind {k}"),
    }
}

fn build(doc: &Value) -> Document {
    let mut d = Document::with_version("1.5");
    let objs = doc["objs"].as_array().expect("objs");
    for (i, o) in objs.iter().enumerate() {
        d.objects.insert((i as u32 + 1, 0), to_obj(o));
    }
    d.max_id = objs.len() as u32;
    let root = &doc["root"];
    if root["k"].as_str() != Some("none") {
        d.trailer.set("Root", to_obj(root));
    }
    d
}

// ------------------------------------------------------------------ the queries
/// Every (query, id) pair run on a document with n objects; id 0 = document-level / dangling id.
fn plan(n: u32) -> Vec<(&'static str, u32)> {
    let mut p = vec![
        ("catalog", 0),
        ("get_pages", 0),
        ("page_iter", 0),
        ("get_outlines", 0),
        ("get_toc", 0),
        ("extract_text", 0),
        ("extract_text_chunks", 0),
    ];
    for id in 0..=n {
        for q in [
            "get_object",
            "dereference",
            "get_dictionary",
            "get_page_contents",
            "get_page_content",
            "get_and_decode_page_content",
            "get_page_resources",
            "get_page_fonts",
            "get_page_annotations",
            "get_page_images",
            "get_object_page",
            "get_font_encoding",
            "get_named_destinations",
            "type_name",
        ] {
            p.push((q, id));
        }
    }
    p
}

fn oid(id: u32) -> ObjectId {
    (if id == 0 { DANGLING } else { id }, 0)
}

fn tag<T, E>(r: &Result<T, E>) -> &'static str {
    if r.is_ok() {
        "ok"
    } else {
        "err"
    }
}

/// get_font_encoding on the dictionary of `o` and of every dictionary nested in it.
fn font_encodings(doc: &Document, o: &Object, depth: u32) {
    if depth > 6 {
        return;
    }
    match o {
        Object::Dictionary(d) => {
            let _ = d.get_font_encoding(doc);
            for (_, v) in d.iter() {
                font_encodings(doc, v, depth + 1);
            }
        }
        Object::Stream(s) => {
            let _ = s.dict.get_font_encoding(doc);
            for (_, v) in s.dict.iter() {
                font_encodings(doc, v, depth + 1);
            }
        }
        Object::Array(a) => {
            for v in a {
                font_encodings(doc, v, depth + 1);
            }
        }
        _ => {}
    }
}

/// Run one query; returns the result summary (tag or id list) — a panic unwinds to the caller's guard.
fn run_query(doc: &Document, q: &str, id: u32) -> Value {
    let n = doc.objects.len() as u32;
    match q {
        "catalog" => json!(tag(&doc.catalog())),
        "get_pages" => json!({"t": "ok", "ids": doc.get_pages().values().map(|p| p.0).collect::<Vec<_>>()}),
        "page_iter" => json!(doc.page_iter().map(|p| p.0).collect::<Vec<_>>()),
        "get_outlines" => {
            let mut nd = Default::default();
            json!(tag(&doc.get_outlines(None, None, &mut nd)))
        }
        "get_toc" => json!(tag(&doc.get_toc())),
        "extract_text" => {
            let np = if n > 64 { 2 } else { n };      // chain families: thousands of objects, one page
            let nums: Vec<u32> = (0..=np + 1).collect();
            let all = doc.extract_text(&nums);
            let mut each = vec![tag(&all)];
            for p in 1..=np {
                each.push(tag(&doc.extract_text(&[p])));
            }
            json!(each)
        }
        "extract_text_chunks" => {
            let nums: Vec<u32> = (0..=(if n > 64 { 2 } else { n }) + 1).collect();
            json!(doc.extract_text_chunks(&nums).len())
        }
        "get_object" => json!(tag(&doc.get_object(oid(id)))),
        "dereference" => {
            let r = Object::Reference(oid(id));
            let t = tag(&doc.dereference(&r));
            // also dereference the stored object itself and every value directly inside it
            if let Some(o) = doc.objects.get(&oid(id)) {
                let _ = doc.dereference(o);
                match o {
                    Object::Array(a) => a.iter().for_each(|v| {
                        let _ = doc.dereference(v);
                    }),
                    Object::Dictionary(d) => d.iter().for_each(|(k, _)| {
                        let _ = d.get_deref(k, doc);
                    }),
                    Object::Stream(s) => s.dict.iter().for_each(|(k, _)| {
                        let _ = s.dict.get_deref(k, doc);
                    }),
                    _ => {}
                }
            }
            json!(t)
        }
        "get_dictionary" => {
            let r = doc.get_dictionary(oid(id));
            if let Ok(d) = r {
                for key in [&b"First"[..], b"Next", b"A", b"Parent", b"Resources", b"Outlines", b"Dests", b"Names"] {
                    let _ = doc.get_dict_in_dict(d, key);
                }
                let _ = d.get_type();
            }
            json!(tag(&r))
        }
        "get_page_contents" => json!({"t": "ok", "ids": doc
            .get_page_contents(oid(id))
            .iter()
            .map(|p| if p.0 == DANGLING { 0 } else { p.0 })
            .collect::<Vec<_>>()}),
        "get_page_content" => json!(tag(&doc.get_page_content(oid(id)))),
        "get_and_decode_page_content" => json!(tag(&doc.get_and_decode_page_content(oid(id)))),
        "get_page_resources" => match doc.get_page_resources(oid(id)) {
            Ok((_, ids)) => json!({"t": "ok", "ids": ids.iter().map(|p| if p.0 == DANGLING { 0 } else { p.0 }).collect::<Vec<_>>()}),
            Err(_) => json!({"t": "err", "ids": []}),
        },
        "get_page_fonts" => json!(tag(&doc.get_page_fonts(oid(id)))),
        "get_page_annotations" => json!(tag(&doc.get_page_annotations(oid(id)))),
        "get_page_images" => json!(tag(&doc.get_page_images(oid(id)))),
        "get_object_page" => json!(tag(&doc.get_object_page(oid(id)))),
        "get_font_encoding" => {
            if let Some(o) = doc.objects.get(&oid(id)) {
                font_encodings(doc, o, 0);
            }
            if id == 0 {
                font_encodings(doc, &Object::Dictionary(doc.trailer.clone()), 0);
            }
            json!("ok")
        }
        "get_named_destinations" => {
            // public API: any dictionary object may be handed in as a name tree
            match doc.get_dictionary(oid(id)) {
                Ok(tree) => {
                    let mut nd = Default::default();
                    json!(tag(&doc.get_named_destinations(tree, &mut nd)))
                }
                Err(_) => json!("na"),
            }
        }
        "type_name" => match doc.objects.get(&oid(id)) {
            Some(o) => {
                let _ = o.as_dict().map(|d| d.has_type(b"Page"));
                if let Ok(s) = o.as_stream() {
                    let _ = s.filters();
                    let _ = s.is_compressed();
                }
                json!(tag(&o.type_name()))
            }
            None => json!("na"),
        },
        _ => panic!("harness: unknown query {q}"),
    }
}

/// A bare tag ("na", "panic", "hang", "crash") in the shape of the slot it goes into.
fn shaped(slot: &str, t: &str) -> Value {
    if slot == "rsrc" || slot == "cont" || slot == "pages" {
        json!({"t": t, "ids": []})
    } else {
        json!(t)
    }
}

fn empty_res(n: u32) -> Value {
    let mut m = json!({"outl": "na", "toc": "na", "pages": {"t": "na", "ids": []}});
    for slot in ["deref", "nd", "img", "rsrc", "cont"] {
        m[slot] = Value::Array((0..n).map(|_| shaped(slot, "na")).collect());
    }
    m
}

/// Worker: one case = {"doc": .., "only": [q, id]?}.  Answers {"obs": [...], "res": {...}}.
fn worker_case(line: &str) -> String {
    let case: Value = match serde_json::from_str(line) {
        Ok(v) => v,
        Err(e) => return json!({"harness_error": format!("bad case json: {e}")}).to_string(),
    };
    if case.get("fam").is_some() {
        return family_case(&case);
    }
    let doc = match guarded(|| build(&case["doc"])) {
        Ok(d) => d,
        Err(p) => return json!({"harness_error": format!("builder panicked: {p}")}).to_string(),
    };
    let n = doc.objects.len() as u32;
    let todo: Vec<(String, u32)> = match case.get("only").and_then(Value::as_array) {
        Some(o) => vec![(o[0].as_str().unwrap().to_string(), o[1].as_u64().unwrap() as u32)],
        None => plan(n).into_iter().map(|(q, i)| (q.to_string(), i)).collect(),
    };
    let mut obs = vec![];
    let mut res = empty_res(n);
    for (q, id) in &todo {
        let r = guarded(|| run_query(&doc, q, *id));
        let val = match r {
            Ok(v) => v,
            Err(msg) => {
                obs.push(json!({"q": q, "id": id, "kind": "panic", "msg": msg.chars().take(160).collect::<String>()}));
                json!("panic")
            }
        };
        if let Some(slot) = slot_of(q) {
            let val = if val == json!("panic") { shaped(slot, "panic") } else { val };
            put(&mut res, slot, *id, n, val);
        }
    }
    json!({"obs": obs, "res": res}).to_string()
}

fn slot_of(q: &str) -> Option<&'static str> {
    match q {
        "get_outlines" => Some("outl"),
        "get_toc" => Some("toc"),
        "get_pages" => Some("pages"),
        "dereference" => Some("deref"),
        "get_named_destinations" => Some("nd"),
        "get_page_images" => Some("img"),
        "get_page_resources" => Some("rsrc"),
        "get_page_contents" => Some("cont"),
        _ => None,
    }
}

fn put(res: &mut Value, slot: &str, id: u32, n: u32, val: Value) {
    if slot == "outl" || slot == "toc" || slot == "pages" {
        res[slot] = val;
    } else if id >= 1 && id <= n {
        res[slot][id as usize - 1] = val;
    }
}

extern "C" {
    fn setrlimit(resource: i32, rlim: *const [u64; 2]) -> i32;
}

fn worker() {
    // keep a runaway query from eating the machine: address-space cap, no core dumps (Linux numbering)
    #[cfg(target_os = "linux")]
    unsafe {
        let mb: u64 = std::env::var("VERIF_WORKER_MEM_MB").ok().and_then(|s| s.parse().ok()).unwrap_or(0);
        if mb > 0 {
            let lim = [mb << 20, mb << 20];
            setrlimit(9 /* RLIMIT_AS */, &lim);
        }
        let zero = [0u64, 0u64];
        setrlimit(4 /* RLIMIT_CORE */, &zero);
    }
    lopdf_conform::guard::quiet_panics();
    sup::worker_loop(worker_case);
}


// ------------------------------------------------------------------ long acyclic chains (deterministic families)
// Layout of every family document: 1 catalog, 2 page-tree root, 3 the page, 4 content stream, 5 outline
// dictionary, 6 a resources dictionary, 7 a font; the chain occupies objects 10 .. 9+len.  Everything is
// acyclic, nothing dangles, every value has the expected kind — only the length is hostile.
const HEAD: u32 = 10;
const FAMILIES: &[&str] = &[
    "parent",    // page /Parent -> len /Pages dictionaries linked by /Parent (each with /Resources 6 0 R)
    "first",     // outline nested len levels through /First
    "next",      // len sibling outline items linked by /Next
    "kids",      // /Dests name tree nested len levels through single /Kids, /Names pair in the leaf
    "kidswide",  // name-tree root with len-1 leaf kids
    "pagekids",  // page tree nested len levels through /Kids (each level: [next level, the page])
    "contents",  // page /Contents = array of len references to the content stream
    "annots",    // page /Annots = array of len references to annotation dictionaries (the chain objects)
    "refchain",  // len reference objects 10 -> 11 -> ..; reached from /Contents, /Resources, /Outlines, /Dests, /Parent
    "fontchain", // /Font dictionary with len entries F10.. each a font whose /ToUnicode is absent
    "length",    // the content stream's /Length is a reference into a chain of len reference objects
    // acyclic graphs with SHARING: every level reaches the next one twice, so there are 2^len paths through len+1
    // nodes.  A walker that remembers the nodes it has seen is linear; one that only guards the current path is not.
    "kidsdouble",     // name tree: every /Kids array lists the next level twice
    "firstnext",      // outline: every item has the next one as /First and as /Next
    "pagekidsdouble", // page tree: every /Kids array lists the next level twice (the last level holds the page once)
];

fn rf(n: u32) -> Object {
    Object::Reference((n, 0))
}
fn nm(s: &str) -> Object {
    Object::Name(s.as_bytes().to_vec())
}
fn dict(pairs: Vec<(&str, Object)>) -> Dictionary {
    let mut d = Dictionary::new();
    for (k, v) in pairs {
        d.set(k, v);
    }
    d
}

fn build_family(fam: &str, len: u32) -> Document {
    let mut d = Document::with_version("1.5");
    let last = HEAD + len - 1;
    let dest = || Object::Array(vec![rf(3), nm("Fit")]);
    let mut cat = dict(vec![("Type", nm("Catalog")), ("Pages", rf(2)), ("Outlines", rf(5))]);
    let mut root = dict(vec![("Type", nm("Pages")), ("Kids", Object::Array(vec![rf(3)])), ("Count", Object::Integer(1))]);
    let mut page = dict(vec![
        ("Type", nm("Page")),
        ("Parent", rf(2)),
        ("Contents", rf(4)),
        ("Resources", Object::Dictionary(dict(vec![("Font", Object::Dictionary(dict(vec![("F1", rf(7))])))]))),
    ]);
    let mut outlines = dict(vec![("Type", nm("Outlines"))]);
    let mut content = Stream::new(Dictionary::new(), TEXT_CONTENT.to_vec());
    let mut res6 = dict(vec![("Font", Object::Dictionary(dict(vec![("F1", rf(7))])))]);
    let font = dict(vec![("Type", nm("Font")), ("Subtype", nm("Type1")), ("Encoding", nm("WinAnsiEncoding"))]);
    for i in HEAD..=last {
        let nxt = if i < last { Some(rf(i + 1)) } else { None };
        let o = match fam {
            "parent" => {
                let mut n = dict(vec![("Type", nm("Pages")), ("Resources", rf(6))]);
                if let Some(x) = nxt {
                    n.set("Parent", x);
                }
                Object::Dictionary(n)
            }
            "first" | "next" => {
                let mut n = dict(vec![("Title", Object::string_literal("a")), ("Dest", dest())]);
                if let Some(x) = nxt {
                    n.set(if fam == "first" { "First" } else { "Next" }, x);
                }
                Object::Dictionary(n)
            }
            "kids" => match nxt {
                Some(x) => Object::Dictionary(dict(vec![("Kids", Object::Array(vec![x]))])),
                None => Object::Dictionary(dict(vec![(
                    "Names",
                    Object::Array(vec![Object::string_literal("t"), Object::Dictionary(dict(vec![("D", dest())]))]),
                )])),
            },
            "kidsdouble" => match nxt {
                Some(x) => Object::Dictionary(dict(vec![("Kids", Object::Array(vec![x.clone(), x]))])),
                None => Object::Dictionary(dict(vec![(
                    "Names",
                    Object::Array(vec![Object::string_literal("t"), Object::Dictionary(dict(vec![("D", dest())]))]),
                )])),
            },
            "firstnext" => {
                let mut n = dict(vec![("Title", Object::string_literal("a")), ("Dest", dest())]);
                if let Some(x) = nxt {
                    n.set("First", x.clone());
                    n.set("Next", x);
                }
                Object::Dictionary(n)
            }
            "pagekidsdouble" => {
                let kids = match nxt {
                    Some(x) => vec![x.clone(), x],
                    None => vec![rf(3)],
                };
                Object::Dictionary(dict(vec![("Type", nm("Pages")), ("Kids", Object::Array(kids)), ("Count", Object::Integer(1))]))
            }
            "kidswide" => {
                if i == HEAD {
                    Object::Dictionary(dict(vec![("Kids", Object::Array((HEAD + 1..=last).map(rf).collect()))]))
                } else {
                    Object::Dictionary(dict(vec![(
                        "Names",
                        Object::Array(vec![Object::string_literal("t"), Object::Dictionary(dict(vec![("D", dest())]))]),
                    )]))
                }
            }
            "pagekids" => {
                let kids = match nxt {
                    Some(x) => vec![x, rf(3)],
                    None => vec![rf(3)],
                };
                Object::Dictionary(dict(vec![("Type", nm("Pages")), ("Kids", Object::Array(kids)), ("Count", Object::Integer(1))]))
            }
            "annots" => Object::Dictionary(dict(vec![("Type", nm("Annot")), ("Subtype", nm("Link"))])),
            "refchain" | "length" => match nxt {
                Some(x) => x,
                None => {
                    if fam == "length" {
                        Object::Integer(TEXT_CONTENT.len() as i64)
                    } else {
                        rf(8)
                    }
                }
            },
            "fontchain" => Object::Dictionary(dict(vec![("Type", nm("Font")), ("Subtype", nm("Type0")), ("Encoding", nm("Identity-H"))])),
            "contents" => Object::Null,
            _ => panic!("unknown family {fam}"),
        };
        d.objects.insert((i, 0), o);
    }
    match fam {
        "parent" => page.set("Parent", rf(HEAD)),
        "first" | "next" | "firstnext" => outlines.set("First", rf(HEAD)),
        "kids" | "kidswide" | "kidsdouble" => cat.set("Names", Object::Dictionary(dict(vec![("Dests", rf(HEAD))]))),
        "pagekids" | "pagekidsdouble" => root.set("Kids", Object::Array(vec![rf(HEAD)])),
        "contents" => page.set("Contents", Object::Array((0..len).map(|_| rf(4)).collect::<Vec<_>>())),
        "annots" => page.set("Annots", Object::Array((HEAD..=last).map(rf).collect::<Vec<_>>())),
        "refchain" => {
            // object 8 = a dictionary that is page-parent, resources, outline and name tree at once
            d.objects.insert((8, 0), Object::Dictionary(dict(vec![
                ("Type", nm("Pages")), ("Font", Object::Dictionary(dict(vec![("F1", rf(7))]))),
                ("Title", Object::string_literal("a")), ("Dest", dest()),
                ("Names", Object::Array(vec![Object::string_literal("t"), Object::Dictionary(dict(vec![("D", dest())]))])),
            ])));
            page.set("Contents", rf(HEAD));
            page.set("Parent", rf(HEAD));
            page.set("Resources", rf(HEAD));
            cat.set("Outlines", rf(HEAD));
            cat.set("Dests", rf(HEAD));
            root.set("Kids", Object::Array(vec![rf(3)]));
        }
        "fontchain" => {
            let mut f = Dictionary::new();
            for i in HEAD..=last {
                f.set(format!("F{i}"), rf(i));
            }
            res6 = dict(vec![("Font", Object::Dictionary(f))]);
            page.set("Resources", rf(6));
        }
        "length" => content.dict.set("Length", rf(HEAD)),
        _ => {}
    }
    d.objects.insert((1, 0), Object::Dictionary(cat));
    d.objects.insert((2, 0), Object::Dictionary(root));
    d.objects.insert((3, 0), Object::Dictionary(page));
    d.objects.insert((4, 0), Object::Stream(content));
    d.objects.insert((5, 0), Object::Dictionary(outlines));
    d.objects.insert((6, 0), Object::Dictionary(res6));
    d.objects.insert((7, 0), Object::Dictionary(font));
    d.max_id = last.max(9);
    d.trailer.set("Root", rf(1));
    d
}

/// The calls made on a family document: the document-level queries and the per-object queries on the fixed
/// objects and on the head, the middle and the end of the chain.
fn family_plan(len: u32) -> Vec<(&'static str, u32)> {
    let mut ids = vec![0, 1, 2, 3, 5, 6, HEAD, HEAD + len / 2, HEAD + len - 1];
    ids.dedup();
    let full = plan(0);
    let mut p: Vec<(&'static str, u32)> = full.iter().filter(|(_, id)| *id == 0).take(7).cloned().collect();
    let per: Vec<&'static str> = full.iter().skip(7).map(|(q, _)| *q).collect();
    let mut seen = std::collections::BTreeSet::new();
    for id in ids {
        if seen.insert(id) {
            for q in &per {
                p.push((q, id));
            }
        }
    }
    p
}

thread_local! {
    static FAMILY_DOC: std::cell::RefCell<Option<(String, u32, std::sync::Arc<Document>)>> = const { std::cell::RefCell::new(None) };
}

/// Worker side of a family case {"fam", "len", "stack_kb", "only": [q, id]}: the query runs in a thread with the
/// given stack, so "how deep may a walker recurse" is a stated parameter of the experiment, not an accident.
fn family_case(case: &Value) -> String {
    let fam = case["fam"].as_str().unwrap().to_string();
    let len = case["len"].as_u64().unwrap() as u32;
    let stack_kb = case["stack_kb"].as_u64().unwrap_or(2048) as usize;
    let o = case["only"].as_array().expect("family cases are single queries");
    let (q, id) = (o[0].as_str().unwrap().to_string(), o[1].as_u64().unwrap() as u32);
    let doc = FAMILY_DOC.with(|c| {
        let mut c = c.borrow_mut();
        match &*c {
            Some((f, l, d)) if *f == fam && *l == len => d.clone(),
            _ => {
                let d = std::sync::Arc::new(build_family(&fam, len));
                *c = Some((fam.clone(), len, d.clone()));
                d
            }
        }
    });
    let d2 = doc.clone();
    let q2 = q.clone();
    let h = std::thread::Builder::new()
        .stack_size(stack_kb * 1024)
        .spawn(move || guarded(|| run_query(&d2, &q2, id)))
        .expect("spawn query thread");
    match h.join().expect("query thread") {
        Ok(v) => json!({"obs": [], "val": v}).to_string(),
        Err(msg) => json!({"obs": [{"q": q, "id": id, "kind": "panic", "msg": msg.chars().take(160).collect::<String>()}], "val": "panic"}).to_string(),
    }
}

fn count_of(v: &Value) -> Value {
    // {t, ids} -> {t, n}
    json!({"t": v["t"], "n": v["ids"].as_array().map(|a| a.len()).unwrap_or(0)})
}

fn chains(args: &[String]) {
    let recs = read_ndjson(&arg(args, "--in").unwrap());
    let mut out = NdjsonOut::create(&arg(args, "--out").unwrap());
    let timeout = Duration::from_millis(arg_u64(args, "--timeout-ms", 5000));
    let mem = arg_u64(args, "--mem-mb", 2048);
    let stack_kb = arg_u64(args, "--stack-kb", 2048);
    let exe = std::env::current_exe().unwrap().to_string_lossy().to_string();
    let wargs = vec!["worker".to_string()];
    for (i, r) in recs.iter().enumerate() {
        let fam = r["fam"].as_str().unwrap();
        let len = r["len"].as_u64().unwrap() as u32;
        let pl = family_plan(len);
        let cases: Vec<String> =
            pl.iter().map(|(q, id)| json!({"fam": fam, "len": len, "stack_kb": stack_kb, "only": [q, id]}).to_string()).collect();
        let res = sup::run_cases(&exe, &wargs, &cases, timeout, mem);
        let mut obs = vec![];
        let na = json!({"t": "na", "n": 0});
        let mut sum = json!({"outl": "na", "toc": "na", "nd": "na", "deref": "na", "pages": na, "rsrc": na, "cont": na});
        for (k, o) in res.iter().enumerate() {
            let (q, id) = pl[k];
            let val = match o {
                sup::Outcome::Line(l) => {
                    let v: Value = serde_json::from_str(l).expect("worker line");
                    if v.get("harness_error").is_some() {
                        eprintln!("harness error in family case {fam}/{len}: {v}");
                        std::process::exit(3);
                    }
                    if let Some(a) = v["obs"].as_array() {
                        obs.extend(a.iter().cloned());
                    }
                    v["val"].clone()
                }
                other => {
                    let (mut kind, mut msg) = outcome_kind(other).unwrap();
                    if kind == "hang" {
                        let again = sup::run_cases(&exe, &wargs, &cases[k..k + 1], timeout * 3, mem);
                        match outcome_kind(&again[0]) {
                            None => continue,
                            Some((k2, m2)) => {
                                kind = k2;
                                msg = m2;
                            }
                        }
                    }
                    obs.push(json!({"q": q, "id": id, "kind": kind, "msg": msg}));
                    json!(kind)
                }
            };
            let bare = val.is_string();
            match (q, id) {
                ("get_outlines", _) => sum["outl"] = val,
                ("get_toc", _) => sum["toc"] = val,
                ("get_pages", _) => sum["pages"] = if bare { json!({"t": val, "n": 0}) } else { count_of(&val) },
                ("get_named_destinations", HEAD) => sum["nd"] = val,
                ("dereference", HEAD) => sum["deref"] = val,
                ("get_page_resources", 3) => sum["rsrc"] = if bare { json!({"t": val, "n": 0}) } else { count_of(&val) },
                ("get_page_contents", 3) => sum["cont"] = if bare { json!({"t": val, "n": 0}) } else { count_of(&val) },
                _ => {}
            }
        }
        out.put(&json!({"i": i, "fam": fam, "len": len, "ran": true, "calls": pl.len(), "stack_kb": stack_kb, "obs": obs, "res": sum}));
    }
    out.finish();
}

fn gen_chains(args: &[String]) {
    let seed = arg_u64(args, "--seed", 1);
    let thorough = arg_or(args, "--tier", "quick") == "thorough";
    let mut out = NdjsonOut::create(&arg(args, "--out").unwrap());
    let mut rng = Rng::new(seed ^ 0xC13C);
    // powers of ten far beyond every limit; the neighbourhood of DEREF_LIMIT (128) and of the depth limits (256)
    let mut lens: Vec<u32> = vec![1, 2, 10, 100, 127, 128, 129, 130, 255, 256, 257, 258, 259, 1000, 10_000, 20_000, 50_000];
    if thorough {
        lens.push(100_000);
    }
    for fam in FAMILIES {
        let mut ls = lens.clone();
        for _ in 0..(if thorough { 6 } else { 2 }) {
            ls.push(2 + rng.below(3000) as u32);
        }
        if fam.ends_with("double") || *fam == "firstnext" {
            // sharing: the number of paths is what grows, a few lengths say it all (and a walker that does
            // follow every path costs one time limit per call, not per length)
            ls = vec![30, 300];
        }
        for l in ls {
            // wide arrays of 100 000 copies of the text stream only cost time in the content parser
            if (*fam == "contents" || *fam == "fontchain") && l > 10_000 {
                continue;
            }
            out.put(&json!({"fam": fam, "len": l}));
        }
    }
    out.finish();
}

// ------------------------------------------------------------------ supervisor
fn outcome_kind(o: &sup::Outcome) -> Option<(&'static str, String)> {
    match o {
        sup::Outcome::Line(_) => None,
        sup::Outcome::Hang => Some(("hang", "no answer within the time limit".to_string())),
        sup::Outcome::Crash(s) => Some(("crash", s.clone())),
    }
}

fn run(args: &[String]) {
    let recs = read_ndjson(&arg(args, "--in").unwrap());
    let mut out = NdjsonOut::create(&arg(args, "--out").unwrap());
    let timeout = Duration::from_millis(arg_u64(args, "--timeout-ms", 2000));
    let mem = arg_u64(args, "--mem-mb", 1024);
    let exe = std::env::current_exe().unwrap().to_string_lossy().to_string();
    let wargs = vec!["worker".to_string()];

    // pass 1: whole documents (records marked skip are not executed, records marked singles go straight to pass 2)
    let mut idx1 = vec![];
    let mut cases1 = vec![];
    for (i, r) in recs.iter().enumerate() {
        let skip = r.get("skip").and_then(Value::as_bool).unwrap_or(false);
        let singles = r.get("singles").and_then(Value::as_bool).unwrap_or(false);
        if !skip && !singles {
            idx1.push(i);
            cases1.push(json!({"doc": r["doc"]}).to_string());
        }
    }
    // Budget: unpredicted hangs cost a time limit each.  Pass 1 runs in batches and stops executing once
    // MAX_LOST_HANGS documents were lost to a hang (the rest is reported as not run); pass 2 attributes only the
    // first few lost documents to single queries, the others are reported unattributed (q = "all").
    const BATCH: usize = 200;
    const MAX_LOST_HANGS: usize = 6;
    const ATTR_HANG_DOCS: usize = 3;
    const ATTR_CRASH_DOCS: usize = 40;
    let mut res1: Vec<sup::Outcome> = vec![];
    let mut lost_hangs = 0;
    for chunk in cases1.chunks(BATCH) {
        if lost_hangs >= MAX_LOST_HANGS {
            break;
        }
        let r = sup::run_cases(&exe, &wargs, chunk, timeout, mem);
        lost_hangs += r.iter().filter(|o| matches!(o, sup::Outcome::Hang)).count();
        res1.extend(r);
    }
    let mut answers: Vec<Option<Value>> = vec![None; recs.len()];
    let mut need_singles: Vec<usize> = vec![];
    let (mut attr_h, mut attr_c) = (0, 0);
    for (k, o) in res1.iter().enumerate() {
        let i = idx1[k];
        match o {
            sup::Outcome::Line(l) => {
                let v: Value = serde_json::from_str(l).unwrap_or_else(|e| panic!("worker answered garbage: {e}: {l}"));
                if v.get("harness_error").is_some() {
                    eprintln!("harness error in case {i}: {v}");
                    std::process::exit(3);
                }
                answers[i] = Some(v);
            }
            other => {
                let (kind, msg) = outcome_kind(other).unwrap();
                let within = if kind == "hang" {
                    attr_h += 1;
                    attr_h <= ATTR_HANG_DOCS
                } else {
                    attr_c += 1;
                    attr_c <= ATTR_CRASH_DOCS
                };
                if within {
                    need_singles.push(i);
                } else {
                    let n = recs[i]["doc"]["objs"].as_array().map(|a| a.len()).unwrap_or(0) as u32;
                    answers[i] = Some(json!({"obs": [{"q": "all", "id": 0, "kind": kind,
                        "msg": format!("whole-document run lost ({msg}); not attributed to a query (budget)")}], "res": empty_res(n)}));
                }
            }
        }
    }
    for (i, r) in recs.iter().enumerate() {
        if r.get("singles").and_then(Value::as_bool).unwrap_or(false) && !r.get("skip").and_then(Value::as_bool).unwrap_or(false) {
            need_singles.push(i);
        }
    }
    need_singles.sort();
    // pass 2: attribute a hang / crash to the query that causes it — one (query, id) per case, fresh
    // worker after every loss.  An unpredicted hang is confirmed once with a longer limit.
    for &i in &need_singles {
        let r = &recs[i];
        let n = r["doc"]["objs"].as_array().map(|a| a.len()).unwrap_or(0) as u32;
        let expect_hang = r.get("expect_hang").and_then(Value::as_bool).unwrap_or(false);
        let pl = plan(n);
        let cases: Vec<String> = pl.iter().map(|(q, id)| json!({"doc": r["doc"], "only": [q, id]}).to_string()).collect();
        // singles run in small groups; an unpredicted document stops after 2 hanging queries, a predicted one after 4
        let max_hangs = if expect_hang { 4 } else { 2 };
        let mut res: Vec<sup::Outcome> = vec![];
        let mut hangs = 0;
        for chunk in cases.chunks(4) {
            if hangs >= max_hangs {
                break;
            }
            let r = sup::run_cases(&exe, &wargs, chunk, timeout, mem);
            hangs += r.iter().filter(|o| matches!(o, sup::Outcome::Hang)).count();
            res.extend(r);
        }
        let mut obs = vec![];
        let mut merged = empty_res(n);
        for (k, o) in res.iter().enumerate() {
            let (q, id) = pl[k];
            let slot = slot_of(q);
            match o {
                sup::Outcome::Line(l) => {
                    let v: Value = serde_json::from_str(l).expect("worker line");
                    if let Some(a) = v["obs"].as_array() {
                        obs.extend(a.iter().cloned());
                    }
                    if let Some(sl) = slot {
                        let rv = &v["res"][sl];
                        let val = if sl == "outl" || sl == "toc" || sl == "pages" {
                            rv.clone()
                        } else if id >= 1 && id <= n {
                            rv[id as usize - 1].clone()
                        } else {
                            Value::Null
                        };
                        if !val.is_null() {
                            put(&mut merged, sl, id, n, val);
                        }
                    }
                }
                other => {
                    let (mut kind, mut msg) = outcome_kind(other).unwrap();
                    if kind == "hang" && !expect_hang {
                        let again = sup::run_cases(&exe, &wargs, &cases[k..k + 1], timeout * 3, mem);
                        match outcome_kind(&again[0]) {
                            None => continue, // answered within the longer limit: not a hang
                            Some((k2, m2)) => {
                                kind = k2;
                                msg = m2;
                            }
                        }
                    }
                    obs.push(json!({"q": q, "id": id, "kind": kind, "msg": msg}));
                    if let Some(sl) = slot {
                        put(&mut merged, sl, id, n, shaped(sl, kind));
                    }
                }
            }
        }
        if obs.is_empty() {
            // the whole-document run was lost but no single query reproduces it
            let (kind, msg) = match res1.iter().zip(idx1.iter()).find(|(_, j)| **j == i) {
                Some((o, _)) => outcome_kind(o).unwrap_or(("crash", String::new())),
                None => ("crash", String::new()),
            };
            if !r.get("singles").and_then(Value::as_bool).unwrap_or(false) {
                // try the whole document once more with three times the limit: only a reproduced loss is data
                let whole = vec![json!({"doc": r["doc"]}).to_string()];
                let again = sup::run_cases(&exe, &wargs, &whole, timeout * 3, mem);
                match &again[0] {
                    sup::Outcome::Line(l) => {
                        answers[i] = Some(serde_json::from_str(l).expect("worker line"));
                        continue;
                    }
                    other => {
                        let (k2, m2) = outcome_kind(other).unwrap();
                        obs.push(json!({"q": "all", "id": 0, "kind": k2,
                            "msg": format!("whole-document run lost twice ({kind}: {msg}; {k2}: {m2}), no single query reproduces it")}));
                    }
                }
            }
        }
        answers[i] = Some(json!({"obs": obs, "res": merged}));
    }
    for (i, a) in answers.into_iter().enumerate() {
        match a {
            Some(v) => out.put(&json!({"i": i, "ran": true, "obs": v["obs"], "res": v["res"]})),
            None => out.put(&json!({"i": i, "ran": false, "obs": [], "res": {}})),
        }
    }
    out.finish();
}

// ------------------------------------------------------------------ seeded random typed-chaos documents
fn mk(k: &str, n: i64, s: &str, e: Vec<Value>, d: Vec<Value>) -> Value {
    json!({"k": k, "n": n, "s": s, "e": e, "d": d})
}

const KEYS: &[&str] = &[
    "Type", "Kids", "Parent", "Count", "Contents", "Resources", "Font", "XObject", "ColorSpace", "Annots", "Outlines",
    "First", "Next", "Dest", "A", "D", "S", "Title", "Names", "Dests", "Encoding", "ToUnicode", "Filter", "Length",
    "Subtype", "Width", "Height", "BitsPerComponent", "Pages", "F1", "Im1", "DecodeParms", "Predictor", "Columns",
];

/// KEYS plus the names harvested from the sources of the tree under test (`gen --keys A,B,..`): the vocabulary of
/// the generator is a function of the code that is checked.
static ALL_KEYS: std::sync::OnceLock<Vec<&'static str>> = std::sync::OnceLock::new();

fn all_keys() -> &'static [&'static str] {
    ALL_KEYS.get().map(|v| v.as_slice()).unwrap_or(KEYS)
}

fn expected_names(key: &str) -> &'static [&'static str] {
    match key {
        "Type" => &["Page", "Pages", "Catalog", "Font", "Outlines", "XObject"],
        "S" => &["GoTo", "GoToR", "URI"],
        "Subtype" => &["Image", "Form", "Type1", "Link"],
        "Encoding" => &["WinAnsiEncoding", "Identity-H", "StandardEncoding", "MacRomanEncoding", "PDFDocEncoding", "Foo"],
        "Filter" => &["FlateDecode", "ASCII85Decode", "LZWDecode", "DCTDecode"],
        "ColorSpace" => &["DeviceRGB", "DeviceGray"],
        _ => &["Fit", "XYZ"],
    }
}

fn rand_ref(rng: &mut Rng, n: usize, me: usize) -> Value {
    // ref to each object incl. self, dangling ref
    let t = match rng.below(8) {
        0 => 0,
        1 => me as i64,
        _ => 1 + rng.below(n) as i64,
    };
    mk("ref", t, "", vec![], vec![])
}

fn rand_val(rng: &mut Rng, key: &str, n: usize, me: usize, depth: u32) -> Value {
    let r = rng.below(100);
    match r {
        0..=2 => mk("null", 0, "", vec![], vec![]),
        3..=4 => mk("bool", rng.below(2) as i64, "", vec![], vec![]),
        5..=6 => mk("int", -1 - rng.below(3) as i64, "", vec![], vec![]),
        7..=8 => mk("int", 0, "", vec![], vec![]),
        9..=12 if key == "Count" && rng.chance(1, 4) => mk("int", BIG + rng.below(2) as i64, "", vec![], vec![]),
        9..=12 => mk("int", 1 + rng.below(300) as i64, "", vec![], vec![]),
        13 => mk("int", if rng.chance(1, 2) { BIG } else { -BIG }, "", vec![], vec![]),
        14..=15 => mk("real", rng.below(2) as i64, "", vec![], vec![]),
        16..=23 => mk("name", 0, *rng.pick(expected_names(key)), vec![], vec![]),
        24..=26 => mk("name", 0, "Other", vec![], vec![]),
        27..=32 => mk("str", 0, *rng.pick(&["", "a", "ab", "t", "BE", "BE+1", "BE+2", "LE", "LE+1", "LE+2"]), vec![], vec![]),
        33..=35 => mk("arr", 0, "", vec![], vec![]),
        36..=39 => mk("arr", 0, "", vec![rand_val(rng, key, n, me, depth + 2)], vec![]),
        40..=49 => {
            // array of refs (1..4)
            let m = 1 + rng.below(4);
            mk("arr", 0, "", (0..m).map(|_| rand_ref(rng, n, me)).collect(), vec![])
        }
        50..=54 => {
            // mixed array (keys and values of a name tree, destinations)
            let m = 2 + rng.below(3);
            mk("arr", 0, "", (0..m).map(|_| rand_val(rng, key, n, me, depth + 2)).collect(), vec![])
        }
        55..=62 => {
            if depth >= 3 {
                mk("dict", 0, "", vec![], vec![])
            } else {
                rand_dict(rng, "dict", n, me, depth + 1)
            }
        }
        63..=64 => {
            if depth >= 3 {
                mk("stream", 0, "", vec![], vec![])
            } else {
                rand_dict(rng, "stream", n, me, depth + 1)
            }
        }
        _ => rand_ref(rng, n, me),
    }
}

/// a dictionary (or stream) binding a random subset of the keys the query code reads
fn rand_dict(rng: &mut Rng, kind: &str, n: usize, me: usize, depth: u32) -> Value {
    let nk = if depth == 0 { 2 + rng.below(8) } else { rng.below(4) };
    let mut keys: Vec<&str> = vec![];
    // bias towards a role so that walkers get deep enough to matter
    let role = rng.below(8);
    let pref: &[&str] = match role {
        0 => &["Type", "Kids", "Count", "Parent", "Resources"],
        1 => &["Type", "Parent", "Contents", "Resources", "Annots"],
        2 => &["First", "Next", "Dest", "Title", "A"],
        3 => &["Kids", "Names", "D"],
        4 => &["Font", "XObject", "F1", "Im1"],
        5 => &["Type", "Subtype", "Encoding", "ToUnicode", "Width", "Height", "ColorSpace", "Filter", "BitsPerComponent"],
        6 => &["Type", "Pages", "Outlines", "Dests", "Names"],
        _ => &["S", "D", "Title", "Dest"],
    };
    for _ in 0..nk {
        let k = if rng.chance(2, 3) { *rng.pick(pref) } else { *rng.pick(all_keys()) };
        if !keys.contains(&k) {
            keys.push(k);
        }
    }
    let d: Vec<Value> = keys.iter().map(|k| json!([k, rand_val(rng, k, n, me, depth)])).collect();
    let s = if kind == "stream" { *rng.pick(&["", "text", "text", "junk", "z"]) } else { "" };
    mk(kind, 0, s, vec![], d)
}

fn rand_doc(rng: &mut Rng) -> Value {
    let n = 1 + rng.below(12);
    let mut objs = vec![];
    for me in 1..=n {
        let o = match rng.below(20) {
            0..=11 => rand_dict(rng, "dict", n, me, 0),
            12..=14 => rand_dict(rng, "stream", n, me, 0),
            15..=16 => rand_ref(rng, n, me),
            _ => rand_val(rng, "Kids", n, me, 1),
        };
        objs.push(o);
    }
    // usually a usable skeleton so that the deep queries are reached: object 1 a catalog-like dictionary
    if rng.chance(4, 5) {
        let mut d = vec![];
        for key in ["Pages", "Outlines", "Dests", "Names"] {
            if rng.chance(3, 4) {
                let v = if rng.chance(4, 5) { rand_ref(rng, n, 1) } else { rand_val(rng, key, n, 1, 1) };
                d.push(json!([key, v]));
            }
        }
        if rng.chance(1, 2) {
            d.push(json!(["Type", mk("name", 0, "Catalog", vec![], vec![])]));
        }
        objs[0] = mk("dict", 0, "", vec![], d);
    }
    let root = if rng.chance(9, 10) { mk("ref", 1, "", vec![], vec![]) } else { rand_val(rng, "Root", n, 0, 1) };
    json!({"objs": objs, "root": root})
}

fn v_ref(n: i64) -> Value {
    mk("ref", n, "", vec![], vec![])
}
fn v_name(s: &str) -> Value {
    mk("name", 0, s, vec![], vec![])
}
fn v_int(n: i64) -> Value {
    mk("int", n, "", vec![], vec![])
}
fn v_str(s: &str) -> Value {
    mk("str", 0, s, vec![], vec![])
}
fn v_arr(e: Vec<Value>) -> Value {
    mk("arr", 0, "", e, vec![])
}
fn v_dict(d: Vec<(&str, Value)>) -> Value {
    mk("dict", 0, "", vec![], d.into_iter().map(|(k, v)| json!([k, v])).collect())
}
fn v_stream(d: Vec<(&str, Value)>, s: &str) -> Value {
    mk("stream", 0, s, vec![], d.into_iter().map(|(k, v)| json!([k, v])).collect())
}

/// A small well-formed document (12 objects) that reaches every query's deep code ...
fn skeleton() -> Vec<Value> {
    vec![
        /* 1 */ v_dict(vec![("Type", v_name("Catalog")), ("Pages", v_ref(2)), ("Outlines", v_ref(7)), ("Names", v_dict(vec![("Dests", v_ref(10))]))]),
        /* 2 */ v_dict(vec![("Type", v_name("Pages")), ("Kids", v_arr(vec![v_ref(3)])), ("Count", v_int(1)), ("Resources", v_ref(12))]),
        /* 3 */ v_dict(vec![("Type", v_name("Page")), ("Parent", v_ref(2)), ("Contents", v_ref(4)), ("Annots", v_arr(vec![v_ref(11)])),
                            ("Resources", v_dict(vec![("Font", v_dict(vec![("F1", v_ref(5))])), ("XObject", v_dict(vec![("Im1", v_ref(6))]))]))]),
        /* 4 */ v_stream(vec![], "text"),
        /* 5 */ v_dict(vec![("Type", v_name("Font")), ("Subtype", v_name("Type1")), ("Encoding", v_name("WinAnsiEncoding"))]),
        /* 6 */ v_stream(vec![("Type", v_name("XObject")), ("Subtype", v_name("Image")), ("Width", v_int(2)), ("Height", v_int(2)),
                              ("ColorSpace", v_name("DeviceRGB")), ("BitsPerComponent", v_int(8))], "junk"),
        /* 7 */ v_dict(vec![("Type", v_name("Outlines")), ("First", v_ref(8)), ("Count", v_int(2))]),
        /* 8 */ v_dict(vec![("Title", v_str("a")), ("Dest", v_arr(vec![v_ref(3), v_name("Fit")])), ("Next", v_ref(9)), ("Parent", v_ref(7))]),
        /* 9 */ v_dict(vec![("Title", v_str("BE+2")), ("A", v_dict(vec![("S", v_name("GoTo")), ("D", v_str("t"))])), ("Parent", v_ref(7))]),
        /* 10 */ v_dict(vec![("Names", v_arr(vec![v_str("t"), v_ref(11)])), ("Kids", v_arr(vec![]))]),
        /* 11 */ v_dict(vec![("D", v_arr(vec![v_ref(3), v_name("Fit")])), ("Subtype", v_name("Link"))]),
        /* 12 */ v_dict(vec![("Font", v_dict(vec![("F1", v_ref(5))]))]),
    ]
}

/// ... with 1-4 bindings replaced by (or added as) a value of a random kind
fn mutated_skeleton(rng: &mut Rng) -> Value {
    let mut objs = skeleton();
    let n = objs.len();
    for _ in 0..1 + rng.below(4) {
        let me = 1 + rng.below(n);
        let o = &mut objs[me - 1];
        // descend into a nested dictionary now and then
        let mut target: &mut Value = o;
        for _ in 0..2 {
            if rng.chance(1, 3) {
                let nested: Vec<usize> = target["d"].as_array().unwrap().iter().enumerate()
                    .filter(|(_, p)| p[1]["k"] == "dict").map(|(i, _)| i).collect();
                if !nested.is_empty() {
                    let i = *rng.pick(&nested);
                    target = &mut target["d"][i][1];
                }
            }
        }
        let pairs = target["d"].as_array_mut().unwrap();
        if !pairs.is_empty() && rng.chance(3, 4) {
            let i = rng.below(pairs.len());
            let key = pairs[i][0].as_str().unwrap().to_string();
            if rng.chance(1, 8) {
                pairs.remove(i);
            } else {
                pairs[i][1] = rand_val(rng, &key, n, me, 1);
            }
        } else {
            let key = *rng.pick(all_keys());
            if !pairs.iter().any(|p| p[0] == key) {
                pairs.push(json!([key, rand_val(rng, key, n, me, 1)]));
            }
        }
    }
    json!({"objs": objs, "root": v_ref(1)})
}

fn gen(args: &[String]) {
    let seed = arg_u64(args, "--seed", 1);
    let n = arg_u64(args, "--n", 200);
    let mut out = NdjsonOut::create(&arg(args, "--out").unwrap());
    let mut rng = Rng::new(seed ^ 0xC13);
    if let Some(extra) = arg(args, "--keys") {
        let mut v: Vec<&'static str> = KEYS.to_vec();
        for k in extra.split(',').filter(|k| !k.is_empty()) {
            if !v.contains(&k) {
                v.push(Box::leak(k.to_string().into_boxed_str()));
            }
        }
        let _ = ALL_KEYS.set(v);
    }
    for i in 0..n {
        let doc = if i == 0 {
            json!({"objs": skeleton(), "root": v_ref(1)})
        } else if rng.chance(1, 2) {
            mutated_skeleton(&mut rng)
        } else {
            rand_doc(&mut rng)
        };
        out.put(&json!({"doc": doc}));
    }
    out.finish();
}

fn main() {
    let args: Vec<String> = std::env::args().collect();
    match args.get(1).map(String::as_str) {
        Some("gen") => gen(&args),
        Some("run") => run(&args),
        Some("worker") => worker(),
        Some("chains") => chains(&args),
        Some("gen-chains") => gen_chains(&args),
        _ => {
            eprintln!("usage: c13 gen --seed S --n N --out F | run --in F --out F [--timeout-ms T] [--mem-mb M] | worker");
            std::process::exit(2)
        }
    }
}
