use lopdf::{Document, Object};
fn main() {
    for x in [1e-45f32, 1.0e-40, 7.0e-46, 1e-38, 191758816.0] {
        let mut d = Document::with_version("1.5");
        d.objects.insert((1, 0), Object::Array(vec![Object::Real(x)]));
        d.max_id = 1;
        let mut out = vec![];
        d.save_to(&mut out).unwrap();
        let l = Document::load_mem(&out).unwrap();
        println!("{:e} -> {:?}   file: {:?}", x, l.objects.get(&(1, 0)), String::from_utf8_lossy(&out[15..90.min(out.len())]));
    }
}
