fn main() {
    let d = lopdf::Document::with_version("1.5");
    println!("{}", lopdf_conform::wire::doc_to_json(&d));
}
