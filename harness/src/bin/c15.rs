//! C15 — ToUnicode CMaps decode text as the CMap defines.
//!
//! `replay`: cases emitted by TLC (MC_CMap): CMap program text, the /Encoding form of the font that
//! carries it and code byte strings.  The program is stored as the ToUnicode stream of such a font
//! dictionary, `Dictionary::get_font_encoding(&doc)` builds the encoding and `Document::decode_text`
//! decodes every code on its own and the whole string (with whatever encoding came back).
//! `record`: seeded random mapping tables (1-4 byte codes, prefix-free code spaces incl. the
//! boundaries 00 / FF.. , overlapping / touching / equal-valued definitions, BMP, astral and
//! multi-unit targets, arrays) rendered as program text - a token sequence with classified gaps that
//! mirrors CMap!ProgramToks - with random sectioning (<= 100 entries per section), hex case and the
//! white-space lopdf's grammar takes everywhere; one record in two departs from that in one respect
//! (CMap!sty: a separator at every gap of one class, white space inside hexadecimal strings, a
//! zero-entry section, further CMap dictionary entries, the /Encoding form of the font).  The
//! rendered definition list, the style, the codes and lopdf's results are logged for Trace_CMap.
use lopdf::{Dictionary, Document, Encoding, Object, Stream};
use lopdf_conform::{guard::guarded, io::*, rng::Rng};
use serde_json::{json, Value};

// ------------------------------------------------------------------ driving lopdf

fn dec(enc: &Encoding, bytes: &[u8]) -> Value {
    match guarded(|| Document::decode_text(enc, bytes)) {
        Ok(Ok(s)) => json!({"p": 0, "chars": s.chars().map(|c| c as u32).collect::<Vec<u32>>(), "msg": ""}),
        Ok(Err(e)) => json!({"p": 2, "chars": [], "msg": format!("{e}")}),
        Err(m) => json!({"p": 1, "chars": [], "msg": m}),
    }
}

/// The /Encoding forms that may stand next to /ToUnicode (CMap!FontForms) and the font Subtype that goes with them.
const FONT_FORMS: [&str; 17] = [
    "absent", "Identity-H", "Identity-V",
    "StandardEncoding", "MacRomanEncoding", "WinAnsiEncoding", "MacExpertEncoding",
    "UniJIS-UTF16-H", "90ms-RKSJ-H", "UniGB-UCS2-H", "UniGB-UTF16-H", "GBK-EUC-H", "Custom-Name",
    "dict.diff", "dict.base.diff", "dictref", "cmapstream",
];

fn name(n: &str) -> Object {
    Object::Name(n.as_bytes().to_vec())
}

fn font_dict(doc: &mut Document, form: &str, cmap_id: lopdf::ObjectId) -> Dictionary {
    let mut font = Dictionary::new();
    font.set("Type", name("Font"));
    font.set("BaseFont", name("VerifFont"));
    let differences = || Object::Array(vec![Object::Integer(65), name("A"), name("Aacute"), Object::Integer(200), name("fi")]);
    let enc_dict = |base: bool| {
        let mut d = Dictionary::new();
        d.set("Type", name("Encoding"));
        if base {
            d.set("BaseEncoding", name("WinAnsiEncoding"));
        }
        d.set("Differences", differences());
        d
    };
    let simple = match form {
        "absent" | "Identity-H" | "Identity-V" => false,
        "StandardEncoding" | "MacRomanEncoding" | "WinAnsiEncoding" | "MacExpertEncoding" => true,
        "dict.diff" | "dict.base.diff" | "dictref" => true,
        _ => false,
    };
    font.set("Subtype", name(if simple { "Type1" } else { "Type0" }));
    match form {
        "absent" => {}
        "dict.diff" => font.set("Encoding", Object::Dictionary(enc_dict(false))),
        "dict.base.diff" => font.set("Encoding", Object::Dictionary(enc_dict(true))),
        "dictref" => {
            let id = doc.add_object(Object::Dictionary(enc_dict(true)));
            font.set("Encoding", Object::Reference(id));
        }
        "cmapstream" => {
            // an embedded CMap stream as the font's /Encoding (Type0 font)
            let mut d = Dictionary::new();
            d.set("Type", name("CMap"));
            d.set("CMapName", name("Verif-H"));
            let body = b"/CIDInit /ProcSet findresource begin\n12 dict begin\nbegincmap\n/CMapName /Verif-H def\n/CMapType 1 def\n1 begincodespacerange\n<0000> <FFFF>\nendcodespacerange\n1 begincidrange\n<0000> <FFFF> 0\nendcidrange\nendcmap\nCMapName currentdict /CMap defineresource pop\nend\nend\n";
            let id = doc.add_object(Object::Stream(Stream::new(d, body.to_vec())));
            font.set("Encoding", Object::Reference(id));
        }
        n => font.set("Encoding", name(n)),
    }
    font.set("ToUnicode", Object::Reference(cmap_id));
    font
}

/// Store `text` as the ToUnicode stream of a font whose /Encoding has the given form, ask lopdf for the
/// font's encoding and decode every code and the whole string with whatever it returned.
fn run_case(text: &[u8], codes: &[Vec<u8>], form: &str, compress: bool) -> Value {
    let mut doc = Document::with_version("1.7");
    let mut stream = Stream::new(Dictionary::new(), text.to_vec());
    if compress {
        let _ = stream.compress();
    }
    let cmap_id = doc.add_object(Object::Stream(stream));
    let font = font_dict(&mut doc, form, cmap_id);
    let enc = match guarded(|| font.get_font_encoding(&doc)) {
        Ok(Ok(e)) => e,
        Ok(Err(e)) => {
            let mut m = format!("{e}");
            m.truncate(160);
            return json!({"err": format!("error: {m}"), "encv": "", "per": [], "whole": {"p": 3, "chars": [], "msg": ""}});
        }
        Err(m) => return json!({"err": format!("panic: {m}"), "encv": "", "per": [], "whole": {"p": 3, "chars": [], "msg": ""}}),
    };
    let encv = match &enc {
        Encoding::OneByteEncoding(_) => "OneByteEncoding",
        Encoding::SimpleEncoding(_) => "SimpleEncoding",
        Encoding::UnicodeMapEncoding(_) => "UnicodeMapEncoding",
    };
    let per: Vec<Value> = codes.iter().map(|c| dec(&enc, c)).collect();
    let all: Vec<u8> = codes.iter().flatten().copied().collect();
    let whole = dec(&enc, &all);
    json!({"err": "", "encv": encv, "per": per, "whole": whole})
}

fn replay(args: &[String]) {
    let cases = read_ndjson(&arg(args, "--in").unwrap());
    let mut out = NdjsonOut::create(&arg(args, "--out").unwrap());
    for (i, c) in cases.iter().enumerate() {
        // "~" in the program text emitted by TLC stands for the byte 00 (CMap!AtomText)
        let text: Vec<u8> = c["t"].as_str().expect("program text").bytes().map(|b| if b == b'~' { 0 } else { b }).collect();
        let codes: Vec<Vec<u8>> = c["c"]
            .as_array()
            .map(|a| a.iter().map(|x| x.as_array().unwrap().iter().map(|b| b.as_u64().unwrap() as u8).collect()).collect())
            .unwrap_or_default();
        let form = c["f"].as_str().expect("font form");
        assert!(FONT_FORMS.contains(&form), "unknown font form {form}");
        let mut r = run_case(&text, &codes, form, i % 2 == 1);
        r["i"] = json!(i);
        out.put(&r);
    }
    out.finish();
}

// ------------------------------------------------------------------ random tables

#[derive(Clone, PartialEq, Debug)]
enum Tgt {
    Str(Vec<u16>),
    Arr(Vec<Vec<u16>>),
}

#[derive(Clone, Debug)]
struct Def {
    char_kind: bool,
    len: usize,
    lo: u32,
    hi: u32,
    t: Tgt,
}

fn is_hi(u: u16) -> bool {
    (0xD800..=0xDBFF).contains(&u)
}
fn is_lo(u: u16) -> bool {
    (0xDC00..=0xDFFF).contains(&u)
}

/// mirrors CMap!WFStr: valid UTF-16, and stays valid when `ext` is added to the last unit
fn wf_str(us: &[u16], ext: u32) -> bool {
    if us.is_empty() || String::from_utf16(us).is_err() {
        return false;
    }
    let l = *us.last().unwrap() as u32;
    if is_lo(l as u16) {
        l + ext <= 0xDFFF
    } else if l < 0xD800 {
        l + ext < 0xD800
    } else {
        l + ext <= 0xFFFF
    }
}

const ZONES: [(u32, u32); 8] = [
    (0x20, 0x7E),
    (0xA0, 0x24F),
    (0x391, 0x3C9),
    (0x4E00, 0x9FFF),
    (0xD700, 0xD7FF),
    (0xE000, 0xE0FF),
    (0xFB00, 0xFB06),
    (0xFF00, 0xFFFD),
];

/// one BMP non-surrogate unit u with [u, u+ext] inside one zone; sometimes right at the zone's end
fn gen_unit(rng: &mut Rng, ext: u32) -> u16 {
    loop {
        let (a, b) = *rng.pick(&ZONES);
        if b - a < ext {
            continue;
        }
        let top = b - ext;
        let u = if rng.chance(1, 4) { top } else { a + rng.below((top - a + 1) as usize) as u32 };
        return u as u16;
    }
}

fn gen_astral(rng: &mut Rng, ext: u32) -> [u16; 2] {
    let hi = 0xD800 + rng.below(0x400) as u32;
    let top = 0xDFFF - ext.min(0x3FF);
    let lo = if rng.chance(1, 4) { top } else { 0xDC00 + rng.below((top - 0xDC00 + 1) as usize) as u32 };
    [hi as u16, lo as u16]
}

fn gen_str(rng: &mut Rng, ext: u32) -> Vec<u16> {
    if rng.chance(1, 60) {
        // last unit ends exactly at 0xFFFF (u16 overflow edge).  Strings that start like a byte order
        // mark (U+FEFF, U+EFBB U+BFxx) are left to the corner tables.
        let v = if rng.chance(1, 2) { vec![(0xFFFF - ext) as u16] } else { vec![gen_unit(rng, 0), (0xFFFF - ext) as u16] };
        if wf_str(&v, ext) {
            return v;
        }
    }
    let v = match rng.below(20) {
        0..=10 => vec![gen_unit(rng, ext)],
        11..=14 => {
            let mut v = vec![gen_unit(rng, 0)];
            if rng.chance(1, 3) {
                v.push(gen_unit(rng, 0));
            }
            v.push(gen_unit(rng, ext));
            v
        }
        15..=17 => gen_astral(rng, ext).to_vec(),
        18 => {
            let a = gen_astral(rng, 0);
            vec![a[0], a[1], gen_unit(rng, ext)]
        }
        _ => {
            let a = gen_astral(rng, ext);
            vec![gen_unit(rng, 0), a[0], a[1]]
        }
    };
    assert!(wf_str(&v, ext), "generator produced an ill-formed target");
    v
}

fn gen_arr(rng: &mut Rng, n: usize) -> Vec<Vec<u16>> {
    if rng.chance(1, 5) {
        let e = gen_str(rng, 0);
        return vec![e; n];
    }
    (0..n).map(|_| gen_str(rng, 0)).collect()
}

/// one code length with the first-byte interval of its code space
#[derive(Clone, Debug)]
struct Space {
    len: usize,
    f_lo: u8,
    f_hi: u8,
}

fn gen_layout(rng: &mut Rng) -> Vec<Space> {
    match rng.below(8) {
        0 => return vec![Space { len: 2, f_lo: 0, f_hi: 255 }],
        1 => return vec![Space { len: 1, f_lo: 0, f_hi: 255 }],
        2 => return vec![Space { len: 1, f_lo: 0, f_hi: 0x7F }, Space { len: 2, f_lo: 0x80, f_hi: 0xFF }],
        _ => {}
    }
    let k = 1 + rng.below(3);
    let mut lens = vec![1usize, 2, 3, 4];
    rng.shuffle(&mut lens);
    lens.truncate(k);
    // k intervals partitioning 00..FF
    let mut cuts: Vec<u32> = vec![0];
    for j in 1..k {
        let base = (256 * j / k) as i64;
        cuts.push((base + rng.range(-20, 20)) as u32);
    }
    cuts.push(256);
    (0..k).map(|j| Space { len: lens[j], f_lo: cuts[j] as u8, f_hi: (cuts[j + 1] - 1) as u8 }).collect()
}

/// a block of codes that share all bytes but the last: (len, prefix value, last-byte range)
#[derive(Clone, Debug)]
struct Block {
    len: usize,
    prefix: u32,
    b_lo: u32,
    b_hi: u32,
}

fn edge_byte(rng: &mut Rng, lo: u8, hi: u8) -> u8 {
    match rng.below(4) {
        0 => lo,
        1 => hi,
        _ => lo + rng.below((hi - lo) as usize + 1) as u8,
    }
}

fn gen_block(rng: &mut Rng, sp: &Space) -> Block {
    if sp.len == 1 {
        return Block { len: 1, prefix: 0, b_lo: sp.f_lo as u32, b_hi: sp.f_hi as u32 };
    }
    let mut p = edge_byte(rng, sp.f_lo, sp.f_hi) as u32;
    for _ in 1..sp.len - 1 {
        p = p * 256 + edge_byte(rng, 0, 255) as u32;
    }
    Block { len: sp.len, prefix: p, b_lo: 0, b_hi: 255 }
}

fn code_of(b: &Block, last: u32) -> u32 {
    if b.len == 1 {
        last
    } else {
        b.prefix * 256 + last
    }
}

fn gen_ext(rng: &mut Rng) -> u32 {
    match rng.below(20) {
        0..=5 => 0,
        6..=13 => 1 + rng.below(6) as u32,
        14..=17 => 4 + rng.below(28) as u32,
        18 => 30 + rng.below(90) as u32,
        _ => 255,
    }
}

fn fits(t: &Tgt, ext: u32) -> bool {
    match t {
        Tgt::Str(u) => wf_str(u, ext),
        Tgt::Arr(a) => a.len() as u32 == ext + 1,
    }
}

fn gen_table(rng: &mut Rng, big: bool) -> (Vec<Space>, Vec<Def>) {
    let layout = gen_layout(rng);
    let mut blocks: Vec<Block> = vec![];
    for sp in &layout {
        blocks.push(gen_block(rng, sp));
        if sp.len > 1 && rng.chance(1, 3) {
            blocks.push(gen_block(rng, sp));
        }
    }
    let mut defs: Vec<Def> = vec![];
    let mut blk_of: Vec<usize> = vec![];
    if big {
        // a long run of bfchar entries on consecutive codes (sections of exactly 100 entries occur)
        let bi = (0..blocks.len()).find(|&i| blocks[i].b_hi - blocks[i].b_lo >= 200).unwrap_or(0);
        let b = blocks[bi].clone();
        let n = (100 + rng.below(150)) as u32;
        let n = n.min(b.b_hi - b.b_lo + 1);
        let start = b.b_lo + rng.below((b.b_hi - b.b_lo + 1 - n) as usize + 1) as u32;
        for k in 0..n {
            let c = code_of(&b, start + k);
            defs.push(Def { char_kind: true, len: b.len, lo: c, hi: c, t: Tgt::Str(gen_str(rng, 0)) });
            blk_of.push(bi);
        }
    }
    let cap = if rng.chance(1, 4) { 40 } else { 14 };
    let n = if big { 3 + rng.below(10) } else { 1 + rng.below(cap) };
    let windows: Vec<u32> = blocks
        .iter()
        .map(|b| match rng.below(4) {
            0 => b.b_lo,
            1 => b.b_hi.saturating_sub(24).max(b.b_lo),
            _ => b.b_lo + rng.below((b.b_hi - b.b_lo + 1) as usize) as u32,
        })
        .collect();
    for _ in 0..n {
        let bi = rng.below(blocks.len());
        let b = blocks[bi].clone();
        let prev: Vec<usize> = (0..defs.len()).filter(|&i| blk_of[i] == bi).collect();
        let clampb = |x: i64| -> u32 { x.max(b.b_lo as i64).min(b.b_hi as i64) as u32 };
        let mut reuse: Option<Tgt> = None;
        let (lo, hi);
        if !prev.is_empty() && rng.chance(3, 5) {
            let p = defs[*rng.pick(&prev)].clone();
            let (l0, h0) = ((p.lo & 0xFF) as i64, (p.hi & 0xFF) as i64);
            let (l0, h0) = if b.len == 1 { (p.lo as i64, p.hi as i64) } else { (l0, h0) };
            let e = gen_ext(rng).min(40) as i64;
            let rel = rng.below(8);
            let (a, z) = match rel {
                0 => (h0 + 1, h0 + 1 + e),
                1 => (l0 - 1 - e, l0 - 1),
                2 => (l0, l0 + rng.range(0, (h0 - l0 - 1).max(0))),
                3 => {
                    let a = l0 + 1 + rng.range(0, (h0 - l0 - 2).max(0));
                    (a, a + rng.range(0, (h0 - 1 - a).max(0)))
                }
                4 => (h0 - rng.range(0, (h0 - l0 - 1).max(0)), h0),
                5 => (l0, h0),
                6 => (l0 - rng.range(0, 3), h0 + rng.range(0, 3)),
                _ => (l0 - 1 - rng.range(0, 3), l0 + rng.range(0, (h0 - l0 - 1).max(0))),
            };
            let (a, z) = (clampb(a), clampb(z));
            lo = a.min(z);
            hi = a.max(z);
            if rng.chance(3, 5) {
                reuse = Some(p.t.clone());
            } else if rng.chance(1, 2) {
                // continuation of the previous string target (what a producer that splits ranges writes)
                if let Tgt::Str(u) = &p.t {
                    let mut v = u.clone();
                    let last = *v.last().unwrap() as u32 + (p.hi - p.lo + 1);
                    if last <= 0xFFFF {
                        *v.last_mut().unwrap() = last as u16;
                        reuse = Some(Tgt::Str(v));
                    }
                }
            }
        } else {
            let w = windows[bi];
            let a = clampb(w as i64 + rng.range(0, 24));
            let z = clampb(a as i64 + gen_ext(rng) as i64);
            lo = a;
            hi = z;
        }
        let ext = hi - lo;
        let t = match reuse {
            Some(t) if fits(&t, ext) => t,
            _ => {
                if ext <= 24 && rng.chance(1, 3) {
                    Tgt::Arr(gen_arr(rng, ext as usize + 1))
                } else {
                    Tgt::Str(gen_str(rng, ext))
                }
            }
        };
        let char_kind = ext == 0 && matches!(t, Tgt::Str(_)) && rng.chance(2, 3);
        defs.push(Def { char_kind, len: b.len, lo: code_of(&b, lo), hi: code_of(&b, hi), t });
        blk_of.push(bi);
    }
    if !big && rng.chance(1, 4) {
        rng.shuffle(&mut defs);
    }
    (layout, defs)
}

// ------------------------------------------------------------------ rendering
//
// Mirrors CMap!ProgramToks: the program is a token sequence with a classified gap after every token.
// A style (CMap!sty = [k, a, b, s]) departs from what lopdf's grammar takes everywhere in ONE respect;
// everything else is the "tolerated" random variation (hex case, blanks inside entries, line ends and
// comments after them).

#[derive(Clone, Debug)]
struct Sty {
    k: String,
    a: String,
    b: String,
    s: Vec<String>,
}

fn canon() -> Sty {
    Sty { k: "canon".into(), a: String::new(), b: String::new(), s: vec![] }
}

fn sty_json(s: &Sty) -> Value {
    json!({"k": s.k, "a": s.a, "b": s.b, "s": s.s})
}

fn atom_bytes(a: &str) -> &'static [u8] {
    match a {
        "sp" => b" ",
        "tab" => b"\t",
        "lf" => b"\n",
        "cr" => b"\r",
        "crlf" => b"\r\n",
        "ff" => b"\x0c",
        "nul" => b"\0",
        "cmt" => b"%c\n",
        _ => panic!("unknown separator atom {a}"),
    }
}

struct Style {
    hexcase: usize, // 0 upper, 1 lower, 2 mixed
    wild: bool,     // generous (tolerated) white-space
    sty: Sty,
}

/// what lopdf's grammar has at a gap as the code is, i.e. which random separators are "tolerated" there
#[derive(Clone, Copy)]
enum Dflt {
    Sp0,
    Sp1,
    Eol,
}

fn code_bytes(len: usize, code: u32) -> Vec<u8> {
    (0..len).map(|i| (code >> (8 * (len - 1 - i))) as u8).collect()
}

fn is_delim(b: u8) -> bool {
    b"()<>[]{}/%".contains(&b)
}

struct Em<'a> {
    out: Vec<u8>,
    rng: &'a mut Rng,
    st: &'a Style,
    pending: Option<(bool, &'static str, Dflt)>,
}

impl Em<'_> {
    fn hex_sep(&mut self, w: &str, p: &str) {
        let sty = &self.st.sty;
        if sty.k == "hex" && sty.a == w && sty.b == p {
            for a in &sty.s {
                self.out.extend_from_slice(atom_bytes(a));
            }
        }
    }
    fn hex_byte(&mut self, b: u8, w: &str) {
        for (i, d) in [b >> 4, b & 15].into_iter().enumerate() {
            if i == 1 {
                self.hex_sep(w, "nib");
            }
            let up = match self.st.hexcase {
                0 => true,
                1 => false,
                _ => self.rng.chance(1, 2),
            };
            let c = if d < 10 { b'0' + d } else if up { b'A' + d - 10 } else { b'a' + d - 10 };
            self.out.push(c);
        }
    }
    fn flush_gap(&mut self, next_first: Option<u8>) {
        if let Some((prev_delim, class, dflt)) = self.pending.take() {
            let sd = prev_delim || next_first.map(is_delim).unwrap_or(true);
            let sty = &self.st.sty;
            if sty.k == "gap" && sty.a == class && (!sty.s.is_empty() || sd) {
                for a in &sty.s {
                    self.out.extend_from_slice(atom_bytes(a));
                }
                return;
            }
            let wild = self.st.wild;
            let pick: &[u8] = match dflt {
                Dflt::Sp0 if wild => *self.rng.pick(&[&b""[..], b" ", b" ", b"  ", b"\t", b" \t"]),
                Dflt::Sp1 if wild => *self.rng.pick(&[&b" "[..], b" ", b"  ", b"\t", b" \t "]),
                Dflt::Eol if wild => *self.rng.pick(&[
                    &b"\n"[..],
                    b"\n",
                    b"\r\n",
                    b"\r",
                    b" \n",
                    b"\n\n",
                    b"\t\r\n",
                    b" ",
                    b"\n% a comment <41> <0041>\n",
                    b" %c\r\n  ",
                    b"\n \t",
                ]),
                Dflt::Eol => b"\n",
                _ => b" ",
            };
            self.out.extend_from_slice(pick);
        }
    }
    /// a token followed by a gap of the given class
    fn tok(&mut self, text: &[u8], class: &'static str, dflt: Dflt) {
        self.flush_gap(text.first().copied());
        self.out.extend_from_slice(text);
        self.pending = Some((text.last().map(|b| is_delim(*b)).unwrap_or(false), class, dflt));
    }
    fn code(&mut self, len: usize, code: u32, class: &'static str, dflt: Dflt) {
        self.flush_gap(Some(b'<'));
        self.out.push(b'<');
        self.hex_sep("src", "lead");
        for (i, b) in code_bytes(len, code).into_iter().enumerate() {
            if i > 0 {
                self.hex_sep("src", "byte");
            }
            self.hex_byte(b, "src");
        }
        self.hex_sep("src", "trail");
        self.out.push(b'>');
        self.pending = Some((true, class, dflt));
    }
    fn units(&mut self, us: &[u16], class: &'static str, dflt: Dflt) {
        self.flush_gap(Some(b'<'));
        self.out.push(b'<');
        self.hex_sep("tgt", "lead");
        for (i, u) in us.iter().enumerate() {
            if i > 0 {
                let styled = self.st.sty.k == "hex" && self.st.sty.a == "tgt" && self.st.sty.b == "unit";
                if styled {
                    self.hex_sep("tgt", "unit");
                } else if self.st.wild && self.rng.chance(1, 3) {
                    // tolerated: white space after a complete unit
                    let ws: &[u8] = *self.rng.pick(&[&b" "[..], b"  ", b"\t", b"\n"]);
                    self.out.extend_from_slice(ws);
                }
            }
            self.hex_byte((u >> 8) as u8, "tgt");
            self.hex_sep("tgt", "byte");
            self.hex_byte((u & 255) as u8, "tgt");
        }
        let styled_trail = self.st.sty.k == "hex" && self.st.sty.a == "tgt" && self.st.sty.b == "trail";
        if styled_trail {
            self.hex_sep("tgt", "trail");
        } else if self.st.wild && self.rng.chance(1, 8) {
            self.out.push(b' ');
        }
        self.out.push(b'>');
        self.pending = Some((true, class, dflt));
    }
    fn entry(&mut self, d: &Def) {
        self.code(d.len, d.lo, "opnd", Dflt::Sp0);
        if !d.char_kind {
            self.code(d.len, d.hi, "opnd", Dflt::Sp0);
        }
        match &d.t {
            Tgt::Str(u) => self.units(u, "ent", Dflt::Eol),
            Tgt::Arr(a) => {
                self.tok(b"[", "arr", Dflt::Sp0);
                for e in a {
                    self.units(e, "arr", Dflt::Sp1);
                }
                // the gap before "]" may be empty as the code is
                if let Some(p) = self.pending.as_mut() {
                    p.2 = Dflt::Sp0;
                }
                self.tok(b"]", "ent", Dflt::Eol);
            }
        }
    }
    fn section(&mut self, kind_char: bool, defs: &[Def]) {
        let word: &[u8] = if kind_char { b"bfchar" } else { b"bfrange" };
        self.tok(format!("{}", defs.len()).as_bytes(), "cnt", Dflt::Sp1);
        self.tok(&[b"begin", word].concat(), "op", Dflt::Eol);
        for d in defs {
            self.entry(d);
        }
        self.tok(&[b"end", word].concat(), "end", Dflt::Eol);
    }
}

fn render(rng: &mut Rng, layout: &[Space], defs: &[Def], sty: &Sty) -> Vec<u8> {
    let st = Style { hexcase: rng.below(3), wild: rng.chance(2, 3), sty: sty.clone() };
    let head = if sty.k == "head" { sty.a.as_str() } else { "" };
    let lead: &[u8] = match rng.below(4) {
        0 => b"%!PS-Adobe-3.0 Resource-CMap\n%%DocumentNeededResources: ProcSet (CIDInit)\n",
        1 => b"\n \t",
        _ => b"",
    };
    let split_cs = layout.len() > 1 && rng.chance(1, 3);
    let procset: &[u8] = if rng.chance(1, 4) { b"/Procset" } else { b"/ProcSet" };
    let dictn: &[u8] = if rng.chance(1, 3) { b"10" } else { b"12" };
    let sysinfo_dup = head == "dictdup" || (head.is_empty() && rng.chance(1, 3));
    let sysinfo_lines = rng.chance(1, 2);
    let cmapname: &[u8] = if rng.chance(1, 2) { b"/Adobe-Identity-UCS" } else { b"/F1+0" };
    // CMap dictionary entries: every order, 1 to 3 of the known ones (tolerated), or the head style's form
    let mut meta: Vec<&str> = vec!["sys", "name", "type"];
    match head {
        "order" => meta = vec!["type", "sys", "name"],
        "dictdup" => {}
        "wmode" => meta.push("wmode"),
        "version" => meta.insert(2, "version"),
        "xuid" => meta.push("xuid"),
        "uidoffset" => meta.insert(0, "uidoffset"),
        _ => {
            rng.shuffle(&mut meta);
            if rng.chance(1, 5) {
                let keep = 1 + rng.below(3);
                meta.truncate(keep);
            }
        }
    }
    // sections: consecutive entries of one kind, cut at random points, never more than 100 entries
    let mut cuts: Vec<(usize, usize)> = vec![];
    let mut i = 0;
    while i < defs.len() {
        let kind = defs[i].char_kind;
        let mut j = i;
        while j < defs.len() && defs[j].char_kind == kind && j - i < 100 {
            j += 1;
        }
        if j - i > 1 && rng.chance(1, 3) {
            j = i + 1 + rng.below(j - i);
        }
        cuts.push((i, j));
        i = j;
    }
    let mut em = Em { out: lead.to_vec(), rng, st: &st, pending: None };
    em.tok(b"/CIDInit", "prolog", Dflt::Sp0);
    em.tok(procset, "prolog", Dflt::Sp1);
    em.tok(b"findresource", "prolog", Dflt::Sp1);
    em.tok(b"begin", "prolog", Dflt::Eol);
    em.tok(dictn, "prolog", Dflt::Sp1);
    em.tok(b"dict", "prolog", Dflt::Sp1);
    em.tok(b"begin", "prolog", Dflt::Eol);
    em.tok(b"begincmap", "prolog", Dflt::Eol);
    for m in meta {
        match m {
            "sys" => {
                em.tok(b"/CIDSystemInfo", "meta", Dflt::Eol);
                if sysinfo_dup {
                    em.tok(b"3 dict dup begin\n  /Registry (Adobe) def\n  /Ordering (UCS) def\n  /Supplement 0 def\nend", "meta", Dflt::Eol);
                } else if sysinfo_lines {
                    em.tok(b"<< /Registry (Adobe)\n/Ordering (UCS)\n/Supplement 0\n>>", "meta", Dflt::Eol);
                } else {
                    em.tok(b"<< /Registry (Adobe) /Ordering (UCS) /Supplement 0 >>", "meta", Dflt::Eol);
                }
                em.tok(b"def", "meta", Dflt::Eol);
            }
            "name" => {
                em.tok(b"/CMapName", "meta", Dflt::Sp0);
                em.tok(cmapname, "meta", Dflt::Sp1);
                em.tok(b"def", "meta", Dflt::Eol);
            }
            "type" => {
                em.tok(b"/CMapType", "meta", Dflt::Sp1);
                em.tok(b"2", "meta", Dflt::Sp1);
                em.tok(b"def", "meta", Dflt::Eol);
            }
            other => {
                let (k, v): (&[u8], &[u8]) = match other {
                    "wmode" => (b"/WMode", b"0"),
                    "version" => (b"/CMapVersion", b"1.000"),
                    "xuid" => (b"/XUID", b"[1 10 25404 9999]"),
                    _ => (b"/UIDOffset", b"0"),
                };
                em.tok(k, "meta", Dflt::Sp1);
                em.tok(v, "meta", Dflt::Sp1);
                em.tok(b"def", "meta", Dflt::Eol);
            }
        }
    }
    // code space ranges (one section, or one section per length)
    let groups: Vec<Vec<&Space>> = if split_cs { layout.iter().map(|s| vec![s]).collect() } else { vec![layout.iter().collect()] };
    for g in groups {
        em.tok(format!("{}", g.len()).as_bytes(), "cs.cnt", Dflt::Sp1);
        em.tok(b"begincodespacerange", "cs.op", Dflt::Eol);
        for sp in g {
            let lo = (sp.f_lo as u32) << (8 * (sp.len - 1));
            let hi = if sp.len == 1 { sp.f_hi as u32 } else { (((sp.f_hi as u64 + 1) << (8 * (sp.len - 1))) - 1) as u32 };
            em.code(sp.len, lo, "cs.pair", Dflt::Sp0);
            em.code(sp.len, hi, "cs.ent", Dflt::Eol);
        }
        em.tok(b"endcodespacerange", "cs.end", Dflt::Eol);
    }
    let empty = if sty.k == "empty" { sty.a.as_str() } else { "" };
    match empty {
        "char.first" => em.section(true, &[]),
        "range.first" => em.section(false, &[]),
        _ => {}
    }
    for (i, j) in cuts {
        em.section(defs[i].char_kind, &defs[i..j]);
    }
    match empty {
        "char.last" => em.section(true, &[]),
        "range.last" => em.section(false, &[]),
        _ => {}
    }
    em.tok(b"endcmap", "trailer", Dflt::Eol);
    em.tok(b"CMapName", "trailer", Dflt::Sp1);
    em.tok(b"currentdict", "trailer", Dflt::Sp1);
    em.tok(b"/CMap", "trailer", Dflt::Sp1);
    em.tok(b"defineresource", "trailer", Dflt::Sp1);
    em.tok(b"pop", "trailer", Dflt::Eol);
    em.tok(b"end", "trailer", Dflt::Eol);
    em.tok(b"end", "eof", Dflt::Eol);
    // the last gap (before the end of the stream) may be empty
    if em.st.sty.k == "gap" && em.st.sty.a == "eof" {
        em.flush_gap(None);
    } else {
        let tail: &[u8] = *em.rng.pick(&[&b"\n"[..], b"", b" \r\n\n"]);
        em.pending = None;
        em.out.extend_from_slice(tail);
    }
    em.out
}

const GAP_CLASSES: [&str; 15] = ["prolog", "meta", "cs.cnt", "cs.op", "cs.pair", "cs.ent", "cs.end", "cnt", "op", "opnd", "ent", "arr", "end", "trailer", "eof"];
const WS_ATOMS: [&str; 7] = ["sp", "tab", "lf", "cr", "crlf", "ff", "nul"];

/// one random style of the universe of CMap!AllStyles (plus longer random separators) and the font form that goes with it
fn draw_style(rng: &mut Rng, one_byte_only: bool) -> (Sty, &'static str) {
    let tolerated_forms = ["absent", "Identity-H", "Identity-V", "dict.diff", "dict.base.diff", "dictref", "cmapstream"];
    let mut form: &'static str = *rng.pick(&tolerated_forms);
    let mk = |k: &str, a: &str, b: &str, s: Vec<String>| Sty { k: k.into(), a: a.into(), b: b.into(), s };
    let sty = match rng.below(12) {
        0..=4 => canon(),
        5..=7 => {
            let n = [0usize, 1, 1, 1, 2, 3][rng.below(6)];
            let s: Vec<String> = (0..n).map(|_| if rng.chance(1, 6) { "cmt".to_string() } else { rng.pick(&WS_ATOMS).to_string() }).collect();
            mk("gap", *rng.pick(&GAP_CLASSES), "", s)
        }
        8 => {
            let w = if rng.chance(1, 2) { "src" } else { "tgt" };
            let p = if w == "src" { *rng.pick(&["lead", "nib", "byte", "trail"]) } else { *rng.pick(&["lead", "nib", "byte", "unit", "trail"]) };
            let n = 1 + rng.below(2);
            mk("hex", w, p, (0..n).map(|_| rng.pick(&WS_ATOMS).to_string()).collect())
        }
        9 => mk("empty", *rng.pick(&["char.first", "range.first", "char.last", "range.last"]), "", vec![]),
        10 => mk("head", *rng.pick(&["dictdup", "order", "wmode", "version", "xuid", "uidoffset"]), "", vec![]),
        _ => {
            loop {
                form = *rng.pick(&FONT_FORMS);
                let base = matches!(form, "StandardEncoding" | "MacRomanEncoding" | "WinAnsiEncoding" | "MacExpertEncoding");
                if !base || one_byte_only {
                    break;
                }
            }
            mk("font", form, "", vec![])
        }
    };
    (sty, form)
}

fn def_json(d: &Def) -> Value {
    let (k, u, a): (&str, Vec<u16>, Vec<Vec<u16>>) = match &d.t {
        Tgt::Str(u) => ("str", u.clone(), vec![]),
        Tgt::Arr(a) => ("array", vec![], a.clone()),
    };
    json!({"kind": if d.char_kind { "char" } else { "range" }, "len": d.len,
           "lo": code_bytes(d.len, d.lo), "hi": code_bytes(d.len, d.hi), "k": k, "u": u, "a": a})
}

/// hand-written corner tables (appended to every recording): the boundaries of the 4-byte code
/// space, targets ending at 0xFFFF, strings that start like a byte order mark, sections of exactly
/// 100 and of 1 entries, and the smallest overlap / adjacency patterns.
fn corner_tables() -> Vec<(Vec<Space>, Vec<Def>)> {
    let s = |u: &[u16]| Tgt::Str(u.to_vec());
    let ch = |len: usize, c: u32, u: &[u16]| Def { char_kind: true, len, lo: c, hi: c, t: Tgt::Str(u.to_vec()) };
    let rg = |len: usize, lo: u32, hi: u32, t: Tgt| Def { char_kind: false, len, lo, hi, t };
    let one = |len: usize| vec![Space { len, f_lo: 0, f_hi: 255 }];
    let mut v = vec![];
    // multi-unit range whose head is overwritten later / touching equal multi-unit ranges
    v.push((one(1), vec![rg(1, 0x10, 0x1F, s(&[0x41, 0x30])), ch(1, 0x10, &[0x58])]));
    v.push((one(1), vec![rg(1, 0x10, 0x1F, s(&[0x41, 0x30])), rg(1, 0x20, 0x2F, s(&[0x41, 0x30]))]));
    v.push((one(1), vec![ch(1, 0x10, &[0x66, 0x69]), ch(1, 0x11, &[0x66, 0x69]), ch(1, 0x12, &[0x66, 0x6C])]));
    // arrays: head overwritten / touching equal arrays
    let abc = Tgt::Arr(vec![vec![0x61], vec![0x62], vec![0x63, 0x64]]);
    v.push((one(2), vec![rg(2, 0x0100, 0x0102, abc.clone()), ch(2, 0x0100, &[0x5A])]));
    v.push((one(2), vec![rg(2, 0x0100, 0x0102, abc.clone()), rg(2, 0x0103, 0x0105, abc.clone())]));
    // arrays of single units: consecutive, consecutive end points only (interior permuted / arbitrary),
    // descending, constant - an array target is indexed, it is not an incrementing range in disguise
    let units = |xs: &[u16]| Tgt::Arr(xs.iter().map(|x| vec![*x]).collect());
    v.push((one(2), vec![rg(2, 0x0010, 0x0013, units(&[0x48, 0x49, 0x4A, 0x4B]))]));
    v.push((one(2), vec![rg(2, 0x0010, 0x0013, units(&[0x48, 0x65, 0x79, 0x4B]))]));
    v.push((one(2), vec![rg(2, 0x0020, 0x0024, units(&[0x61, 0x63, 0x62, 0x64, 0x65])), rg(2, 0x0030, 0x0032, units(&[0x43, 0x42, 0x41]))]));
    v.push((one(1), vec![rg(1, 0x40, 0x42, units(&[0x58, 0x58, 0x58])), rg(1, 0x50, 0x52, units(&[0x3041, 0x3042, 0x3041]))]));
    // adjacent ranges whose multi-unit targets differ in a LEADING unit while their last units run on
    // arithmetically (fi fj fk | sl sm sn; surrogate pairs with different high surrogates): two definitions, not one
    v.push((one(1), vec![rg(1, 0x10, 0x12, s(&[0x66, 0x69])), rg(1, 0x13, 0x15, s(&[0x73, 0x6C]))]));
    v.push((one(2), vec![rg(2, 0x0100, 0x0101, s(&[0xD83D, 0xDE00])), rg(2, 0x0102, 0x0103, s(&[0xD83E, 0xDE02]))]));
    v.push((one(1), vec![rg(1, 0x20, 0x21, s(&[0x41, 0x42, 0x30])), rg(1, 0x22, 0x23, s(&[0x41, 0x43, 0x32])), rg(1, 0x24, 0x25, s(&[0x41, 0x43, 0x34]))]));
    // one-unit targets: overlaps in every position, legitimately coalescing neighbours
    v.push((one(1), vec![rg(1, 0x20, 0x7E, s(&[0x20])), rg(1, 0x30, 0x39, s(&[0x660])), ch(1, 0x20, &[0xA0]),
                         rg(1, 0x7F, 0x8F, s(&[0x7F])), rg(1, 0x7E, 0x7E, s(&[0x203E]))]));
    // 4-byte code space boundaries
    v.push((one(4), vec![rg(4, 0, 3, s(&[0x41])), rg(4, 0xFFFF_FFFC, 0xFFFF_FFFF, s(&[0xFFFC])),
                         ch(4, 0xFFFF_FFFF, &[0xD83D, 0xDE00]), rg(4, 0x7FFF_FFFE, 0x7FFF_FFFF, s(&[0x4E00])),
                         rg(4, 0x8000_0000, 0x8000_0001, s(&[0x4E02]))]));
    // 1 + 2 + 3 byte codes in one table (prefix-free by first byte)
    v.push((vec![Space { len: 1, f_lo: 0, f_hi: 0x7F }, Space { len: 2, f_lo: 0x80, f_hi: 0xDF }, Space { len: 3, f_lo: 0xE0, f_hi: 0xFF }],
            vec![rg(1, 0x00, 0x7F, s(&[0x00])), rg(2, 0x8000, 0x80FF, s(&[0x4E00])), rg(3, 0xE00000, 0xE000FF, s(&[0xD840, 0xDC00])),
                 ch(2, 0xDFFF, &[0x3042]), ch(3, 0xFFFFFF, &[0x3044]), ch(1, 0x00, &[0x2400])]));
    // last unit reaches 0xFFFF exactly; touching equal multi-unit target next to it (u16 overflow in the code as it is)
    v.push((one(1), vec![rg(1, 0x20, 0x2F, s(&[0x41, 0xFFF0])), rg(1, 0x40, 0x4F, s(&[0xFFF0]))]));
    v.push((one(1), vec![rg(1, 0x20, 0x2F, s(&[0x41, 0xFFF0])), rg(1, 0x30, 0x3F, s(&[0x41, 0xFFF0]))]));
    // strings that start like a byte order mark
    v.push((one(1), vec![ch(1, 0x41, &[0xFEFF]), ch(1, 0x42, &[0x42])]));
    v.push((one(1), vec![ch(1, 0x42, &[0x42]), ch(1, 0x41, &[0xFEFF])]));
    v.push((one(1), vec![ch(1, 0x41, &[0xEFBB]), ch(1, 0x42, &[0xBF41]), ch(1, 0x43, &[0x43])]));
    // sections of exactly 100 + 1 entries, then ranges
    let mut d: Vec<Def> = (0..101u32).map(|i| ch(2, 0x2000 + i, &[(0x3041 + 2 * i) as u16])).collect();
    d.push(rg(2, 0x2010, 0x2012, s(&[0x66, 0x66, 0x69])));
    v.push((one(2), d));
    v
}

fn record(args: &[String]) {
    let seed = arg_u64(args, "--seed", 1);
    let n = arg_u64(args, "--n", 200);
    let mut out = NdjsonOut::create(&arg(args, "--out").unwrap());
    let mut rng = Rng::new(seed ^ 0xC15);
    let corners = if arg_u64(args, "--corners", 1) > 0 { corner_tables() } else { vec![] };
    let nc = corners.len() as u64;
    // every style class once more on corner tables, whatever the seed draws (table index, style, font form)
    let mk = |k: &str, a: &str, b: &str, s: &[&str]| Sty { k: k.into(), a: a.into(), b: b.into(), s: s.iter().map(|x| x.to_string()).collect() };
    let probes: Vec<(usize, Sty, &'static str)> = if nc == 0 {
        vec![]
    } else {
        vec![
            (2, mk("font", "WinAnsiEncoding", "", &[]), "WinAnsiEncoding"),
            (0, mk("font", "MacExpertEncoding", "", &[]), "MacExpertEncoding"),
            (3, mk("font", "UniJIS-UTF16-H", "", &[]), "UniJIS-UTF16-H"),
            (3, mk("font", "UniGB-UCS2-H", "", &[]), "UniGB-UCS2-H"),
            (4, mk("font", "dict.base.diff", "", &[]), "dict.base.diff"),
            (4, mk("font", "Identity-V", "", &[]), "Identity-V"),
            (3, mk("gap", "opnd", "", &["lf"]), "Identity-H"),
            (2, mk("gap", "ent", "", &[]), "absent"),
            (3, mk("gap", "cnt", "", &["crlf"]), "Identity-H"),
            (3, mk("gap", "op", "", &[]), "Identity-H"),
            (3, mk("gap", "arr", "", &["tab"]), "Identity-H"),
            (3, mk("gap", "meta", "", &[]), "Identity-H"),
            (2, mk("gap", "prolog", "", &["cmt"]), "Identity-H"),
            (3, mk("gap", "cs.pair", "", &["lf"]), "Identity-H"),
            (3, mk("gap", "trailer", "", &["lf"]), "Identity-H"),
            (2, mk("gap", "opnd", "", &["ff"]), "Identity-H"),
            (3, mk("gap", "ent", "", &["nul", "lf"]), "Identity-H"),
            (3, mk("hex", "src", "byte", &["sp"]), "Identity-H"),
            (3, mk("hex", "tgt", "nib", &["lf"]), "Identity-H"),
            (2, mk("hex", "tgt", "lead", &["sp"]), "Identity-H"),
            (3, mk("empty", "range.last", "", &[]), "Identity-H"),
            (3, mk("empty", "char.first", "", &[]), "Identity-H"),
            (2, mk("head", "wmode", "", &[]), "Identity-H"),
            (2, mk("head", "version", "", &[]), "Identity-H"),
            (3, mk("head", "xuid", "", &[]), "Identity-H"),
            (3, mk("head", "uidoffset", "", &[]), "Identity-H"),
            (3, mk("head", "dictdup", "", &[]), "Identity-H"),
            (3, mk("head", "order", "", &[]), "Identity-H"),
        ]
    };
    let total = n + nc + probes.len() as u64;
    for r in 0..total {
        let big = r < n && r % 16 == 15;
        let (layout, defs) = if r < n {
            gen_table(&mut rng, big)
        } else if r < n + nc {
            corners[(r - n) as usize].clone()
        } else {
            corners[probes[(r - n - nc) as usize].0].clone()
        };
        // one record in two departs from the tolerated spelling / font dictionary in one respect (CMap!sty)
        let one_byte_only = defs.iter().all(|d| d.len == 1);
        let (sty, form) = if r >= n + nc {
            let p = &probes[(r - n - nc) as usize];
            (p.1.clone(), p.2)
        } else if big {
            (canon(), "Identity-H")
        } else {
            draw_style(&mut rng, one_byte_only)
        };
        let text = render(&mut rng, &layout, &defs, &sty);
        // codes: ends and interior points of definitions (all of them are mapped codes)
        let mut codes: Vec<Vec<u8>> = vec![];
        let mut order: Vec<usize> = (0..defs.len()).collect();
        rng.shuffle(&mut order);
        for &i in order.iter().take(40) {
            let d = &defs[i];
            let mut cs = vec![d.lo, d.hi];
            if d.hi > d.lo {
                cs.push(d.lo + 1);
                cs.push(d.hi - 1);
                cs.push(d.lo + rng.below((d.hi - d.lo + 1) as usize) as u32);
            }
            for c in cs {
                if codes.len() < 90 && (rng.chance(2, 3) || d.lo == d.hi || r >= n) {
                    codes.push(code_bytes(d.len, c));
                }
            }
        }
        if codes.is_empty() {
            codes.push(code_bytes(defs[0].len, defs[0].lo));
        }
        if r < n {
            rng.shuffle(&mut codes);
        }
        let compress = rng.chance(1, 2);
        let res = run_case(&text, &codes, form, compress);
        out.put(&json!({
            "defs": defs.iter().map(def_json).collect::<Vec<_>>(),
            "codes": codes, "per": res["per"], "whole": res["whole"], "err": res["err"], "encv": res["encv"],
            "text": String::from_utf8_lossy(&text).replace('\0', "\u{2400}"), "big": big, "corner": r >= n,
            "sty": sty_json(&sty), "font": form,
        }));
    }
    out.finish();
}

fn main() {
    let args: Vec<String> = std::env::args().collect();
    match args.get(1).map(String::as_str) {
        Some("replay") => replay(&args),
        Some("record") => record(&args),
        _ => {
            eprintln!("usage: c15 replay --in F --out F | record --seed S --n N [--corners 0] --out F");
            std::process::exit(2)
        }
    }
}
