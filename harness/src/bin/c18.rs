//! C18 — dates convert to PDF date strings and back.
//!
//! A *case* is `{id, day, sod, off, fmt, lits}`: an instant (day 0 = 0001-01-01 proleptic Gregorian,
//! second of the UTC day), a UTC offset in minutes (east positive), whether the five `From<..> for
//! Object` conversions are to be driven, and extra literal date strings (byte arrays) to parse.
//! For every case the worker logs one record per lopdf call:
//!
//!   {"ev":"fmt",  "case","b": chrono_local|chrono_utc|jiff_zoned|jiff_timestamp|time_odt,
//!    "day","sod","off", "st": ok|na|env|panic, "s":[bytes]}
//!   {"ev":"parse","case","p": chrono|jiff|time, "srcs":[producers of this exact string | "lit"],
//!    "in":[bytes], "st": ok|fail|env|panic, "day","sod","off","hasoff", "cday","csod","coff", "tz",
//!    "hi_day","hi_sod": latest instant the parser's type can represent (jiff stops at 9999-12-30T22:00:00Z)}
//!
//! `st = na`  : the backend's own type cannot represent the instant/offset (not lopdf's business);
//! `st = env` : chrono's `Local` did not take the requested offset from `TZ`, or jiff has no time zone
//!              database to look "GMT"/"UTC" up in (environment, never judged).
//!
//! chrono's `DateTime<Local>` takes its offset from the process time zone, so the conversions of all
//! cases with the same offset are run in one child process started with `TZ=XXX<posix offset>` (POSIX
//! sign is inverted: `XXX-05:30` is UTC+05:30); jiff and time values are built with explicit fixed
//! offsets.  All parsing is done afterwards in a child whose zone (UTC+07:17, or UTC-03:11 for cases at
//! +07:17) differs from the offset of every string it parses, so a parser that took the process zone
//! instead of the string's offset cannot pass by coincidence.
//!
//! History and zones with rules (`zreplay`, `zrecord`): see the section "local zones with a rule" below - one
//! process per *sequence* of conversions under a POSIX daylight-saving TZ rule, so that state a conversion
//! leaves behind in the process (and an offset that changes between calls) is exercised.
//!
//! `replay --in cases --out recs`   cases come from TLC (MC_Dates), strings written by the spec are in `lits`.
//! `record --seed S --n N --out recs`  seeded random cases over the whole domain + the repository's literals.
use lopdf::Object;
use lopdf_conform::{guard::guarded, io::*, rng::Rng};
use serde_json::{json, Value};
use std::collections::BTreeMap;
use std::io::{BufRead, Write};
use std::process::{Command, Stdio};

const EPOCH_DAY: i64 = 719_162; // days from 0001-01-01 to 1970-01-01
const MAX_DAY: i64 = 3_652_058; // 9999-12-31

fn unix(day: i64, sod: i64) -> i64 {
    (day - EPOCH_DAY) * 86_400 + sod
}
fn split(secs: i64) -> (i64, i64) {
    (secs.div_euclid(86_400) + EPOCH_DAY, secs.rem_euclid(86_400))
}

enum Fail {
    Na(String),
    Env(String),
}

fn obj_bytes(o: Object) -> Vec<u8> {
    match o {
        Object::String(b, _) => b,
        other => format!("<not a string: {other:?}>").into_bytes(),
    }
}

/// Object::from(<backend value for (secs, off)>)
fn fmt_one(b: &str, secs: i64, off: i64) -> Result<Vec<u8>, Fail> {
    let offs = (off * 60) as i32;
    match b {
        "chrono_local" | "chrono_utc" => {
            use chrono::{DateTime, Local, TimeZone, Utc};
            let utc = DateTime::<Utc>::from_timestamp(secs, 0).ok_or_else(|| Fail::Na("chrono: instant out of range".into()))?;
            if b == "chrono_utc" {
                return Ok(obj_bytes(Object::from(utc)));
            }
            let lo = Local.offset_from_utc_datetime(&utc.naive_utc());
            if chrono::Offset::fix(&lo).local_minus_utc() != offs {
                return Err(Fail::Env(format!(
                    "Local offset is {}s, wanted {}s (TZ={:?})",
                    chrono::Offset::fix(&lo).local_minus_utc(),
                    offs,
                    std::env::var("TZ").ok()
                )));
            }
            let dt: DateTime<Local> = utc.with_timezone(&Local);
            Ok(obj_bytes(Object::from(dt)))
        }
        "jiff_zoned" | "jiff_timestamp" => {
            let ts = jiff::Timestamp::from_second(secs).map_err(|e| Fail::Na(format!("jiff: {e}")))?;
            if b == "jiff_timestamp" {
                return Ok(obj_bytes(Object::from(ts)));
            }
            let o = jiff::tz::Offset::from_seconds(offs).map_err(|e| Fail::Na(format!("jiff: {e}")))?;
            let z = ts.to_zoned(o.to_time_zone());
            Ok(obj_bytes(Object::from(z)))
        }
        "time_odt" => {
            let t = time::OffsetDateTime::from_unix_timestamp(secs).map_err(|e| Fail::Na(format!("time: {e}")))?;
            let o = time::UtcOffset::from_whole_seconds(offs).map_err(|e| Fail::Na(format!("time: {e}")))?;
            let t = t.checked_to_offset(o).ok_or_else(|| Fail::Na("time: local date-time out of range".into()))?;
            Ok(obj_bytes(Object::from(t)))
        }
        _ => unreachable!(),
    }
}

/// Object::as_datetime().try_into::<backend type>() -> (unix seconds, Some(offset minutes) if the type keeps one)
fn parse_one(p: &str, bytes: &[u8]) -> Result<(i64, Option<i64>), String> {
    let o = Object::string_literal(bytes.to_vec());
    let dt = o.as_datetime().ok_or_else(|| "as_datetime() = None".to_string())?;
    match p {
        "chrono" => {
            let r: Result<chrono::DateTime<chrono::Local>, _> = dt.try_into();
            r.map(|d| (d.timestamp(), None)).map_err(|e| e.to_string())
        }
        "jiff" => {
            let r: Result<jiff::Zoned, _> = dt.try_into();
            r.map(|z| (z.timestamp().as_second(), Some(i64::from(z.offset().seconds())))).map_err(|e| e.to_string()).and_then(
                |(s, o)| match o {
                    Some(o) if o % 60 != 0 => Err(format!("offset with seconds: {o}")),
                    Some(o) => Ok((s, Some(o / 60))),
                    None => Ok((s, None)),
                },
            )
        }
        "time" => {
            let r: Result<time::OffsetDateTime, _> = dt.try_into();
            r.map(|t| (t.unix_timestamp(), Some(i64::from(t.offset().whole_seconds())))).map_err(|e| e.to_string()).and_then(
                |(s, o)| match o {
                    Some(o) if o % 60 != 0 => Err(format!("offset with seconds: {o}")),
                    Some(o) => Ok((s, Some(o / 60))),
                    None => Ok((s, None)),
                },
            )
        }
        _ => unreachable!(),
    }
}

/// Latest instant representable by the parser's result type, as (day, sod), clipped to 9999-12-31T23:59:59Z.
fn type_max(p: &str) -> (i64, i64) {
    let secs = match p {
        "jiff" => jiff::Timestamp::MAX.as_second(),
        "chrono" => chrono::DateTime::<chrono::Utc>::MAX_UTC.timestamp(),
        _ => time::PrimitiveDateTime::MAX.assume_utc().unix_timestamp(),
    };
    split(secs.min(unix(MAX_DAY, 86_399)))
}

const FMT_BACKENDS: [&str; 5] = ["chrono_local", "chrono_utc", "jiff_zoned", "jiff_timestamp", "time_odt"];
const PARSERS: [&str; 3] = ["chrono", "jiff", "time"];

fn bytes_json(b: &[u8]) -> Value {
    Value::Array(b.iter().map(|x| json!(*x)).collect())
}

/// phase 1 (child with TZ = the case's offset): the five `Object::from` conversions of one case
fn fmt_case(c: &Value, out: &mut dyn FnMut(Value)) {
    let id = c["id"].as_i64().unwrap();
    let (day, sod, off) = (c["day"].as_i64().unwrap(), c["sod"].as_i64().unwrap(), c["off"].as_i64().unwrap());
    let secs = unix(day, sod);
    for b in FMT_BACKENDS {
        let mut rec = json!({"ev": "fmt", "case": id, "b": b, "day": day, "sod": sod, "off": off, "s": []});
        match guarded(|| fmt_one(b, secs, off)) {
            Ok(Ok(s)) => {
                rec["st"] = json!("ok");
                rec["s"] = bytes_json(&s);
            }
            Ok(Err(Fail::Na(m))) => {
                rec["st"] = json!("na");
                rec["msg"] = json!(m);
            }
            Ok(Err(Fail::Env(m))) => {
                rec["st"] = json!("env");
                rec["msg"] = json!(m);
            }
            Err(p) => {
                rec["st"] = json!("panic");
                rec["msg"] = json!(p);
            }
        }
        out(rec);
    }
}

/// phase 2 (child with a TZ that differs from every offset in the strings): every input string of one
/// case through the three parsers.  `c.inputs = [{"s": bytes, "srcs": [..]}]`
fn parse_case(c: &Value, out: &mut dyn FnMut(Value)) {
    let id = c["id"].as_i64().unwrap();
    let (day, sod, off) = (c["day"].as_i64().unwrap(), c["sod"].as_i64().unwrap(), c["off"].as_i64().unwrap());
    let tz = std::env::var("TZ").unwrap_or_default();
    let tzdb = std::env::var("C18_TZDB").unwrap_or_else(|_| "host".to_string());
    for inp in c["inputs"].as_array().unwrap() {
        let s: Vec<u8> = inp["s"].as_array().unwrap().iter().map(|x| x.as_u64().unwrap() as u8).collect();
        for p in PARSERS {
            let mut rec = json!({"ev": "parse", "case": id, "p": p, "srcs": inp["srcs"], "in": inp["s"], "tz": tz, "tzdb": tzdb,
                                 "cday": day, "csod": sod, "coff": off,
                                 "day": 0, "sod": 0, "off": 0, "hasoff": false});
            // latest instant the parser's own type can hold (asked from the backend at run time), clipped to the domain
            let (hd, hs) = type_max(p);
            rec["hi_day"] = json!(hd);
            rec["hi_sod"] = json!(hs);
            match guarded(|| parse_one(p, &s)) {
                Ok(Ok((secs2, o))) => {
                    let (d2, s2) = split(secs2);
                    if !(-400..=MAX_DAY + 400).contains(&d2) {
                        rec["st"] = json!("fail");
                        rec["msg"] = json!(format!("parsed instant far outside 0001-9999: unix {secs2}"));
                    } else {
                        rec["st"] = json!("ok");
                        rec["day"] = json!(d2);
                        rec["sod"] = json!(s2);
                        if let Some(o) = o {
                            rec["off"] = json!(o);
                            rec["hasoff"] = json!(true);
                        }
                    }
                }
                Ok(Err(m)) => {
                    // lopdf's jiff parser looks the zone "GMT" up by name.  What that does without a database is
                    // judged in the controlled environments (tzdb = empty / one); on the machine's own database
                    // a missing entry is not held against lopdf a second time (the run must not depend on the host)
                    let env = tzdb == "host" && p == "jiff" && jiff::tz::TimeZone::get("GMT").is_err();
                    rec["st"] = json!(if env { "env" } else { "fail" });
                    rec["msg"] = json!(m);
                }
                Err(pn) => {
                    rec["st"] = json!("panic");
                    rec["msg"] = json!(pn);
                }
            }
            out(rec);
        }
    }
}

/// child: cases on stdin (one JSON per line), records on stdout
fn worker(phase: &str) {
    let stdin = std::io::stdin();
    let stdout = std::io::stdout();
    let mut w = std::io::BufWriter::new(stdout.lock());
    for l in stdin.lock().lines() {
        let l = l.expect("stdin");
        if l.trim().is_empty() {
            continue;
        }
        let c: Value = serde_json::from_str(&l).expect("case json");
        let mut put = |rec: Value| {
            serde_json::to_writer(&mut w, &rec).unwrap();
            w.write_all(b"\n").unwrap();
        };
        match phase {
            "fmt" => fmt_case(&c, &mut put),
            "seq" => seq_case(&c, &mut put),
            _ => parse_case(&c, &mut put),
        }
    }
    w.flush().unwrap();
}

/// POSIX TZ value for a fixed offset of `off` minutes east of UTC (POSIX counts west-positive).
fn posix_tz(off: i64) -> String {
    let a = off.abs();
    format!("XXX{}{:02}:{:02}", if off > 0 { "-" } else { "+" }, a / 60, a % 60)
}

/// Run `inputs` (json lines) in one child `c18 worker <phase>` with TZ set; returns (stdout lines, exit ok, status text).
fn run_child(phase: &str, tz: &str, inputs: &[String]) -> (Vec<Value>, bool, String) {
    run_child_env(phase, Some(tz), "host", None, inputs)
}

/// `tzdb`: which time zone database the child sees: "host" (the machine's), or "empty" / "one" with TZDIR pointing
/// at an empty directory / a directory with one entry that is not a zone (jiff's documented variable).
fn run_child_env(phase: &str, tz: Option<&str>, tzdb: &str, tzdir: Option<&std::path::Path>, inputs: &[String]) -> (Vec<Value>, bool, String) {
    let exe = std::env::current_exe().expect("current_exe");
    let mut cmd = Command::new(&exe);
    cmd.arg("worker").arg(phase).env("C18_TZDB", tzdb);
    match tz {
        Some(tz) => cmd.env("TZ", tz),
        None => cmd.env_remove("TZ"),
    };
    match tzdir {
        Some(d) => cmd.env("TZDIR", d),
        None => cmd.env_remove("TZDIR"),
    };
    let mut child = cmd
        .stdin(Stdio::piped())
        .stdout(Stdio::piped())
        .stderr(Stdio::inherit())
        .spawn()
        .expect("spawn worker");
    let mut input = inputs.join("\n");
    input.push('\n');
    let mut si = child.stdin.take().unwrap();
    let feeder = std::thread::spawn(move || {
        let _ = si.write_all(input.as_bytes());
    });
    let o = child.wait_with_output().expect("wait worker");
    let _ = feeder.join();
    let recs = String::from_utf8_lossy(&o.stdout).lines().filter_map(|l| serde_json::from_str::<Value>(l).ok()).collect();
    (recs, o.status.success(), format!("{}", o.status))
}

/// The zone of the parsing child: a fixed offset that occurs in none of the strings it parses (a parser
/// that used the process zone instead of the string's offset would otherwise go unnoticed).
const PARSE_TZ: [i64; 2] = [437, -191];

/// Run all cases; records come back in case order (conversions first, then parses).
fn run_cases(cases: &[Value]) -> Vec<Value> {
    let mut per_case: BTreeMap<i64, Vec<Value>> = BTreeMap::new();
    let crash = |c: &Value, phase: &str, status: &str| {
        json!({"ev": "crash", "case": c["id"], "phase": phase, "off": c["off"], "day": c["day"], "sod": c["sod"], "status": status})
    };
    // ---- phase 1: conversions, one child per distinct offset (TZ = that offset), a few children at a time
    let mut groups: BTreeMap<i64, Vec<usize>> = BTreeMap::new();
    for (i, c) in cases.iter().enumerate() {
        if c["fmt"].as_bool().unwrap_or(true) {
            groups.entry(c["off"].as_i64().unwrap()).or_default().push(i);
        }
    }
    let groups: Vec<(i64, Vec<usize>)> = groups.into_iter().collect();
    for chunk in groups.chunks(8) {
        let handles: Vec<_> = chunk
            .iter()
            .map(|(off, idxs)| {
                let lines: Vec<String> = idxs.iter().map(|&i| serde_json::to_string(&cases[i]).unwrap()).collect();
                let tz = posix_tz(*off);
                std::thread::spawn(move || run_child("fmt", &tz, &lines))
            })
            .collect();
        for (h, (_, idxs)) in handles.into_iter().zip(chunk.iter()) {
            let (recs, ok, status) = h.join().expect("join");
            for v in recs {
                per_case.entry(v["case"].as_i64().unwrap()).or_default().push(v);
            }
            for &i in idxs {
                let id = cases[i]["id"].as_i64().unwrap();
                // a worker that died (abort, stack overflow) is data: mark the cases it did not answer
                if !ok && per_case.get(&id).map_or(0, |v| v.len()) < FMT_BACKENDS.len() {
                    per_case.entry(id).or_default().push(crash(&cases[i], "fmt", &status));
                }
            }
        }
    }
    // ---- phase 2: parses, in a child whose zone differs from the case's offset
    let mut batches: [Vec<(usize, String)>; 2] = [Vec::new(), Vec::new()];
    for (i, c) in cases.iter().enumerate() {
        let id = c["id"].as_i64().unwrap();
        let mut inputs: Vec<(Value, Vec<String>)> = Vec::new();
        let mut add = |s: &Value, src: &str| {
            if let Some(e) = inputs.iter_mut().find(|e| &e.0 == s) {
                if !e.1.iter().any(|x| x == src) {
                    e.1.push(src.to_string());
                }
            } else {
                inputs.push((s.clone(), vec![src.to_string()]));
            }
        };
        for r in per_case.get(&id).map(|v| v.as_slice()).unwrap_or(&[]) {
            if r["ev"] == "fmt" && r["st"] == "ok" {
                add(&r["s"], r["b"].as_str().unwrap());
            }
        }
        if let Some(lits) = c["lits"].as_array() {
            for l in lits {
                add(l, "lit");
            }
        }
        let inputs: Vec<Value> = inputs.into_iter().map(|(s, srcs)| json!({"s": s, "srcs": srcs})).collect();
        let pc = json!({"id": id, "day": c["day"], "sod": c["sod"], "off": c["off"], "inputs": inputs});
        let which = if c["off"].as_i64().unwrap() == PARSE_TZ[0] { 1 } else { 0 };
        batches[which].push((i, serde_json::to_string(&pc).unwrap()));
    }
    for (which, batch) in batches.iter().enumerate() {
        // several children so that a crash costs (and blames) few cases
        for part in batch.chunks(500) {
            let lines: Vec<String> = part.iter().map(|x| x.1.clone()).collect();
            let (recs, ok, status) = run_child("parse", &posix_tz(PARSE_TZ[which]), &lines);
            let mut answered: std::collections::BTreeSet<i64> = Default::default();
            for v in recs {
                let id = v["case"].as_i64().unwrap();
                answered.insert(id);
                per_case.entry(id).or_default().push(v);
            }
            for (i, _) in part {
                let id = cases[*i]["id"].as_i64().unwrap();
                if !ok && !answered.contains(&id) {
                    per_case.entry(id).or_default().push(crash(&cases[*i], "parse", &status));
                }
            }
        }
    }
    // ---- phase 3: the same parses for the cases marked `envs`, TZ unset, in children that see no usable time zone
    // database: TZDIR = an empty directory / a directory with one entry that is no zone
    let env_lines: Vec<(usize, String)> =
        batches.iter().flatten().filter(|(i, _)| cases[*i]["envs"].as_bool().unwrap_or(false)).cloned().collect();
    if !env_lines.is_empty() {
        let root = std::env::temp_dir().join(format!("c18-tzdb-{}", std::process::id()));
        let (empty, one) = (root.join("empty"), root.join("one"));
        std::fs::create_dir_all(&empty).expect("mkdir");
        std::fs::create_dir_all(&one).expect("mkdir");
        std::fs::write(one.join("Placeholder"), b"TZif2").expect("write");
        for (tzdb, dir) in [("empty", &empty), ("one", &one)] {
            for part in env_lines.chunks(500) {
                let lines: Vec<String> = part.iter().map(|x| x.1.clone()).collect();
                let (recs, ok, status) = run_child_env("parse", None, tzdb, Some(dir), &lines);
                let mut answered: std::collections::BTreeSet<i64> = Default::default();
                for v in recs {
                    let id = v["case"].as_i64().unwrap();
                    answered.insert(id);
                    per_case.entry(id).or_default().push(v);
                }
                for (i, _) in part {
                    let id = cases[*i]["id"].as_i64().unwrap();
                    if !ok && !answered.contains(&id) {
                        per_case.entry(id).or_default().push(crash(&cases[*i], tzdb, &status));
                    }
                }
            }
        }
        let _ = std::fs::remove_dir_all(&root);
    }
    let mut out = Vec::new();
    for c in cases {
        if let Some(v) = per_case.remove(&c["id"].as_i64().unwrap()) {
            out.extend(v);
        }
    }
    out
}

fn replay(args: &[String]) {
    let cases = read_ndjson(&arg(args, "--in").unwrap());
    let mut out = NdjsonOut::create(&arg(args, "--out").unwrap());
    for r in run_cases(&cases) {
        out.put(&r);
    }
    out.finish();
}

// ---------------------------------------------------------------- record: seeded drivers
fn is_leap(y: i64) -> bool {
    (y % 4 == 0 && y % 100 != 0) || y % 400 == 0
}
fn dim(y: i64, m: i64) -> i64 {
    match m {
        1 | 3 | 5 | 7 | 8 | 10 | 12 => 31,
        2 => {
            if is_leap(y) {
                29
            } else {
                28
            }
        }
        _ => 30,
    }
}
/// day number of y-m-d (the driver's own calendar: years, then months; the spec re-derives everything)
fn day_of(y: i64, m: i64, d: i64) -> i64 {
    let py = y - 1;
    let mut n = py * 365 + py / 4 - py / 100 + py / 400;
    for mm in 1..m {
        n += dim(y, mm);
    }
    n + d - 1
}
fn civil(day: i64) -> (i64, i64, i64) {
    // walk: fine for a driver (<= 10^4 steps)
    let mut y = (day / 366).max(0) + 1;
    while day_of(y + 1, 1, 1) <= day {
        y += 1;
    }
    let mut m = 1;
    while m < 12 && day_of(y, m + 1, 1) <= day {
        m += 1;
    }
    (y, m, day - day_of(y, m, 1) + 1)
}

fn lit_forms(day: i64, sod: i64, off: i64) -> Vec<Value> {
    // local civil time of the instant at the offset, written in the shorter forms of ISO 32000-1 7.9.4
    let t = sod + off * 60;
    let (lday, lsod) = (day + t.div_euclid(86_400), t.rem_euclid(86_400));
    let (uy, um, ud) = civil(day);
    let a = off.abs();
    let sign = if off < 0 { '-' } else { '+' };
    let minz = format!("D:{:04}{:02}{:02}{:02}{:02}Z", uy, um, ud, sod / 3600, sod / 60 % 60);
    let date = format!("D:{:04}{:02}{:02}", uy, um, ud);
    let mut v = vec![bytes_json(minz.as_bytes()), bytes_json(date.as_bytes())];
    if (0..=MAX_DAY).contains(&lday) {
        // (the driver's calendar walk covers years 0001-9999; wall clocks in year 0000 come from the spec's cases)
        let (y, m, d) = civil(lday);
        let min = format!("D:{:04}{:02}{:02}{:02}{:02}{}{:02}'{:02}'", y, m, d, lsod / 3600, lsod / 60 % 60, sign, a / 60, a % 60);
        v.insert(0, bytes_json(min.as_bytes()));
    }
    v
}

fn record(args: &[String]) {
    let seed = arg_u64(args, "--seed", 1);
    let n = arg_u64(args, "--n", 200) as usize;
    let mut rng = Rng::new(seed.wrapping_mul(0x1234_5677).wrapping_add(18));
    let mut cases = Vec::new();
    let anchors: [(i64, i64, i64); 12] = [
        (1, 1, 1), (999, 12, 31), (1000, 1, 1), (1900, 2, 28), (1900, 3, 1), (1970, 1, 1), (2000, 2, 29),
        (2024, 2, 29), (2038, 1, 19), (2100, 2, 28), (9999, 12, 30), (9999, 12, 31),
    ];
    for id in 0..n {
        // instant: uniform day, anchor day, or a day near a year boundary
        let day = match rng.below(6) {
            0 => {
                let a = rng.pick(&anchors);
                day_of(a.0, a.1, a.2)
            }
            1 => {
                let y = rng.range(1, 9999);
                (day_of(y, 1, 1) + rng.range(-1, 1)).clamp(0, MAX_DAY)
            }
            2 => rng.range(0, day_of(1000, 1, 1)), // years below 1000
            _ => rng.range(0, MAX_DAY),
        };
        let sod = match rng.below(5) {
            0 => 0,
            1 => 86_399,
            _ => rng.range(0, 86_399),
        };
        let mut off = match rng.below(8) {
            0 => 0,
            1 => -rng.range(1, 59),             // -00:mm
            2 => rng.range(1, 59),
            3 => *rng.pick(&[-1439, 1439, -840, 840, 330, -210, 345, -720]),
            _ => rng.range(-1439, 1439),
        };
        // the domain is the instant's (UTC) year 0001-9999 and any offset: near the ends the wall clock may be in
        // year 0000 (can be written) or 10000 (cannot); one time in four such a pair is mirrored back inside
        let t = sod + off * 60;
        let lday = day + t.div_euclid(86_400);
        if !(0..=MAX_DAY).contains(&lday) && rng.chance(1, 4) {
            off = -off;
        }
        cases.push(json!({"id": id, "day": day, "sod": sod, "off": off, "fmt": true, "envs": id % 3 == 0,
                          "lits": lit_forms(day, sod, off)}));
    }
    // the repository's own literal tests (src/datetime.rs): parsed by every backend, no conversion driven
    let lits: [&str; 2] = ["D:199812231952-08'00'", "D:20040229"];
    for (k, l) in lits.iter().enumerate() {
        cases.push(json!({"id": n + k, "day": 0, "sod": 0, "off": 0, "fmt": false, "envs": true, "lits": [bytes_json(l.as_bytes())]}));
    }
    let mut out = NdjsonOut::create(&arg(args, "--out").unwrap());
    for r in run_cases(&cases) {
        out.put(&r);
    }
    out.finish();
}

// ---------------------------------------------------------------- local zones with a rule, history
// One *sequence* = one process: `{run, tz, rule, steps: [{day, sod[, off]}]}`.  The child is started with
// TZ = a POSIX daylight-saving rule (no tz database needed) and converts, step by step in the same process,
// the instant as a chrono DateTime<Local> (offset decided by chrono from the rule), as a jiff Zoned in the
// same POSIX zone (offset decided by jiff) and as a time OffsetDateTime (offset handed over explicitly: the
// step's `off` when the spec supplied it, else the one chrono reported).  Record per call:
//   {"ev":"zfmt","run","step","tz","rule","b","day","sod","loff": offset (minutes) of the value handed to
//    lopdf, "st": ok|na|env|panic, "s":[bytes]}
// The judge computes the rule's offset for the instant itself; a value whose offset differs from it (the
// backend's own zone arithmetic, or TZ not taken) is not judged.

fn zfmt_one(b: &str, secs: i64, tz: &str, explicit: Option<i64>) -> Result<(i64, Vec<u8>), Fail> {
    match b {
        "chrono_local" => {
            use chrono::{DateTime, Local, Utc};
            let utc = DateTime::<Utc>::from_timestamp(secs, 0).ok_or_else(|| Fail::Na("chrono: instant out of range".into()))?;
            let dt: DateTime<Local> = utc.with_timezone(&Local);
            let lo = chrono::Offset::fix(dt.offset()).local_minus_utc();
            if lo % 60 != 0 {
                return Err(Fail::Env(format!("Local offset {lo}s is not whole minutes")));
            }
            Ok((i64::from(lo / 60), obj_bytes(Object::from(dt))))
        }
        "jiff_zoned" => {
            let ts = jiff::Timestamp::from_second(secs).map_err(|e| Fail::Na(format!("jiff: {e}")))?;
            let zone = jiff::tz::TimeZone::posix(tz).map_err(|e| Fail::Na(format!("jiff: {e}")))?;
            let z = ts.to_zoned(zone);
            let lo = z.offset().seconds();
            if lo % 60 != 0 {
                return Err(Fail::Env(format!("zone offset {lo}s is not whole minutes")));
            }
            Ok((i64::from(lo / 60), obj_bytes(Object::from(z))))
        }
        "time_odt" => {
            let off = explicit.ok_or_else(|| Fail::Na("no offset to hand over".into()))?;
            let t = time::OffsetDateTime::from_unix_timestamp(secs).map_err(|e| Fail::Na(format!("time: {e}")))?;
            let o = time::UtcOffset::from_whole_seconds((off * 60) as i32).map_err(|e| Fail::Na(format!("time: {e}")))?;
            let t = t.checked_to_offset(o).ok_or_else(|| Fail::Na("time: local date-time out of range".into()))?;
            Ok((off, obj_bytes(Object::from(t))))
        }
        _ => unreachable!(),
    }
}

const SEQ_BACKENDS: [&str; 3] = ["chrono_local", "jiff_zoned", "time_odt"];

fn seq_case(c: &Value, out: &mut dyn FnMut(Value)) {
    let tz = c["tz"].as_str().unwrap().to_string();
    for (j, st) in c["steps"].as_array().unwrap().iter().enumerate() {
        let (day, sod) = (st["day"].as_i64().unwrap(), st["sod"].as_i64().unwrap());
        let secs = unix(day, sod);
        let mut handed: Option<i64> = st["off"].as_i64();
        for b in SEQ_BACKENDS {
            let mut rec = json!({"ev": "zfmt", "run": c["run"], "step": j + 1, "tz": tz, "rule": c["rule"], "b": b,
                                 "day": day, "sod": sod, "loff": 0, "s": []});
            match guarded(|| zfmt_one(b, secs, &tz, handed)) {
                Ok(Ok((lo, s))) => {
                    rec["st"] = json!("ok");
                    rec["loff"] = json!(lo);
                    rec["s"] = bytes_json(&s);
                    if b == "chrono_local" && handed.is_none() {
                        handed = Some(lo);
                    }
                }
                Ok(Err(Fail::Na(m))) => {
                    rec["st"] = json!("na");
                    rec["msg"] = json!(m);
                }
                Ok(Err(Fail::Env(m))) => {
                    rec["st"] = json!("env");
                    rec["msg"] = json!(m);
                }
                Err(p) => {
                    rec["st"] = json!("panic");
                    rec["msg"] = json!(p);
                }
            }
            out(rec);
        }
    }
}

/// one child process per sequence (its history is the process' history), a few at a time
fn run_seqs(seqs: &[Value]) -> Vec<Value> {
    let mut out = Vec::new();
    for chunk in seqs.chunks(8) {
        let handles: Vec<_> = chunk
            .iter()
            .map(|q| {
                let line = serde_json::to_string(q).unwrap();
                let tz = q["tz"].as_str().unwrap().to_string();
                std::thread::spawn(move || run_child("seq", &tz, &[line]))
            })
            .collect();
        for (h, q) in handles.into_iter().zip(chunk.iter()) {
            let (recs, ok, status) = h.join().expect("join");
            let want = q["steps"].as_array().unwrap().len() * SEQ_BACKENDS.len();
            let got = recs.len();
            out.extend(recs);
            if !ok || got < want {
                out.push(json!({"ev": "crash", "run": q["run"], "phase": "seq", "tz": q["tz"], "status": status, "answered": got}));
            }
        }
    }
    out
}

/// POSIX TZ string of a rule record [std, dst (minutes east), sm.sw.sd/st, em.ew.ed/et (seconds of the day)]
fn rule_tz(r: &Value) -> String {
    let g = |k: &str| r[k].as_i64().unwrap();
    let po = |east: i64| {
        let a = east.abs();
        format!("{}{}:{:02}", if east > 0 { "-" } else { "" }, a / 60, a % 60)
    };
    let hms = |t: i64| format!("{}:{:02}:{:02}", t / 3600, t / 60 % 60, t % 60);
    if g("std") == g("dst") {
        format!("XST{}", po(g("std")))
    } else {
        format!("XST{}XDT{},M{}.{}.{}/{},M{}.{}.{}/{}", po(g("std")), po(g("dst")), g("sm"), g("sw"), g("sd"), hms(g("st")),
                g("em"), g("ew"), g("ed"), hms(g("et")))
    }
}

fn zreplay(args: &[String]) {
    let seqs = read_ndjson(&arg(args, "--in").unwrap());
    let mut out = NdjsonOut::create(&arg(args, "--out").unwrap());
    for r in run_seqs(&seqs) {
        out.put(&r);
    }
    out.finish();
}

/// seeded sequences: zones with rules (both hemispheres, half-hour shifts, odd change times) and one fixed zone,
/// 2..6 instants of 1970..2100, half of them in the months in which clocks change
fn zrecord(args: &[String]) {
    let seed = arg_u64(args, "--seed", 1);
    let n = arg_u64(args, "--n", 100) as usize;
    let mut rng = Rng::new(seed.wrapping_mul(0x2345_6789).wrapping_add(1818));
    let zones: [[i64; 10]; 8] = [
        [60, 120, 3, 5, 0, 7200, 10, 5, 0, 10800],
        [-300, -240, 3, 2, 0, 7200, 11, 1, 0, 7200],
        [600, 660, 10, 1, 0, 7200, 4, 1, 0, 10800],
        [630, 660, 10, 1, 0, 7200, 4, 1, 0, 7200],
        [-210, -150, 3, 2, 0, 60, 11, 1, 0, 60],
        [765, 825, 9, 5, 0, 9900, 4, 1, 0, 13500],
        [0, 60, 3, 5, 0, 3600, 10, 5, 0, 7200],
        [345, 345, 3, 1, 0, 0, 10, 1, 0, 0],
    ];
    let mut seqs = Vec::new();
    for run in 0..n {
        let z = zones[run % zones.len()];
        let rule = json!({"std": z[0], "dst": z[1], "sm": z[2], "sw": z[3], "sd": z[4], "st": z[5],
                          "em": z[6], "ew": z[7], "ed": z[8], "et": z[9]});
        let len = rng.range(2, 6);
        let mut steps = Vec::new();
        for _ in 0..len {
            let y = rng.range(1970, 2099);
            let m = if rng.chance(1, 2) { *rng.pick(&[z[2], z[6]]) } else { rng.range(1, 12) };
            let d = rng.range(1, dim(y, m));
            steps.push(json!({"day": day_of(y, m, d), "sod": rng.range(0, 86_399)}));
        }
        seqs.push(json!({"run": run, "tz": rule_tz(&rule), "rule": rule, "steps": steps}));
    }
    let mut out = NdjsonOut::create(&arg(args, "--out").unwrap());
    for r in run_seqs(&seqs) {
        out.put(&r);
    }
    out.finish();
}

fn main() {
    let args: Vec<String> = std::env::args().collect();
    match args.get(1).map(|s| s.as_str()) {
        Some("worker") => worker(args.get(2).map(|s| s.as_str()).unwrap_or("fmt")),
        Some("replay") => replay(&args),
        Some("record") => record(&args),
        Some("zreplay") => zreplay(&args),
        Some("zrecord") => zrecord(&args),
        _ => {
            eprintln!("usage: c18 replay|zreplay --in F --out F | record|zrecord --seed S --n N --out F");
            std::process::exit(2);
        }
    }
}
