//! C07 — incremental updates through lopdf's IncrementalDocument.
//! `record`: a base document is saved by lopdf, then 1..3 rounds of
//! IncrementalDocument::load_from -> edits in new_document -> save_to -> Document::load_mem,
//! logging the bytes before and after, the projected new_document, and the projection of
//! get_prev_documents() around the save, for Trace_Lifecycle (SaveInc / Load events).
use lopdf::xref::XrefType;
use lopdf::{Document, IncrementalDocument, Object};
use lopdf_conform::{gen, guard::guarded, io::*, rng::Rng, wire::*};
use serde_json::{json, Value};


/// 1..3 rounds of IncrementalDocument::load_from -> edits -> save_to -> Document::load_mem on `file`
fn rounds(out: &mut NdjsonOut, rng: &mut Rng, case: u64, mut file: Vec<u8>, g: &gen::DocGen) {
    let rounds = 1 + rng.below(3);
    for round in 0..rounds {
        let prev_bytes = file.clone();
        let mut inc = match guarded(|| IncrementalDocument::load_from(&prev_bytes[..])) {
            Ok(Ok(i)) => i,
            Ok(Err(e)) => {
                out.put(&json!({"ev": "LoadInc", "case": case, "round": round, "res": format!("err:{e:?}")}));
                break;
            }
            Err(p) => {
                out.put(&json!({"ev": "LoadInc", "case": case, "round": round, "res": format!("panic:{p}")}));
                break;
            }
        };
        let prev_before = doc_to_tla(inc.get_prev_documents());
        // edits: replace some existing objects (clone-then-modify or set_object), add new ones
        let ids: Vec<_> = inc.get_prev_documents().objects.iter()
            .filter(|(_, o)| !matches!(o.type_name(), Ok(b"XRef") | Ok(b"ObjStm")))
            // bare integers may be the indirect Length of a stream of the base file: replacing one would make
            // the updated file invalid by the caller's doing, not the library's
            .filter(|(_, o)| !matches!(o, Object::Integer(_)))
            .map(|(k, _)| *k).collect();
        let only_modify = rng.chance(1, 3);
        for id in &ids {
            match rng.below(6) {
                0 => {
                    let _ = inc.opt_clone_object_to_new_document(*id);
                    if let Ok(Object::Dictionary(d)) = inc.new_document.get_object_mut(*id) {
                        d.set("Edited", Object::Integer(round as i64 + 1));
                    }
                }
                1 => inc.new_document.set_object(*id, g.object(rng, 0)),
                2 if rng.chance(1, 3) => inc.new_document.set_object(*id, g.stream(rng)),
                _ => {}
            }
        }
        if only_modify {
            // an update that adds nothing: at least one existing object is replaced
            if inc.new_document.objects.is_empty() {
                if let Some(id) = ids.first() {
                    inc.new_document.set_object(*id, g.object(rng, 0));
                }
            }
        } else {
            for _ in 0..rng.below(3) {
                let o = g.top_object(rng);
                inc.new_document.add_object(o);
            }
        }
        if rng.chance(1, 3) {
            let v = g.object(rng, 1);
            inc.new_document.trailer.set("Info", v);
        }
        // every third round: the same IncrementalDocument has already been saved once (to a sink that is thrown away) and was
        // then edited again - saving must not leave state behind that the next save of the same value trips over
        if (case + round as u64) % 3 == 1 {
            let mut scratch = Vec::new();
            let _ = guarded(|| inc.save_to(&mut scratch));
            if rng.chance(1, 2) {
                inc.new_document.add_object(Object::Integer(round as i64 + 1000));
            }
        }
        // every fourth round one more object is stored directly in the map of the update, under the first number above
        // everything in use, WITHOUT going through add_object (direct inserts do not maintain max_id: the saved section,
        // Size and the number of a cross-reference stream must cover it all the same)
        if (case + 2 * round as u64) % 4 == 3 {
            let top = inc.get_prev_documents().max_id.max(inc.new_document.max_id).max(inc.new_document.objects.keys().map(|k| k.0).max().unwrap_or(0));
            inc.new_document.objects.insert((top + 1, 0), Object::string_literal("stored directly"));
        }
        let newdoc = doc_to_tla(&inc.new_document);
        let mut outb = Vec::new();
        let res = match guarded(|| inc.save_to(&mut outb)) {
            Ok(Ok(())) => "ok".to_string(),
            Ok(Err(e)) => format!("err:{e}"),
            Err(p) => format!("panic:{p}"),
        };
        let prev_after = doc_to_tla(inc.get_prev_documents());
        out.put(&json!({"ev": "SaveInc", "case": case, "round": round, "res": res, "newdoc": newdoc,
                        "prev_before": prev_before, "prev_after": prev_after,
                        "bytes": if res == "ok" { bytes_to_json(&outb) } else { Value::Array(vec![]) }}));
        if res != "ok" {
            break;
        }
        match guarded(|| Document::load_mem(&outb)) {
            Ok(Ok(d)) => out.put(&json!({"ev": "Load", "case": case, "res": "ok", "doc": doc_to_tla(&d)})),
            Ok(Err(e)) => out.put(&json!({"ev": "Load", "case": case, "res": format!("err:{e:?}"), "doc": doc_to_tla(&Document::new())})),
            Err(p) => out.put(&json!({"ev": "Load", "case": case, "res": format!("panic:{p}"), "doc": doc_to_tla(&Document::new())})),
        }
        file = outb;
    }
}

fn record(args: &[String]) {
    let seed = arg_u64(args, "--seed", 1);
    let n = arg_u64(args, "--n", 40);
    let mut out = NdjsonOut::create(&arg(args, "--out").unwrap());
    let mut rng = Rng::new(seed ^ 0xC07);
    for case in 0..n {
        let mut doc = gen::random_document(&mut rng, 6, case % 3 != 0, true);
        let fmt = if case % 2 == 0 { "table" } else { "stream" };
        doc.reference_table.cross_reference_type =
            if fmt == "table" { XrefType::CrossReferenceTable } else { XrefType::CrossReferenceStream };
        out.put(&json!({"ev": "Reset", "case": case}));
        let before = doc_to_tla(&doc);
        let mut bytes = Vec::new();
        if doc.save_to(&mut bytes).is_err() {
            continue;
        }
        // some base files get bytes in front of the header (offsets are relative to %PDF-)
        let junk: &[u8] = if case % 5 == 4 { b"junk before header\n" } else { b"" };
        let mut file = junk.to_vec();
        file.extend_from_slice(&bytes);
        if junk.is_empty() {
            out.put(&json!({"ev": "Save", "case": case, "cycle": 0, "fmt": fmt, "doc": before, "res": "ok", "bytes": bytes_to_json(&file)}));
        } else {
            out.put(&json!({"ev": "File", "case": case, "bytes": bytes_to_json(&file), "knobs": {"junk": junk.len(), "fmt": fmt}}));
        }
        let g = gen::DocGen { max_depth: 2, ids: doc.objects.keys().copied().collect(), hostile_names: case % 3 != 0, allow_big_reals: true };
        rounds(&mut out, &mut rng, case, file, &g);
    }
    // bases written by another producer (the specification's Producer: compressed xref streams, object streams,
    // XRef stream objects that are not the highest-numbered object, several revisions, every lexical freedom)
    if let Some(bp) = arg(args, "--bases") {
        for (i, b) in read_ndjson(&bp).iter().enumerate() {
            let case = n + i as u64;
            let file = json_to_bytes(&b["bytes"]);
            out.put(&json!({"ev": "Reset", "case": case}));
            out.put(&json!({"ev": "File", "case": case, "bytes": b["bytes"], "knobs": {"junk": b["junk"], "xref": b["xref"], "sfilter": b["sfilter"], "selfgap": b["selfgap"], "nrevs": b["nrevs"], "ncomp": b["ncomp"], "producer": true}}));
            let g = gen::DocGen { max_depth: 2, ids: vec![], hostile_names: i % 3 != 0, allow_big_reals: true };
            rounds(&mut out, &mut rng, case, file, &g);
        }
    }
    out.finish();
}

fn main() {
    let args: Vec<String> = std::env::args().collect();
    match args.get(1).map(String::as_str) {
        Some("record") => record(&args),
        _ => {
            eprintln!("usage: c07 record --seed S --n N --out F");
            std::process::exit(2)
        }
    }
}
