use lopdf::{dictionary, Dictionary, Document, Object, Stream};

fn base() -> (Document, (u32, u16), (u32, u16), (u32, u16)) {
    let mut doc = Document::with_version("1.5");
    let pages_id = doc.new_object_id();
    let font = doc.add_object(dictionary! {"Type" => "Font"});
    let res = doc.add_object(dictionary! {"Font" => dictionary!{"F1" => font}});
    let c1 = doc.add_object(Stream::new(dictionary! {}, b"AAA".to_vec()));
    let page = doc.add_object(dictionary! {"Type" => "Page", "Parent" => pages_id, "Contents" => c1});
    doc.objects.insert(
        pages_id,
        Object::Dictionary(dictionary! {"Type" => "Pages", "Kids" => vec![page.into()], "Count" => 1, "Resources" => res}),
    );
    let cat = doc.add_object(dictionary! {"Type" => "Catalog", "Pages" => pages_id});
    doc.trailer.set("Root", cat);
    (doc, page, c1, pages_id)
}

fn main() {
    // 1. trailer direct ref
    {
        let (mut doc, _page, _c1, _) = base();
        let info = doc.add_object(dictionary! {"Title" => Object::string_literal("x")});
        doc.trailer.set("Info", info);
        doc.delete_object(info);
        println!("trailer after delete(info): {:?}", doc.trailer);
    }
    // 2. ref to array: add_page_contents
    {
        let (mut doc, page, c1, _) = base();
        let arr = doc.add_object(Object::Array(vec![c1.into()]));
        doc.get_dictionary_mut(page).unwrap().set("Contents", arr);
        println!("before: {:?}", String::from_utf8_lossy(&doc.get_page_content(page).unwrap()));
        let r = doc.add_page_contents(page, b"BBB".to_vec());
        println!("add_page_contents on refToArray: {:?} -> {:?}", r, String::from_utf8_lossy(&doc.get_page_content(page).unwrap()));
        println!("page: {:?}", doc.get_dictionary(page).unwrap());
    }
    {
        let (mut doc, page, c1, _) = base();
        let arr = doc.add_object(Object::Array(vec![c1.into()]));
        doc.get_dictionary_mut(page).unwrap().set("Contents", arr);
        let r = doc.change_page_content(page, b"CCC".to_vec());
        println!("change_page_content on refToArray: {:?} -> {:?}", r, String::from_utf8_lossy(&doc.get_page_content(page).unwrap()));
    }
    // 3. missing contents
    {
        let (mut doc, page, _c1, _) = base();
        doc.get_dictionary_mut(page).unwrap().remove(b"Contents");
        let r = doc.change_page_content(page, b"CCC".to_vec());
        println!("change_page_content on missing: {:?} -> {:?}", r.is_ok(), String::from_utf8_lossy(&doc.get_page_content(page).unwrap()));
        let r = doc.add_page_contents(page, b"DDD".to_vec());
        println!("add_page_contents on missing: {:?} -> {:?}", r.is_ok(), String::from_utf8_lossy(&doc.get_page_content(page).unwrap()));
    }
    // 4. resources shadow
    {
        let (mut doc, page, c1, _) = base();
        let r = doc.add_xobject(page, "Im1", c1);
        println!("add_xobject: {:?} page: {:?}", r.is_ok(), doc.get_dictionary(page).unwrap());
        println!("fonts: {:?}", doc.get_page_fonts(page).unwrap().keys().collect::<Vec<_>>());
    }
    // 5. remove_object with a page lacking Annots
    {
        let (mut doc, page, _c1, pages_id) = base();
        let a = doc.add_object(dictionary! {"Type" => "Annot"});
        let page2 = doc.add_object(dictionary! {"Type" => "Page", "Parent" => pages_id, "Annots" => vec![a.into(), a.into()]});
        let d = doc.get_dictionary_mut(pages_id).unwrap();
        d.set("Kids", vec![page.into(), page2.into()]);
        d.set("Count", 2);
        let r = doc.remove_object(&a);
        println!("remove_object: {:?} page2: {:?}", r.is_ok(), doc.get_dictionary(page2).unwrap());
        let d = doc.get_dictionary_mut(pages_id).unwrap();
        d.set("Kids", vec![page2.into(), page.into()]);
        let r = doc.remove_object(&a);
        println!("remove_object (annot page first): {:?} page2: {:?}", r.is_ok(), doc.get_dictionary(page2).unwrap());
    }
    // 6. compress big stream & change_content_stream
    {
        let (mut doc, page, c1, _) = base();
        doc.change_content_stream(c1, vec![b'x'; 300]);
        println!("c1 after change: {:?}", doc.get_object(c1).unwrap().as_stream().unwrap().dict);
        doc.decompress();
        println!("c1 after decompress: {:?} len {}", doc.get_object(c1).unwrap().as_stream().unwrap().dict, doc.get_page_content(page).unwrap().len());
    }
    let _ = Dictionary::new();
}
