//! Run code under test so that a panic is data about lopdf, not a harness failure.
use std::panic::{catch_unwind, AssertUnwindSafe};
use std::sync::Once;

static QUIET: Once = Once::new();

/// Silence the default panic message (we report panics ourselves).
pub fn quiet_panics() {
    QUIET.call_once(|| {
        std::panic::set_hook(Box::new(|_| {}));
    });
}

/// Ok(value) or Err(panic message).
pub fn guarded<T>(f: impl FnOnce() -> T) -> Result<T, String> {
    quiet_panics();
    catch_unwind(AssertUnwindSafe(f)).map_err(|e| {
        if let Some(s) = e.downcast_ref::<&str>() {
            s.to_string()
        } else if let Some(s) = e.downcast_ref::<String>() {
            s.clone()
        } else {
            "panic".to_string()
        }
    })
}
