//! Filtered loading (Reader::read(Some(f)), the engine of Document::load_filtered) for C08: the same
//! pure filters are applied by the parallel and by the rayon-free build (this file is included by
//! path in harness-seq), and the facts the TLA+ model (ParallelLoad!FilterRestricts) speaks about
//! are logged: which numbers the filter drops, which container each object lives in, which objects
//! arrived.
//!
//! A filter is a `fn` pointer, so its parameters live in statics: `drop iff num % M == R`.  Bare
//! integer objects are never dropped (an indirect stream Length that is itself compressed is resolved
//! from the loaded objects), and object streams are dropped only when `CONT` is set.
use crate::wire::doc_to_json;
use lopdf::xref::XrefEntry;
use lopdf::{Document, Object, ObjectId, Reader};
use serde_json::{json, Value};
use std::sync::atomic::{AtomicBool, AtomicU32, Ordering};

static M: AtomicU32 = AtomicU32::new(2);
static R: AtomicU32 = AtomicU32::new(0);
static CONT: AtomicBool = AtomicBool::new(false);

/// (modulus, residue, drop object streams too)
pub const DROPS: [(u32, u32, bool); 5] = [(2, 0, false), (2, 1, true), (3, 1, true), (3, 0, true), (1, 0, false)];

pub fn fnv(s: &str) -> String {
    let mut h: u64 = 0xcbf29ce484222325;
    for b in s.bytes() {
        h ^= b as u64;
        h = h.wrapping_mul(0x100000001b3);
    }
    format!("{h:016x}")
}

fn is_objstm(o: &Object) -> bool {
    matches!(o, Object::Stream(s) if s.dict.has_type(b"ObjStm"))
}

fn drops(n: u32, o: &Object) -> bool {
    n % M.load(Ordering::SeqCst) == R.load(Ordering::SeqCst)
        && !matches!(o, Object::Integer(_))
        && (CONT.load(Ordering::SeqCst) || !is_objstm(o))
}

fn f_drop(id: ObjectId, o: &mut Object) -> Option<(ObjectId, Object)> {
    if drops(id.0, o) {
        None
    } else {
        Some((id, o.clone()))
    }
}

fn mark(o: &mut Object) {
    if let Object::Dictionary(d) = o {
        d.set("VerifSeen", Object::Boolean(true));
    }
}

fn f_mark(id: ObjectId, o: &mut Object) -> Option<(ObjectId, Object)> {
    mark(o);
    Some((id, o.clone()))
}

pub fn set_drop(k: usize) {
    M.store(DROPS[k].0, Ordering::SeqCst);
    R.store(DROPS[k].1, Ordering::SeqCst);
    CONT.store(DROPS[k].2, Ordering::SeqCst);
}

/// filter index: 0..DROPS.len() are drop filters, DROPS.len() is the marking filter
pub const NFILTERS: usize = DROPS.len() + 1;

pub fn load_filtered(bytes: &[u8], k: usize) -> lopdf::Result<Document> {
    let f = if k < DROPS.len() {
        set_drop(k);
        f_drop
    } else {
        f_mark
    };
    Reader { buffer: bytes, document: Document::new() }.read(Some(f))
}

/// What the plain load of the file says about filter k: the facts for the model and the digest of the
/// plain document restricted (or marked) accordingly.  `deferred`: the plain load filled in streams late (hook H2,
/// `observed_deferred_order` right after the plain load).  `None` when the file holds a stream whose Length is a compressed object and
/// the filter drops object streams (the restriction is then not the whole story).
pub fn expectation(plain: &Document, k: usize, deferred: bool) -> Option<Value> {
    let xr: Vec<(u32, u32)> = plain
        .reference_table
        .entries
        .iter()
        .filter_map(|(n, e)| match e {
            XrefEntry::Normal { .. } => Some((*n, 0)),
            XrefEntry::Compressed { container, .. } => Some((*n, *container)),
            _ => None,
        })
        .collect();
    let containers: Vec<u32> = plain.objects.iter().filter(|(_, o)| is_objstm(o)).map(|(id, _)| id.0).collect();
    if k < DROPS.len() {
        set_drop(k);
        // a deferred stream (hook H2: its Length is a compressed object, resolved from the loaded objects after the merge)
        // stays empty when the filter drops the object stream that holds its Length: not the restriction of the plain load
        if DROPS[k].2 && deferred {
            return None;
        }
        let dropset: Vec<u32> = plain.objects.iter().filter(|(id, o)| drops(id.0, o)).map(|(id, _)| id.0).collect();
        let gone = |n: u32| dropset.contains(&n);
        let mut restricted = plain.clone();
        restricted.objects.retain(|id, _| {
            !gone(id.0)
                && match plain.reference_table.get(id.0) {
                    Some(XrefEntry::Compressed { container, .. }) => !gone(*container),
                    _ => true,
                }
        });
        // members no xref entry lists ("ghosts"): the model leaves their presence to Deterministic alone
        let ghosts: Vec<u32> = plain.objects.keys().filter(|id| plain.reference_table.get(id.0).is_none()).map(|id| id.0).collect();
        restricted.objects.retain(|id, _| !ghosts.contains(&id.0));
        Some(json!({"mode": "drop", "xr": xr, "pcontainers": containers, "dropset": dropset, "ghosts": ghosts,
                    "uids": plain.objects.keys().map(|id| id.0).collect::<Vec<_>>(),
                    "exphash": fnv(&doc_to_json(&restricted).to_string())}))
    } else {
        let mut marked = plain.clone();
        for o in marked.objects.values_mut() {
            mark(o);
        }
        Some(json!({"mode": "mark", "xr": xr, "pcontainers": containers, "dropset": [], "ghosts": [],
                    "uids": plain.objects.keys().map(|id| id.0).collect::<Vec<_>>(),
                    "exphash": fnv(&doc_to_json(&marked).to_string())}))
    }
}

/// (res, digest of the whole document, digest without the unlisted members, object numbers) of a filtered load
pub fn outcome(r: lopdf::Result<Document>, ghosts: &[u32]) -> (String, String, String, Vec<u32>) {
    match r {
        Ok(mut d) => {
            let ids: Vec<u32> = d.objects.keys().map(|id| id.0).collect();
            let full = fnv(&doc_to_json(&d).to_string());
            d.objects.retain(|id, _| !ghosts.contains(&id.0));
            ("ok".into(), full, fnv(&doc_to_json(&d).to_string()), ids)
        }
        Err(e) => (format!("err:{e:?}"), "-".into(), "-".into(), vec![]),
    }
}
