//! Seeded generators for "all documents" (C01/C03/C07/C19 drivers): any mix of the ten object
//! kinds nested arbitrarily, hostile bytes in names / strings / keys / stream bodies, sparse
//! object numbers, non-zero generations, boundary reals, version and binary-mark classes.
use crate::rng::Rng;
use lopdf::{Dictionary, Document, Object, Stream, StringFormat};

/// the critical alphabet of DESIGN 3.1 plus a few more
pub const SIGMA: &[u8] = b"()\\#/<>[]{}% \r\n\t\x00\x0c\x0808nrA~\x7f\x80\xfe\xff!";

pub fn hostile_bytes(rng: &mut Rng, maxlen: usize) -> Vec<u8> {
    let len = match rng.below(8) {
        0 => 0,
        1 => 1,
        2 => 2,
        _ => rng.below(maxlen + 1),
    };
    let mode = rng.below(4);
    (0..len)
        .map(|_| match mode {
            0 => *rng.pick(SIGMA),
            1 => rng.byte(),
            2 => *rng.pick(b"abcXYZ019 "),
            _ => {
                if rng.chance(1, 2) {
                    *rng.pick(SIGMA)
                } else {
                    rng.byte()
                }
            }
        })
        .collect()
}

static LONG: std::sync::atomic::AtomicBool = std::sync::atomic::AtomicBool::new(false);

/// Switch on the size-boundary class: now and then a string, name, stream content or array has a length at a
/// power-of-two boundary (buffers and block-wise loops in the code under test change behaviour there).
pub fn set_long(on: bool) {
    LONG.store(on, std::sync::atomic::Ordering::SeqCst);
}

fn long_on() -> bool {
    LONG.load(std::sync::atomic::Ordering::SeqCst)
}

pub fn boundary_len(rng: &mut Rng, max: usize) -> usize {
    let xs: Vec<usize> = [63usize, 64, 65, 127, 128, 129, 255, 256, 257, 511, 512, 513, 1023, 1024, 1025, 4095, 4096, 4097, 8191, 8192, 8193, 65535, 65536, 65537]
        .iter()
        .copied()
        .filter(|&n| n <= max)
        .collect();
    *rng.pick(&xs)
}

pub fn long_bytes(rng: &mut Rng, len: usize) -> Vec<u8> {
    match rng.below(4) {
        0 => (0..len).map(|i| b"0123456789abcdef"[i % 16]).collect(),
        1 => (0..len).map(|_| rng.byte()).collect(),
        2 => (0..len).map(|i| if i % 7 == 3 { *rng.pick(SIGMA) } else { b'x' }).collect(),
        _ => (0..len).map(|i| (i % 251) as u8).collect(),
    }
}

pub fn special_strings(rng: &mut Rng) -> Vec<u8> {
    let xs: &[&[u8]] = &[
        b"endstream", b"endobj", b"\r\nendstream\r\n", b"(()", b"())", b"\\", b"\\)", b"a\rb", b"a\r\nb", b"a\nb",
        b"\\053", b"#20", b"1 0 R", b"<<>>", b"stream\n", b"%%EOF", b"startxref", b"((((((((((", b"))))))))))",
        b"\\\r\n", b"\\\r", b"x\\", b"(\\", b")(", b"\r", b"\n", b"\r\r\n\n",
        // file-structure look-alikes inside data (an embedded PDF tail, a fake xref / trailer / object)
        b"startxref\n5\n%%EOF", b"\nstartxref\r\n0\r\n%%EOF\r\n", b"xref\n0 1\n0000000000 65535 f \ntrailer\n<</Size 1>>\nstartxref\n0\n%%EOF\n",
        b"1 0 obj\n<<>>\nendobj\n", b"trailer<</Root 1 0 R>>", b"%PDF-1.4\n",
    ];
    rng.pick(xs).to_vec()
}

pub fn boundary_reals() -> Vec<f32> {
    vec![
        0.0, -0.0, 0.5, -0.5, 1.0, -1.0, 3.0, 0.1, 0.2, 0.3, 1.5, 2.5, 1e-7, 1.0e-10, 123456.79, 16777216.0, 16777218.0,
        8388608.5, 0.000001, 1e10, -1e10, 2147483648.0, -2147483648.0, 4294967296.0, 9.007199e15,
        f32::MIN_POSITIVE, f32::EPSILON, 1.17549421e-38, 1e-45, 3.4e38, f32::MAX, f32::MIN, 9.223372e18, -9.223372e18,
        9.2233715e18, 9.3e18, 9.5e18, -9.5e18, 9.99e18, -9.99e18, 1e19, 1.1e19, 1e20, -1e20, 0.99999994, 1.0000001, 255.0, 65535.0, 0.333333343, 100.25, -0.75, 612.0, 792.0,
    ]
}

pub fn random_real(rng: &mut Rng) -> f32 {
    match rng.below(4) {
        0 => *rng.pick(&boundary_reals()),
        1 => (rng.range(-100000, 100000) as f32) / (*rng.pick(&[1.0f32, 2.0, 4.0, 10.0, 100.0, 1000.0, 3.0, 7.0])),
        2 => {
            // random finite bit pattern
            loop {
                let f = f32::from_bits(rng.next_u64() as u32);
                if f.is_finite() {
                    return f;
                }
            }
        }
        _ => rng.range(-1000, 1000) as f32,
    }
}

pub fn random_int(rng: &mut Rng) -> i64 {
    match rng.below(6) {
        0 => *rng.pick(&[0i64, 1, -1, i64::MAX, i64::MIN, i64::MIN + 1, 2147483647, 2147483648, -2147483648, 4294967295, 4294967296, 65535, 65536, 9999999999]),
        1 => rng.next_u64() as i64,
        _ => rng.range(-1000, 100000),
    }
}

pub struct DocGen {
    pub max_depth: usize,
    pub ids: Vec<(u32, u16)>,
    /// if false, names/keys avoid empty and NUL-containing forms
    pub hostile_names: bool,
    pub allow_big_reals: bool,
}

impl DocGen {
    pub fn name(&self, rng: &mut Rng) -> Vec<u8> {
        if long_on() && rng.chance(1, 60) {
            let n = boundary_len(rng, 1025);
            return (0..n).map(|i| if self.hostile_names && i % 5 == 2 { *rng.pick(b"# /()<>[]{}%\x00\r\n\x80\xff") } else { b"nameXYZ"[i % 7] }).collect();
        }
        if self.hostile_names && rng.chance(1, 2) {
            if rng.chance(1, 6) {
                special_strings(rng)
            } else {
                hostile_bytes(rng, 6)
            }
        } else {
            let xs: &[&[u8]] = &[b"Type", b"A", b"Kids", b"Font", b"F1", b"Subtype", b"X", b"Name1", b"XRef", b"ObjStm", b"Type", b"XRef", b"Key", b"Lime Green", b"A;Name_With-Various***Characters?", b"1.2", b"$$", b"@pattern", b".notdef"];
            rng.pick(xs).to_vec()
        }
    }

    pub fn key(&self, rng: &mut Rng) -> Vec<u8> {
        // keys "Type" with values XRef/ObjStm and key "Linearized" are avoided by the caller
        let mut k = self.name(rng);
        if k == b"Linearized" || k == b"Length" {
            k.push(b'x');
        }
        k
    }

    pub fn string(&self, rng: &mut Rng) -> Object {
        let b = if long_on() && rng.chance(1, 25) {
            let cap = if rng.chance(1, 12) { 65537 } else { 4097 };
            let n = boundary_len(rng, cap);
            long_bytes(rng, n)
        } else if rng.chance(1, 5) {
            special_strings(rng)
        } else {
            hostile_bytes(rng, 12)
        };
        Object::String(b, if rng.chance(1, 3) { StringFormat::Hexadecimal } else { StringFormat::Literal })
    }

    pub fn real(&self, rng: &mut Rng) -> Object {
        loop {
            let f = random_real(rng);
            if self.allow_big_reals || f.fract() != 0.0 || f.abs() < 9.0e18 {
                return Object::Real(f);
            }
        }
    }

    pub fn scalar(&self, rng: &mut Rng) -> Object {
        match rng.below(9) {
            0 => Object::Null,
            1 => Object::Boolean(rng.chance(1, 2)),
            2 | 3 => Object::Integer(random_int(rng)),
            4 => self.real(rng),
            5 => Object::Name(self.name(rng)),
            6 | 7 => self.string(rng),
            _ => {
                if !self.ids.is_empty() && rng.chance(3, 4) {
                    Object::Reference(*rng.pick(&self.ids))
                } else {
                    Object::Reference((rng.range(1, 5000) as u32, *rng.pick(&[0u16, 0, 1, 65535])))
                }
            }
        }
    }

    pub fn dict(&self, rng: &mut Rng, depth: usize) -> Dictionary {
        let mut d = Dictionary::new();
        for _ in 0..rng.below(5) {
            let k = self.key(rng);
            let v = self.object(rng, depth + 1);
            d.set(k, v);
        }
        d
    }

    /// a direct object (no streams)
    pub fn object(&self, rng: &mut Rng, depth: usize) -> Object {
        if depth >= self.max_depth || rng.chance(1, 2) {
            return self.scalar(rng);
        }
        if long_on() && rng.chance(1, 80) {
            let n = boundary_len(rng, 1025);
            return Object::Array((0..n).map(|i| if i % 64 == 63 { self.scalar(rng) } else { Object::Integer(i as i64) }).collect());
        }
        match rng.below(2) {
            0 => Object::Array((0..rng.below(5)).map(|_| self.object(rng, depth + 1)).collect()),
            _ => Object::Dictionary(self.dict(rng, depth)),
        }
    }

    pub fn stream(&self, rng: &mut Rng) -> Object {
        let content = match if long_on() && rng.chance(1, 10) { 9 } else { rng.below(5) } {
            9 => {
                let cap = if rng.chance(1, 8) { 65537 } else { 8193 };
                let n = boundary_len(rng, cap);
                long_bytes(rng, n)
            }
            0 => vec![],
            1 => special_strings(rng),
            2 => hostile_bytes(rng, 40),
            3 => b"BT /F1 12 Tf (Hello) Tj ET".to_vec(),
            _ => (0..rng.below(60)).map(|_| rng.byte()).collect(),
        };
        let mut d = self.dict(rng, 1);
        d.remove(b"Length");
        d.remove(b"Filter");
        d.remove(b"DecodeParms");
        // a STREAM typed XRef / ObjStm is structure of a file, not content of a document (a dictionary so typed is)
        if matches!(d.get(b"Type").and_then(Object::as_name), Ok(b"XRef") | Ok(b"ObjStm")) {
            d.remove(b"Type");
        }
        Object::Stream(Stream::new(d, content))
    }

    pub fn top_object(&self, rng: &mut Rng) -> Object {
        if rng.chance(1, 5) {
            self.stream(rng)
        } else {
            self.object(rng, 0)
        }
    }
}

/// `depth` arrays (or dictionaries) nested inside each other around a leaf
pub fn nested(depth: usize, dicts: bool, leaf: Object) -> Object {
    let mut o = leaf;
    for _ in 0..depth {
        o = if dicts {
            let mut d = Dictionary::new();
            d.set("K", o);
            Object::Dictionary(d)
        } else {
            Object::Array(vec![o])
        };
    }
    o
}

pub const VERSIONS: &[&str] = &["1.4", "1.5", "1.7", "2.0", "1.0", "1.10", "x", "1.5-custom"];

/// A random document inside the domain of C01: distinct object numbers, max_id >= every number,
/// binary mark bytes >= 128, version without white-space.
pub fn random_document(rng: &mut Rng, max_objects: usize, hostile: bool, allow_big_reals: bool) -> Document {
    let n = if rng.chance(1, 10) { 0 } else { 1 + rng.below(max_objects) };
    let mut nums: Vec<u32> = vec![];
    let sparse = rng.chance(1, 2);
    let mut cur = 0u32;
    for _ in 0..n {
        cur += if sparse { 1 + rng.below(7) as u32 } else { 1 };
        nums.push(cur);
    }
    let ids: Vec<(u32, u16)> = nums
        .iter()
        .map(|&k| (k, if rng.chance(1, 5) { *rng.pick(&[1u16, 2, 7, 65535]) } else { 0 }))
        .collect();
    let g = DocGen { max_depth: 3, ids: ids.clone(), hostile_names: hostile, allow_big_reals };
    let mut doc = Document::with_version(*rng.pick(VERSIONS));
    doc.binary_mark = match rng.below(4) {
        0 => vec![0xBB, 0xAD, 0xC0, 0xDE],
        1 => vec![0xE2, 0xE3, 0xCF, 0xD3],
        2 => (0..4).map(|_| 128 + (rng.byte() % 128)).collect(),
        _ => (0..rng.below(9)).map(|_| 128 + (rng.byte() % 128)).collect(),
    };
    for id in &ids {
        doc.objects.insert(*id, g.top_object(rng));
    }
    // now and then: nesting up to the parser's documented limit, and many empty containers
    if let Some(id) = ids.first() {
        if rng.chance(1, 8) {
            doc.objects.insert(*id, nested(*rng.pick(&[30usize, 46, 47, 48]), rng.chance(1, 2), g.scalar(rng)));
        } else if rng.chance(1, 8) {
            doc.objects.insert(*id, Object::Array((0..60 + rng.below(40)).map(|i| if i % 3 == 0 { Object::Dictionary(Dictionary::new()) } else { Object::Array(vec![]) }).collect()));
        }
    }
    doc.max_id = cur + if rng.chance(1, 3) { rng.below(5) as u32 } else { 0 };
    // trailer: Root / Info references plus arbitrary user entries
    if !ids.is_empty() {
        doc.trailer.set("Root", Object::Reference(*rng.pick(&ids)));
    }
    if rng.chance(1, 2) {
        for _ in 0..rng.below(3) {
            let k = g.key(rng);
            if [&b"Size"[..], b"Prev", b"XRefStm", b"Type", b"W", b"Index", b"Length", b"Filter", b"DecodeParms", b"Encrypt"].contains(&&k[..]) {
                continue;
            }
            doc.trailer.set(k, g.object(rng, 1));
        }
    }
    if rng.chance(1, 3) {
        doc.trailer.set("ID", Object::Array(vec![Object::String(hostile_bytes(rng, 16), StringFormat::Hexadecimal), Object::String(hostile_bytes(rng, 16), StringFormat::Literal)]));
    }
    doc
}
