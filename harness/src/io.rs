//! ndjson plumbing.
use serde_json::Value;
use std::io::{BufRead, BufReader, Write};

pub fn read_ndjson(path: &str) -> Vec<Value> {
    let f = std::fs::File::open(path).unwrap_or_else(|e| panic!("open {path}: {e}"));
    BufReader::new(f)
        .lines()
        .map(|l| l.expect("read line"))
        .filter(|l| !l.trim().is_empty())
        .map(|l| serde_json::from_str(&l).unwrap_or_else(|e| panic!("bad json line: {e}: {l}")))
        .collect()
}

pub struct NdjsonOut(std::io::BufWriter<std::fs::File>);

impl NdjsonOut {
    pub fn create(path: &str) -> Self {
        NdjsonOut(std::io::BufWriter::new(
            std::fs::File::create(path).unwrap_or_else(|e| panic!("create {path}: {e}")),
        ))
    }
    pub fn put(&mut self, v: &Value) {
        serde_json::to_writer(&mut self.0, v).expect("write json");
        self.0.write_all(b"\n").expect("write nl");
    }
    pub fn finish(mut self) {
        self.0.flush().expect("flush");
    }
}

/// `--key value` argument lookup.
pub fn arg(args: &[String], key: &str) -> Option<String> {
    args.iter().position(|a| a == key).and_then(|i| args.get(i + 1).cloned())
}

pub fn arg_or(args: &[String], key: &str, default: &str) -> String {
    arg(args, key).unwrap_or_else(|| default.to_string())
}

pub fn arg_u64(args: &[String], key: &str, default: u64) -> u64 {
    arg(args, key).map(|s| s.parse().expect("numeric argument")).unwrap_or(default)
}
