#!/usr/bin/env python3
"""Regenerate the per-property table of DESIGN.md section 10.2 from evidence/*.json and known_findings/*.json."""
import json, os, re, glob
rows = []
tot_fixed = set(); nsig_fixed = 0; nopen = 0
for i in range(1, 20):
    pid = "C%02d" % i
    ev = json.load(open("/verif/evidence/%s.json" % pid))
    cov = ev.get("coverage", {})
    kf = {"findings": [], "fixed": []}
    p = "/verif/known_findings/%s.json" % pid
    if os.path.exists(p):
        kf = json.load(open(p))
    commits = []
    for line in kf.get("fixed", []):
        m = re.match(r"fixed: property=\S+ ([0-9a-f]{7})", line)
        if m and m.group(1) not in commits:
            commits.append(m.group(1))
        nsig_fixed += 1
    tot_fixed.update(commits)
    opens = ", ".join("`%s`" % f["signature"].split(":", 1)[1] for f in kf.get("findings", [])) or "–"
    nopen += len(kf.get("findings", []))
    # exploration-level evidence has no "states" key of its own: TLC's part is in mc_states / trace_states / judge_states / tlc_inputs
    states = cov.get("states", 0) or (cov.get("mc_states", 0) + cov.get("trace_states", 0) + cov.get("judge_states", 0) + cov.get("tlc_inputs", 0))
    rows.append("| %s | %s | %s | %s | %s | %s |" % (pid, ev.get("level", ""), "{:,}".format(states).replace(",", " "),
                "{:,}".format(cov.get("evaluations", 0)).replace(",", " "), opens, ", ".join(commits) or "–"))
table = ["| id | level | TLC states (quick tier, models + traces) | lopdf executions judged (quick tier) | open findings | repaired (`fix:` commits in /repo) |",
         "|---|---|---|---|---|---|"] + rows
s = open("/verif/DESIGN.md").read()
b, e = "<!-- property-table:begin -->", "<!-- property-table:end -->"
if b in s:
    s = s[:s.index(b) + len(b)] + "\n" + "\n".join(table) + "\n" + s[s.index(e):]
    open("/verif/DESIGN.md", "w").write(s)
import subprocess
nfix = int(subprocess.run("git -C /repo log --oneline | grep -c ' fix:'", shell=True, capture_output=True, text=True).stdout.strip() or 0)
tot = ("In total %d `fix:` commits are in /repo; the known-findings files list %d repaired finding signatures "
       "(several signatures can belong to one defect, and a defect can be seen by two properties) and %d open ones.\n" % (nfix, nsig_fixed, nopen))
s = open("/verif/DESIGN.md").read()
b2, e2 = "<!-- totals:begin -->", "<!-- totals:end -->"
if b2 in s:
    s = s[:s.index(b2) + len(b2)] + "\n" + tot + s[s.index(e2):]
    open("/verif/DESIGN.md", "w").write(s)
print("\n".join(table))
print("fix commits referenced:", len(tot_fixed), "fixed entries:", nsig_fixed, "open findings:", nopen)
