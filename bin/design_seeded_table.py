#!/usr/bin/env python3
"""Regenerate DESIGN.md section 10.3 (which checks catch which seeded changes) from /verif/seeded/*/meta.json"""
import json, glob, os, re
rows = []
for d in sorted(glob.glob("/verif/seeded/*/")):
    mp = os.path.join(d, "meta.json")
    if not os.path.exists(mp):
        continue
    m = json.load(open(mp))
    name = m["name"]
    txt = open(os.path.join(d, "README.md")).read() if os.path.exists(os.path.join(d, "README.md")) else ""
    title = ""
    for l in txt.splitlines():
        if l.startswith("#"):
            title = re.sub(r"^#+\s*", "", l).strip()
            break
    title = re.sub(r"(?i)^(seeded defect|change)\s*\(?[ab]\)?\s*[:–—-]*\s*", "", title)[:150]
    caught = []
    for p, r in m.get("checks", {}).items():
        if r["exit"] == 1:
            caught.append("%s (%s)" % (p, ", ".join("`%s`" % s.split(":", 1)[1] if ":" in s else s for s in r["signatures"][:2])))
    rows.append("| %s | %s | %s | %s |" % (name, title.replace("|", "/"), re.sub(r"\s+", " ", m.get("needs_to_manifest", ""))[:170].replace("|", "/") + "…",
                                         "; ".join(caught) if caught else "**not caught** (see below)"))
table = "| seeded change | what it does | needs, to manifest | caught by (quick tier) |\n|---|---|---|---|\n" + "\n".join(rows)
s = open("/verif/DESIGN.md").read()
a, b = "<!-- seeded-table:begin -->", "<!-- seeded-table:end -->"
if a in s:
    s = s[:s.index(a) + len(a)] + "\n" + table + "\n" + s[s.index(b):]
    open("/verif/DESIGN.md", "w").write(s)
print(len(rows), "rows")
