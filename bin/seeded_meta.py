#!/usr/bin/env python3
"""Complete /verif/seeded/*/meta.json: which property, what the change needs in order to manifest (taken from the
author's README), what was run and with which outcome."""
import json, os, re, glob
for d in sorted(glob.glob("/verif/seeded/*/")):
    mp = os.path.join(d, "meta.json")
    if not os.path.exists(mp):
        continue
    m = json.load(open(mp))
    rd = os.path.join(d, "README.md")
    txt = open(rd).read() if os.path.exists(rd) else ""
    needs, clause = "", ""
    parts = re.split(r"\n(?=#+ )", txt)
    for p in parts:
        head = p.split("\n", 1)[0].lower()
        body = p.split("\n", 1)[1].strip() if "\n" in p else ""
        if ("need" in head or "manifest" in head or "trigger" in head) and not needs:
            needs = re.sub(r"\s+", " ", body)[:900]
        if ("clause" in head or "break" in head) and not clause:
            clause = re.sub(r"\s+", " ", body)[:600]
    if not needs:
        mm = re.search(r"(?is)(what (?:it|is) need[^\n]*|needed to manifest[^\n]*|trigger[^\n]*)\n(.{0,900})", txt)
        needs = re.sub(r"\s+", " ", mm.group(0))[:900] if mm else re.sub(r"\s+", " ", txt)[:600]
    m["breaks"] = clause or ("property %s, see README.md" % m["property"])
    m["needs_to_manifest"] = needs
    m["what_was_run"] = ("scratch worktree of /repo at %s: demo passes without the change (rc %s), patch applies, repository suite with the change "
                         "fails only %s, demo fails with the change (rc %s); then `VERIF_REPO=<worktree> bin/verif check <id> --tier quick` for: %s"
                         % (m.get("base_commit"), m.get("demo_without_change_rc"), m.get("suite_failed_tests_with_change"), m.get("demo_with_change_rc"),
                            ", ".join("%s -> exit %s %s" % (p, r["exit"], r["signatures"][:3]) for p, r in m.get("checks", {}).items())))
    json.dump(m, open(mp, "w"), indent=1)
    print(os.path.basename(d.rstrip("/")), "detected" if m.get("detected") else "MISSED", "|", needs[:110])
