#!/usr/bin/env python3
"""Evaluate a seeded change:  mutant_eval.py <PID> <dir-with patch.diff,demo.rs> <base-commit> [extra PIDs to run...]
1. scratch worktree of /repo at <base-commit>; demo passes without the change
2. apply patch: builds, the repository's suite still passes (except annotation_count), demo fails
3. run /verif checks (quick tier) against the worktree via VERIF_REPO; record exit codes and signatures
4. store /verif/seeded/<name>/{patch.diff,demo.rs,meta.json}; remove the worktree and shadow builds"""
import json, os, re, shutil, subprocess, sys, time

pid, src, base = sys.argv[1], sys.argv[2].rstrip("/"), sys.argv[3]
others = sys.argv[4:]
name = "%s-%s" % (pid, os.path.basename(src))
wt = "/tmp/me-" + name
log = []

def sh(cmd, cwd=None, env=None, timeout=3600):
    e = dict(os.environ)
    if env: e.update(env)
    p = subprocess.run(cmd, shell=True, cwd=cwd, env=e, stdout=subprocess.PIPE, stderr=subprocess.STDOUT, text=True, timeout=timeout)
    return p.returncode, p.stdout

subprocess.run("git -C /repo worktree remove --force %s 2>/dev/null; rm -rf %s" % (wt, wt), shell=True)
rc, out = sh("git -C /repo worktree add -q %s %s" % (wt, base))
assert rc == 0, out
meta = {"property": pid, "name": name, "base_commit": base, "source_dir": src}
try:
    readme = open(os.path.join(src, "README.md")).read() if os.path.exists(os.path.join(src, "README.md")) else ""
    demo_kind = "examples" if re.search(r"examples/demo", readme) and not re.search(r"tests/demo", readme) else "tests"
    demo_name = "seeded_demo"
    shutil.copy(os.path.join(src, "demo.rs"), os.path.join(wt, demo_kind, demo_name + ".rs"))
    democmd = ("cargo test --offline --test %s" if demo_kind == "tests" else "cargo run --offline --example %s") % demo_name
    rc0, out0 = sh(democmd, cwd=wt)
    meta["demo_without_change_rc"] = rc0
    rc, out = sh("git apply %s" % os.path.join(src, "patch.diff"), cwd=wt)
    if rc != 0:
        # the tree has moved on (repairs): fall back to a three-way merge of the patch
        rc, out = sh("git apply --3way %s && git reset -q" % os.path.join(src, "patch.diff"), cwd=wt)
        meta["patch_applied_3way"] = rc == 0
    meta["patch_applies"] = rc == 0
    if rc != 0:
        meta["error"] = out[-500:]
        raise SystemExit
    rc, out = sh("cargo test --offline --no-fail-fast 2>&1 | grep -E '^test result|FAILED|failed' ", cwd=wt)
    fails = sorted(set(re.findall(r"^\s+(\S+)$", "\n".join(l for l in out.splitlines() if not l.startswith("test result")), re.M)))
    rc_full, out_full = sh("cargo test --offline --no-fail-fast 2>&1 | grep -E '^test .* FAILED'", cwd=wt)
    failed_tests = sorted(set(re.findall(r"^test (\S+) \.\.\. FAILED", out_full, re.M)) - {"seeded_demo"})
    meta["suite_failed_tests_with_change"] = [t for t in failed_tests if "demo" not in t and not out_full.count("seeded_demo") > 99]
    rc1, out1 = sh(democmd, cwd=wt)
    meta["demo_with_change_rc"] = rc1
    # the demo's own failing tests show up in the suite run too: subtract them
    demo_tests = set(re.findall(r"^test (\S+) \.\.\. FAILED", out1, re.M))
    meta["suite_failed_tests_with_change"] = sorted(set(failed_tests) - demo_tests)
    os.remove(os.path.join(wt, demo_kind, demo_name + ".rs"))
    results = {}
    for p in [pid] + others:
        t0 = time.time()
        rc, out = sh("bin/verif check %s --tier quick" % p, cwd="/verif", env={"VERIF_REPO": wt})
        sigs = sorted(set(re.findall(r"VIOLATION property=\S+ replay=\S+\s+\[([^\]]+)\]", out)))
        results[p] = {"exit": rc, "signatures": sigs[:12], "wall_s": round(time.time() - t0), "tail": out.splitlines()[-1][:300] if out else ""}
    meta["checks"] = results
    meta["detected"] = any(r["exit"] == 1 for r in results.values())
finally:
    subprocess.run("git -C /repo worktree remove --force %s" % wt, shell=True)
    # shadow dirs are keyed by a hash of the path; remove the ones for this worktree
    import hashlib
    tag = hashlib.sha1(wt.encode()).hexdigest()[:10]
    subprocess.run("rm -rf /verif/.work/shadow-harness-%s /verif/.work/shadow-harness-seq-%s" % (tag, tag), shell=True)
    dst = "/verif/seeded/" + name
    os.makedirs(dst, exist_ok=True)
    for f in ("patch.diff", "demo.rs", "README.md"):
        if os.path.exists(os.path.join(src, f)):
            shutil.copy(os.path.join(src, f), os.path.join(dst, f))
    json.dump(meta, open(os.path.join(dst, "meta.json"), "w"), indent=1)
    print(json.dumps(meta, indent=1))
