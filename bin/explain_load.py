#!/usr/bin/env python3
"""Diagnostic helper: for failing Load verdicts of a Trace_Lifecycle run show knobs, every place the
object number is defined in the file (plain or inside an object stream header) and what lopdf loaded."""
import json, re, sys
def show(o):
    k=o['k']
    if k in('name','str'): return k+repr(bytes(o['v']))
    if k=='arr': return '['+', '.join(show(x) for x in o['v'])+']'
    if k in('dict','stream'): return '<<'+', '.join(repr(bytes(p[0]))+': '+show(p[1]) for p in o['v'])+'>>'+(' stream'+repr(bytes(o['w'])[:80]) if k=='stream' else '')
    if k=='int': return ('-' if o['neg'] else '')+''.join(map(str,o['v']))
    if k=='real': return 'real('+('-' if o['neg'] else '')+''.join(map(str,o['lo']['ip']))+'.'+''.join(map(str,o['lo']['fp']))[:12]+'..)'
    if k=='ref': return '%d %d R'%(o['v'],o['w'])
    return k+str(o.get('v',''))
trace, out, want, limit = sys.argv[1], sys.argv[2], sys.argv[3], int(sys.argv[4]) if len(sys.argv)>4 else 3
recs=[json.loads(l) for l in open(trace)]
n=0
for l in open(out):
    if not l.startswith('<<"VERDICT", '): continue
    v=json.loads(json.loads(l.strip()[len('<<"VERDICT", '):-2]))
    if v['ev']!='Load' or v['v'].startswith('ok'): continue
    kinds=','.join(sorted(v['d'].get('kinds',[])))
    if want not in (kinds+'|'+v['v']+'|'+str(v['d'].get('verbatim'))): continue
    n+=1
    if n>limit: break
    i=v['i']-1; f=recs[i-1]; ld=recs[i]; b=bytes(f['bytes'])
    print('=====', v['v'], kinds, 'verbatim', v['d'].get('verbatim'), 'nums', v['d'].get('nums'), f.get('knobs'), 'prefix', f.get('prefix'), 'len', len(b))
    for num in v['d'].get('nums',[]):
        for m in re.finditer(rb'(?<![0-9])0*%d(\s|%%[^\r\n]*[\r\n])+\d+(\s|%%[^\r\n]*[\r\n])+obj'%num, b):
            st=m.start(); en=b.find(b'endobj', st)
            print('  PLAIN @%d:'%st, b[st:en][:300])
        for m in re.finditer(rb'stream\r?\n((?:\d+\s+\d+\s+)+)', b):
            hdr=m.group(1).split()
            if str(num).encode() in hdr[0::2]:
                en=b.find(b'endstream', m.start())
                print('  IN OBJSTM @%d:'%m.start(), b[m.start():en][:300])
        for o in ld['doc']['objects']:
            if o[0]==num: print('  LOADED:', show(o[2])[:300])
    if 'trailer' in v['v']:
        for m in re.finditer(rb'trailer', b): print('  TRAILER@%d'%m.start(), b[m.start():m.start()+250])
        print('  LOADED trailer:', show({'k':'dict','v':ld['doc']['trailer']})[:300])
