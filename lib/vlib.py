"""Shared machinery for /verif checks: build the harness, run TLC, parse its output, replay /
validate traces, triage against known findings, write evidence.  Python 3 stdlib only."""
import json, os, re, shutil, subprocess, sys, time, hashlib

ROOT = os.path.dirname(os.path.dirname(os.path.abspath(__file__)))
SPEC = os.path.join(ROOT, "spec")
WORK = os.path.join(ROOT, ".work")
EVID = os.path.join(ROOT, "evidence")
REPLAYS = os.path.join(EVID, "replays")
HARNESS = os.path.join(ROOT, "harness")
JAR = "/opt/veriftools/tla/tla2tools.jar:/opt/veriftools/tla/CommunityModules-deps.jar"


class ToolError(Exception):
    """Tool failure / timeout / vacuity: exit 2, never 1."""


def seed():
    try:
        return int(os.environ.get("VERIF_SEED", "1")) & 0x7FFFFFFF
    except ValueError:
        return 1


def log(*a):
    print(*a, flush=True)


def workdir(name):
    # runs against a scratch worktree (VERIF_REPO) get their own directories, so that they cannot collide
    # with a run of the same check against /repo
    repo = os.environ.get("VERIF_REPO", "/repo")
    if repo != "/repo":
        name = "%s-%s" % (name, hashlib.sha1(repo.encode()).hexdigest()[:8])
    d = os.path.join(WORK, name)
    shutil.rmtree(d, ignore_errors=True)
    os.makedirs(d, exist_ok=True)
    return d


# ------------------------------------------------------------------ harness build
_built = {}
REPO = os.environ.get("VERIF_REPO", "/repo")


def _crate_dir(crate):
    """The harness crate depends on /repo by path.  With VERIF_REPO=<dir> (used to try the checks
    against a scratch worktree carrying a seeded change, without touching /repo) a shadow copy of
    the crate is made under .work/ whose path dependency points at <dir>."""
    src = os.path.join(ROOT, crate)
    if REPO == "/repo":
        return src
    tag = hashlib.sha1(REPO.encode()).hexdigest()[:10]
    dst = os.path.join(WORK, "shadow-%s-%s" % (crate, tag))
    os.makedirs(dst, exist_ok=True)
    subprocess.run(["rsync", "-a", "--delete", "--exclude", "target", src + "/", dst + "/"], check=True)
    ct = open(os.path.join(dst, "Cargo.toml")).read().replace('path = "/repo"', 'path = "%s"' % REPO)
    open(os.path.join(dst, "Cargo.toml"), "w").write(ct)
    return dst


def build_harness(bin_name=None, crate="harness"):
    """cargo build --release of the conformance harness against the repository's *current* working
    tree (path dependency; cargo's fingerprinting rebuilds lopdf when its sources changed)."""
    key = (crate, bin_name)
    if key in _built:
        return _built[key]
    cdir = _crate_dir(crate)
    t0 = time.time()
    env = dict(os.environ, CARGO_NET_OFFLINE="true")
    cmd = ["cargo", "build", "--release", "--offline"] + (["--bin", bin_name] if bin_name else ["--bins"])
    p = subprocess.run(cmd, cwd=cdir, env=env, stdout=subprocess.PIPE, stderr=subprocess.STDOUT, text=True)
    if p.returncode != 0:
        sys.stdout.write(p.stdout[-6000:])
        raise ToolError("cargo build failed for %s %s" % (crate, bin_name or ""))
    _built[key] = os.path.join(cdir, "target", "release")
    log("[build] %s %s %.1fs (repo=%s)" % (crate, bin_name or "all bins", time.time() - t0, REPO))
    return _built[key]


def run_bin(name, args, crate="harness", timeout=1800, env=None, check=True, stdin=None):
    d = build_harness(name, crate)
    e = dict(os.environ)
    if env:
        e.update(env)
    t0 = time.time()
    try:
        p = subprocess.run([os.path.join(d, name)] + [str(a) for a in args], stdout=subprocess.PIPE,
                           stderr=subprocess.PIPE, text=True, timeout=timeout, env=e, input=stdin)
    except subprocess.TimeoutExpired:
        raise ToolError("harness %s %s timed out after %ss" % (name, args, timeout))
    if check and p.returncode != 0:
        sys.stdout.write(p.stdout[-3000:])
        sys.stdout.write(p.stderr[-3000:])
        raise ToolError("harness %s %s exited %d" % (name, args, p.returncode))
    log("[harness] %s %s %.1fs" % (name, " ".join(str(a) for a in args)[:200], time.time() - t0))
    return p


# ------------------------------------------------------------------ TLC
class TLCResult:
    def __init__(self):
        self.generated = 0
        self.distinct = 0
        self.depth = 0
        self.prints = []      # raw printed lines that look like <<"TAG", ...>>
        self.violation = None  # name of violated invariant / property, or "deadlock", or error text
        self.error = None
        self.raw = ""
        self.coverage = {}    # action name -> (distinct, total)
        self.wall = 0.0
        self.cmd = ""

    def tagged(self, tag):
        """JSON payloads of lines <<"TAG", "json...">> printed through PrintT/ToJson."""
        out = []
        pre = '<<"%s", ' % tag
        for l in self.prints:
            if l.startswith(pre) and l.endswith(">>"):
                body = l[len(pre):-2]
                try:
                    out.append(json.loads(json.loads(body)))
                except Exception:
                    raise ToolError("unparsable %s line: %s" % (tag, l[:300]))
        return out


def tlc(module, cfg=None, cwd=SPEC, workers=4, simulate=None, depth=None, coverage=False, env=None,
        timeout=900, xmx="4g", deque=False, name=None, extra=None, fp_seed=True, allow_violation=False,
        seed_override=None):
    """Run TLC on spec/<module>.tla with <cfg>.  Returns TLCResult.  Raises ToolError on tool
    failures (parse error, timeout, evaluation error) unless allow_violation and it is an invariant
    violation."""
    name = name or (os.path.splitext(os.path.basename(cfg or module))[0])
    meta = workdir("tlc-%s-%d" % (name, os.getpid()))
    jopts = "-Xss1g"
    if deque:
        jopts += " -Dtlc2.tool.queue.IStateQueue=StateDeque"
    e = dict(os.environ)
    e["JAVA_TOOL_OPTIONS"] = jopts
    if env:
        e.update({k: str(v) for k, v in env.items()})
    cmd = ["java", "-XX:+UseParallelGC", "-Xmx" + xmx, "-cp", JAR, "tlc2.TLC", "-workers", str(workers),
           "-metadir", meta, "-cleanup", "-noGenerateSpecTE"]
    if cfg:
        cmd += ["-config", cfg]
    if simulate:
        cmd += ["-simulate", "num=%d" % simulate]
    if depth:
        cmd += ["-depth", str(depth)]
    if simulate or fp_seed:
        cmd += ["-seed", str(seed_override if seed_override is not None else seed())]
    if coverage:
        cmd += ["-coverage", "1"]
    if extra:
        cmd += extra
    cmd += [module]
    r = TLCResult()
    r.cmd = " ".join(cmd)
    t0 = time.time()
    try:
        p = subprocess.run(cmd, cwd=cwd, env=e, stdout=subprocess.PIPE, stderr=subprocess.STDOUT, text=True,
                           timeout=timeout)
    except subprocess.TimeoutExpired:
        raise ToolError("TLC timeout after %ss: %s" % (timeout, r.cmd))
    r.wall = time.time() - t0
    r.raw = p.stdout
    shutil.rmtree(meta, ignore_errors=True)
    for l in p.stdout.splitlines():
        if l.startswith('<<"'):
            r.prints.append(l)
            continue
        m = re.match(r"^(\d+) states generated, (\d+) distinct states found", l)
        if m:
            r.generated, r.distinct = int(m.group(1)), int(m.group(2))
        m = re.match(r"^The depth of the complete state graph search is (\d+)", l)
        if m:
            r.depth = int(m.group(1))
        m = re.match(r"^Error: Invariant (\S+) is violated", l)
        if m:
            r.violation = m.group(1)
        m = re.match(r"^Error: Action property (\S+) is violated", l)
        if m:
            r.violation = m.group(1)
        if l.startswith("Error: Temporal properties were violated"):
            r.violation = "temporal"
        if l.startswith("Error: Deadlock reached"):
            r.violation = "deadlock"
        m = re.match(r"^<(\w+) line \d+, col \d+ to line \d+, col \d+ of module (\w+)>: (\d+):(\d+)", l)
        if m:
            a = m.group(1)
            d0, t00 = r.coverage.get(a, (0, 0))
            r.coverage[a] = (d0 + int(m.group(3)), t00 + int(m.group(4)))
        m = re.match(r"^Progress\(\d+\) at .*: (\d+) states generated.*, (\d+) distinct states found", l)
        if m and simulate is None:
            r.generated, r.distinct = max(r.generated, int(m.group(1))), max(r.distinct, int(m.group(2)))
    if simulate:
        # simulation mode reports "The number of states generated: N"
        m = re.search(r"The number of states generated: (\d+)", p.stdout)
        if m:
            r.generated = r.distinct = int(m.group(1))
    log("[tlc] %s cfg=%s: %d generated, %d distinct, depth %d, %.1fs%s" % (
        module, cfg, r.generated, r.distinct, r.depth, r.wall,
        (" (TLC refuted " + r.violation + ")") if r.violation else ""))   # never the interface's keyword: this is a log line
    if r.violation and allow_violation:
        return r
    bad = r.violation or p.returncode != 0
    if bad:
        errs = [l for l in p.stdout.splitlines() if "Error" in l or "error" in l or "Exception" in l]
        tail = "\n".join(p.stdout.splitlines()[-60:])
        r.error = "\n".join(errs[:20])
        sys.stdout.write(tail + "\n")
        raise ToolError("TLC failed on %s (%s): rc=%d %s" % (module, cfg, p.returncode, r.violation or r.error[:300]))
    return r


def sany(module, cwd=SPEC):
    p = subprocess.run(["java", "-cp", JAR, "tla2sany.SANY", module], cwd=cwd, stdout=subprocess.PIPE,
                       stderr=subprocess.STDOUT, text=True)
    if p.returncode != 0 or "Semantic errors" in p.stdout or "*** Errors" in p.stdout or "Could not parse" in p.stdout:
        sys.stdout.write(p.stdout[-3000:])
        raise ToolError("SANY rejects " + module)


def require_coverage(r, actions):
    """Anti-vacuity: every named action must have been taken."""
    missing = [a for a in actions if r.coverage.get(a, (0, 0))[1] == 0]
    if missing:
        raise ToolError("vacuous model run: actions never taken: %s" % missing)


# ------------------------------------------------------------------ ndjson
def write_ndjson(path, items):
    with open(path, "w") as f:
        for it in items:
            f.write(json.dumps(it, separators=(",", ":")))
            f.write("\n")


def read_ndjson(path):
    out = []
    with open(path) as f:
        for l in f:
            l = l.strip()
            if l:
                out.append(json.loads(l))
    return out


# ------------------------------------------------------------------ known findings
def load_known(pid):
    """known_findings/<PID>.json: {"findings": [{"property","signature","what","trigger"}...],
    "fixed": ["fixed: property=<id> <commit> <what failed>", ...]}.  Read-only at run time."""
    p = os.path.join(ROOT, "known_findings", pid + ".json")
    if not os.path.exists(p):
        return {"findings": [], "fixed": []}
    with open(p) as f:
        return json.load(f)


class Check:
    """One run of one property's check: collects model-checking numbers, validated traces,
    violations (triaged against known_findings.json by signature) and writes the evidence."""

    def __init__(self, pid, level, tier):
        self.pid = pid
        self.level = level
        self.tier = tier
        self.t0 = time.time()
        self.states = 0
        self.transitions = 0
        self.traces = 0
        self.evaluations = 0
        self.distinct_keys = set()
        self.samples = []
        self.violations = []   # (signature, detail dict)
        self.known_seen = {}
        self.extra = {}
        self.assumptions = []
        self.rule = ""
        self.exhaustive = None
        known = load_known(pid)
        self.known = {f["signature"]: f for f in known.get("findings", []) if f.get("property") == pid}
        os.makedirs(REPLAYS, exist_ok=True)

    def add_tlc(self, r):
        self.states += r.distinct
        self.transitions += r.generated

    def sample(self, s, cap=6):
        if len(self.samples) < cap:
            self.samples.append(s)

    def case(self, key=None):
        self.evaluations += 1
        if key is not None:
            self.distinct_keys.add(key if isinstance(key, (str, int, tuple)) else
                                   hashlib.sha1(json.dumps(key, sort_keys=True).encode()).hexdigest())

    def violation(self, signature, detail):
        """signature: narrow class of the failing case (DESIGN 2.9).  Listed signatures are known
        findings (reported, run continues, exit 0); anything else is a VIOLATION."""
        if signature in self.known:
            self.known_seen.setdefault(signature, []).append(detail)
        else:
            self.violations.append((signature, detail))

    def finish(self):
        wall = time.time() - self.t0
        for sig, dets in sorted(self.known_seen.items()):
            log("KNOWN-FINDING: property=%s %s (%s; %d case(s) this run)" % (
                self.pid, sig, self.known[sig].get("what", ""), len(dets)))
        cov = {
            "samples": self.samples or ["(no samples)"],
            "rule": self.rule,
            "evaluations": max(self.evaluations, 0),
            "distinct_nontrivial": len(self.distinct_keys),
            "known_findings_seen": {k: len(v) for k, v in self.known_seen.items()},
        }
        if self.level == "model_checking":
            cov["states"] = self.states
            cov["transitions"] = self.transitions
            cov["traces_validated_against_impl"] = self.traces
        if self.exhaustive is not None:
            cov["exhaustive"] = self.exhaustive
        cov.update(self.extra)
        ev = {
            "property_id": self.pid, "tier": self.tier, "seed": seed(), "level": self.level,
            "coverage": cov, "assumptions": self.assumptions, "wall_s": round(wall, 2),
            "violations": len(self.violations),
        }
        rc = 0
        if self.violations:
            rc = 1
            seen = set()
            for i, (sig, det) in enumerate(self.violations):
                if sig in seen and i > 50:
                    continue
                seen.add(sig)
                path = os.path.join(REPLAYS, "%s-%d.json" % (self.pid, i))
                with open(path, "w") as f:
                    json.dump({"property": self.pid, "signature": sig, "seed": seed(), "detail": det}, f, indent=1)
                if i < 20:
                    log("VIOLATION property=%s replay=%s  [%s]" % (self.pid, path, sig))
            log("%s: %d violation(s) not listed in known_findings.json" % (self.pid, len(self.violations)))
        os.makedirs(EVID, exist_ok=True)
        with open(os.path.join(EVID, self.pid + ".json"), "w") as f:
            json.dump(ev, f, indent=1)
        log("[%s] tier=%s states=%d traces=%d evaluations=%d distinct=%d violations=%d known=%d wall=%.1fs" % (
            self.pid, self.tier, self.states, self.traces, self.evaluations, len(self.distinct_keys),
            len(self.violations), sum(len(v) for v in self.known_seen.values()), wall))
        return rc


# ------------------------------------------------------------------ trace validation helper
def validate_trace(module, cfg, records, name, boundaries=None, chunks=1, timeout=1800, xmx="3g", tag="VERDICT"):
    """impl -> spec: write `records` as ndjson, let TLC (Trace_* spec) judge them, return the list of
    verdict dicts in record order (verdict["i"] is rewritten to the 0-based index into `records`).
    With chunks > 1 the records are split at `boundaries` (indices where a new independent run
    starts, e.g. Reset events) and validated by several single-worker TLC processes in parallel.
    Returns (verdicts, states, transitions)."""
    from concurrent.futures import ThreadPoolExecutor
    w = workdir("trace-" + name)
    if not records:
        return [], 0, 0
    if boundaries is None or chunks <= 1:
        cuts = [0, len(records)]
    else:
        bs = sorted(set([0] + [b for b in boundaries if 0 < b < len(records)]))
        per = max(1, len(bs) // chunks)
        cuts = [bs[i] for i in range(0, len(bs), per)]
        cuts = cuts[:chunks] + [len(records)] if len(cuts) > chunks else cuts + [len(records)]
    parts = [(cuts[i], cuts[i + 1]) for i in range(len(cuts) - 1) if cuts[i] < cuts[i + 1]]

    def one(k):
        lo, hi = parts[k]
        path = os.path.join(w, "part%d.ndjson" % k)
        write_ndjson(path, records[lo:hi])
        r = tlc(module, cfg, workers=1, env={"TRACE": path}, deque=True, timeout=timeout, xmx=xmx,
                name="%s-%d" % (name, k))
        vs = r.tagged(tag)
        for v in vs:
            v["i"] = v["i"] - 1 + lo
        return vs, r.distinct, r.generated

    with ThreadPoolExecutor(max_workers=min(len(parts), 12)) as ex:
        res = list(ex.map(one, range(len(parts))))
    verdicts = [v for vs, _, _ in res for v in vs]
    verdicts.sort(key=lambda v: v["i"])
    return verdicts, sum(d for _, d, _ in res), sum(g for _, _, g in res)
