//! C08: load every file with a lopdf built without rayon and print the digest of the projection.
#[path = "/verif/harness/src/wire.rs"]
#[allow(dead_code)]
mod wire;
#[path = "/verif/harness/src/flt.rs"]
#[allow(dead_code)]
mod flt;
use serde_json::{json, Value};
use std::io::{BufRead, Write};

pub fn fnv(s: &str) -> String {
    let mut h: u64 = 0xcbf29ce484222325;
    for b in s.bytes() {
        h ^= b as u64;
        h = h.wrapping_mul(0x100000001b3);
    }
    format!("{h:016x}")
}

fn main() {
    let args: Vec<String> = std::env::args().collect();
    let inp = std::fs::File::open(&args[1]).expect("open input");
    let nflt: usize = args.get(3).and_then(|s| s.parse().ok()).unwrap_or(0);
    let mut out = std::io::BufWriter::new(std::fs::File::create(&args[2]).expect("create output"));
    for (i, l) in std::io::BufReader::new(inp).lines().enumerate() {
        let l = l.unwrap();
        if l.trim().is_empty() {
            continue;
        }
        let c: Value = serde_json::from_str(&l).unwrap();
        let bytes = wire::json_to_bytes(&c["bytes"]);
        let r = std::panic::catch_unwind(|| lopdf::Document::load_mem(&bytes));
        let rec = match r {
            Ok(Ok(d)) => json!({"file": i, "res": "ok", "hash": fnv(&wire::doc_to_json(&d).to_string())}),
            Ok(Err(e)) => json!({"file": i, "res": format!("err:{e:?}"), "hash": "-"}),
            Err(_) => json!({"file": i, "res": "panic", "hash": "-"}),
        };
        writeln!(out, "{}", rec).unwrap();
        // filtered loading with the same pure filters (see flt.rs)
        if i < nflt {
            if let Ok(Ok(plain)) = std::panic::catch_unwind(|| lopdf::Document::load_mem(&bytes)) {
                let deferred = !lopdf::verif_hooks::observed_deferred_order().is_empty();
                for k in 0..flt::NFILTERS {
                    let ghosts: Vec<u32> = match flt::expectation(&plain, k, deferred) {
                        Some(e) => e["ghosts"].as_array().unwrap().iter().map(|x| x.as_u64().unwrap() as u32).collect(),
                        None => continue,
                    };
                    let rec = match std::panic::catch_unwind(|| flt::load_filtered(&bytes, k)) {
                        Ok(r) => {
                            let (res, hash, _, _) = flt::outcome(r, &ghosts);
                            json!({"file": 200000 + i * 8 + k, "res": res, "hash": hash})
                        }
                        Err(_) => json!({"file": 200000 + i * 8 + k, "res": "panic", "hash": "-"}),
                    };
                    writeln!(out, "{}", rec).unwrap();
                }
            }
        }
    }
}
