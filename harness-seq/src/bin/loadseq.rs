//! Load every {"bytes": [...]} of the input ndjson with a lopdf built WITHOUT rayon (sequential
//! reader) and write {"res", "doc": pi(document)} per line (C01: "x default features or
//! no-default-features").
#[path = "/verif/harness/src/wire.rs"]
#[allow(dead_code)]
mod wire;
use serde_json::{json, Value};
use std::io::{BufRead, Write};

fn main() {
    let args: Vec<String> = std::env::args().collect();
    let inp = std::fs::File::open(&args[1]).expect("open input");
    let mut out = std::io::BufWriter::new(std::fs::File::create(&args[2]).expect("create output"));
    std::panic::set_hook(Box::new(|_| {}));
    for l in std::io::BufReader::new(inp).lines() {
        let l = l.unwrap();
        if l.trim().is_empty() {
            continue;
        }
        let c: Value = serde_json::from_str(&l).unwrap();
        let bytes = wire::json_to_bytes(&c["bytes"]);
        let rec = match std::panic::catch_unwind(|| lopdf::Document::load_mem(&bytes)) {
            Ok(Ok(d)) => json!({"res": "ok", "doc": wire::doc_to_tla(&d)}),
            Ok(Err(e)) => json!({"res": format!("err:{e:?}"), "doc": wire::doc_to_tla(&lopdf::Document::new())}),
            Err(_) => json!({"res": "panic", "doc": wire::doc_to_tla(&lopdf::Document::new())}),
        };
        writeln!(out, "{}", rec).unwrap();
    }
}
