"""Generate /verif/MANIFEST.json from the META blocks of checks/cNN.py (bin/verif manifest)."""
import json, os
import vlib

NOT_YET = "no check is registered for this property yet (machinery under construction; see DESIGN.md section 8)"


def write(ids, load):
    props = [json.loads(l)["id"] for l in open(os.path.join(vlib.ROOT, "properties.jsonl")) if l.strip()]
    checks, na = [], []
    hooks_file = os.path.join(vlib.ROOT, "hooks.json")
    hooks = json.load(open(hooks_file)) if os.path.exists(hooks_file) else {}
    for pid in props:
        if pid in ids:
            m = load(pid).META
            if m.get("not_applicable"):
                na.append({"property_id": pid, "reason": m["not_applicable"]})
                continue
            checks.append({
                "property_id": pid,
                "quick_cmd": "bin/verif check %s --tier quick" % pid,
                "thorough_cmd": "bin/verif check %s --tier thorough" % pid,
                "evidence_file": "/verif/evidence/%s.json" % pid,
                "replay_cmd_template": "bin/verif replay %s {path}" % pid,
                "engine": "tlc+lopdf-conform",
                "level_claimed": {"category": m["level"], "text": m["text"], "design_ref": m.get("design_ref", "DESIGN.md section 4")},
                "level_note": m["note"],
                "technique": m["technique"],
            })
        else:
            na.append({"property_id": pid, "reason": NOT_YET})
    man = {
        "version": 1,
        "setup_cmd": "bin/verif setup",
        "hooks": {
            "guard": "lopdf_verif",
            "enable": "RUSTFLAGS --cfg lopdf_verif, set in /verif/harness/.cargo/config.toml (the harness depends on /repo by path)",
            "baseline_off_cmd": "cd /repo && cargo nextest run --workspace --no-fail-fast --tool-config-file pb:/w/lib/nextest.toml --profile pb --test-threads 8 --offline || cargo test --workspace --no-fail-fast --offline",
            "source_commits": hooks.get("source_commits", []),
            "add_only": True,
        },
        "engines": [{
            "name": "tlc+lopdf-conform", "path": "/verif/bin/verif",
            "serves_properties": [c["property_id"] for c in checks],
            "kind_free_text": "TLA+ specification in /verif/spec checked by TLC; Rust conformance harness /verif/harness replays TLC-generated behaviours into lopdf and records lopdf runs that TLC validates against the specification",
        }],
        "checks": checks,
        "not_applicable": na,
        "notes": "All verdicts come from the TLA+ specification (spec/*.tla): TLC model-checks the design, generates the behaviours replayed into lopdf and judges the traces recorded from lopdf. Exit codes: 0 held, 1 VIOLATION (+replay file), 2 tool error/timeout/vacuity.",
    }
    with open(os.path.join(vlib.ROOT, "MANIFEST.json"), "w") as f:
        json.dump(man, f, indent=1)
    print("MANIFEST.json: %d checks, %d not_applicable" % (len(checks), len(na)))
