"""C15 — ToUnicode CMaps decode text as the CMap defines."""
import json, os, hashlib
from concurrent.futures import ThreadPoolExecutor
import vlib
from vlib import Check, tlc, run_bin, workdir, write_ndjson, read_ndjson, log

META = {
    "property_id": "C15",
    "level": "model_checking",
    "technique": "TLA+ spec (CMap: declarative Lookup/Text, legal spellings and font dictionaries vs. interval maps with "
                 "RangeInclusiveMap::insert semantics, the grammar's per-gap combinators and get_font_encoding's match) model-checked "
                 "by TLC; every TLC-enumerated definition sequence is rendered as CMap program text by the spec and replayed into "
                 "lopdf (get_font_encoding + decode_text); recorded lopdf decodings of random tables are judged by Trace_CMap",
    "text": "TLC enumerates every sequence of up to 3 bfchar/bfrange definitions (one-unit, multi-unit and array targets, every "
            "overlap / adjacency / order pattern, equal values on touching ranges) over small code spaces and checks that the "
            "interval-map model of ToUnicodeCMap refines 'the last covering definition wins'. A second dimension of the same "
            "model is the spelling of the CMap program and the font dictionary that carries it: the Producer of the spec writes "
            "the program as tokens with classified gaps, and every state carries one style - a separator (none where a delimiter "
            "allows it, blank, tab, LF, CR, CRLF, FF, NUL, comment, mixtures) at every gap of one class (prolog, CMap dictionary, "
            "codespace section, count/operator/operands/entries/arrays/section end, trailer, end of stream), white space at one "
            "position inside the hexadecimal strings, a section with zero entries, further CMap dictionary entries, or one of 17 "
            "/Encoding forms next to /ToUnicode (absent, Identity-H/V, the base encodings, predefined CMap names, dictionaries "
            "with Differences, an embedded CMap stream). The impl-shaped layer carries lopdf's combinator for every gap and the "
            "match of get_font_encoding; as repaired it takes every legal style, as the code is it refuses exactly the listed "
            "classes. Each enumerated case is emitted as program text with the text the declarative layer defines, stored as the "
            "ToUnicode stream of such a font and decoded by lopdf code by code and as one string. Seeded random tables (1-4 byte "
            "codes incl. 00000000/FFFFFFFF, astral and multi-unit targets, arrays, up to 250 entries, random sectioning, hex case, "
            "tolerated white-space, and in one record of two one random style) are decoded by lopdf and judged by TLC with the "
            "declarative layer only.",
    "note": "Trusted: TLC, CMap!Lookup/Text as a reading of ISO 32000-1 9.10.3, white space as ISO 32000-1 7.2.2 / PLRM 3.2, the "
            "harness's renderer (its output is what the trace spec judges: the logged definition list is the rendered one). "
            "Exhaustive only within the model bounds (<=3 definitions, <=4 codes per length, lengths 1-3; styles with <=2 "
            "definitions); beyond that sampled. Outside the asserted domain (not generated): usecmap, a CMap dictionary without "
            "any of /CIDSystemInfo /CMapName /CMapType, 1-byte, empty or odd-byte-count targets, hexadecimal strings with an odd "
            "number of digits, CMaps that map codes outside their codespace ranges, white space inside the CIDSystemInfo "
            "dictionary. No -coverage on the runs that involve the Producer (TLC's cost model inlines its call graph); "
            "MC_CMap_cov.cfg is the coverage run.",
    "design_ref": "DESIGN.md section 4 C15",
}

CLASSES_REQUIRED = ["single.plain", "multi.plain", "array.plain", "single.split", "multi.split", "array.split",
                    "multi.coalesce", "array.coalesce"]
MC_ACTIONS = ["AddChar", "AddRangeStr", "AddRangeArr"]
# CMap!StyleClass: the respects in which a program / font dictionary may depart from the tolerated spelling
STYLE_CLASSES = ["canon", "grammar.blank", "grammar.sep.bf", "grammar.sep.hdr", "grammar.hex-ws", "grammar.ff-nul",
                 "grammar.empty-section", "grammar.hdr-form", "grammar.hdr-key",
                 "font.enc.identity", "font.enc.base", "font.enc.cmapname", "font.enc.dict"]
# style classes in which the grammar / get_font_encoding as the code is does not get to the CMap (Dev_gram = TRUE in
# the *_asis cfgs; each is a listed finding until its fix: commit, then the switch of that class goes to FALSE)
GRAMMAR_KNOWN = set()          # all repaired (72f099a cca7710 c0049ff 2ef923d be2ac33 8be579a f484824)
# classes of the repaired defects (fix: 3c7db25 range base, 4a2d879 BOM); none is a known finding any more, they only
# name a regression
FORMER_INTERVAL = {"multi.split", "multi.coalesce", "array.split", "array.coalesce"}


def hexs(bs):
    return "".join("%02X" % b for b in bs)


def show_def(d):
    """definition as emitted by TLC (MC) -> one line of text"""
    t = d["t"]
    tgt = ("<" + "".join("%04X" % u for u in t["u"]) + ">") if t["k"] == "str" else \
        "[" + " ".join("<" + "".join("%04X" % u for u in e) + ">" for e in t["a"]) + "]"
    n = d["len"]
    return "%s <%0*X>..<%0*X> %s" % (d["kind"], 2 * n, d["lo"], 2 * n, d["hi"], tgt)


def show_jdef(d):
    """definition as logged by the record driver"""
    tgt = ("<" + "".join("%04X" % u for u in d["u"]) + ">") if d["k"] == "str" else \
        "[" + " ".join("<" + "".join("%04X" % u for u in e) + ">" for e in d["a"]) + "]"
    return "%s <%s>..<%s> %s" % (d["kind"], hexs(d["lo"]), hexs(d["hi"]), tgt)


def pick_sig(chk, cls, suffix=""):
    """cls is CMap!CaseClass: interval class, optionally '+text.bom'.  A failing code is attributed to
    the first of its classes that is a listed finding, else to its interval class."""
    parts = cls.split("+")
    for p in parts:
        if "C15:" + p + suffix in chk.known:
            return "C15:" + p + suffix
    # a code whose interval class never was a finding but whose target starts with a byte order mark: the (repaired)
    # BOM sniffing is the narrower name
    if "text.bom" in parts[1:] and parts[0] not in FORMER_INTERVAL and not suffix:
        return "C15:text.bom"
    return "C15:" + parts[0] + suffix


def style_sig(chk, sc, suffix=""):
    """sc is CMap!StyleClass; a separator that mixes line ends / comments with FF / NUL has two classes ("a+b") and is
    attributed to the first of them that is a listed finding"""
    parts = sc.split("+")
    for p in parts:
        if "C15:" + p + suffix in chk.known:
            return "C15:" + p + suffix
    return "C15:" + parts[0] + suffix


def got_value(g):
    return [-1] if g["p"] == 1 else ([-2] if g["p"] != 0 else g["chars"])


def judge_replay(chk, cases, results, cover):
    """Compare lopdf with what the declarative layer computed in TLC.  Signature = input class of
    the failing code (CMap!CaseClass); it only matches a listed finding when lopdf's wrong answer is
    the one the impl-shaped layer predicts."""
    for c, r in zip(cases, results):
        chk.case(hashlib.sha1((c["f"] + c["t"]).encode()).hexdigest())
        defs = [show_def(d) for d in c["d"]]
        sc = c["sc"]
        for part in sc.split("+"):
            cover["style:" + part] = cover.get("style:" + part, 0) + 1
        if sc != "canon":
            # a case that departs from the tolerated spelling / font dictionary in one respect (CMap!sty): whatever
            # goes wrong is put down to that respect (the same definitions are replayed in the tolerated spelling too);
            # the class is a listed finding only when the impl-shaped layer predicts that lopdf does not get to the CMap
            ok = (not r["err"] and len(r["per"]) == len(c["c"])
                  and all(g["p"] == 0 and g["chars"] == e for g, e in zip(r["per"], c["e"]))
                  and r["whole"]["p"] == 0 and r["whole"]["chars"] == c["w"])
            if ok:
                if not c["ma"]:
                    chk.extra["model_drift"] = chk.extra.get("model_drift", 0) + 1
            else:
                chk.violation(style_sig(chk, sc, "" if not c["ma"] else ".unmodelled"),
                              {"defs": defs, "style": c["s"], "font_encoding": c["f"], "program": c["t"],
                               "lopdf": r["err"] or {"encoding": r.get("encv"), "per_code": [got_value(g) for g in r["per"]]},
                               "expected_chars": c["e"], "model_accepts": c["ma"]})
            chk.traces += 1
            continue
        if r["err"]:
            chk.violation("C15:no-encoding", {"defs": defs, "program": c["t"], "lopdf": r["err"]})
            continue
        if len(r["per"]) != len(c["c"]):
            raise vlib.ToolError("replay result has %d codes, case has %d" % (len(r["per"]), len(c["c"])))
        bad = 0
        for i, code in enumerate(c["c"]):
            g, exp, cls, model, old = r["per"][i], c["e"][i], c["k"][i], c["m"][i], c["o"][i]
            cover[cls] = cover.get(cls, 0) + 1
            if g["p"] == 0 and g["chars"] == exp:
                if model != exp:
                    chk.extra["model_drift"] = chk.extra.get("model_drift", 0) + 1
                continue
            bad += 1
            gv = got_value(g)
            # the plain class signature only when lopdf's wrong answer is the one the impl-shaped layer predicts as the
            # code is, or the one the repaired defect of that class produced (a regression)
            exact = gv == model or (gv == old and cls.split("+")[0] in FORMER_INTERVAL)
            chk.violation(pick_sig(chk, cls, "" if exact else ".unmodelled"), {"defs": defs, "code": hexs(code), "expected_chars": exp, "lopdf": gv,
                                "lopdf_msg": g["msg"], "model_as_code_is": model, "program": c["t"]})
        w = r["whole"]
        if not (w["p"] == 0 and w["chars"] == c["w"]):
            any_p = any(g["p"] != 0 for g in r["per"])
            cat = [x for g in r["per"] for x in g["chars"]]
            explained = bad > 0 and ((w["p"] != 0) if any_p else (w["p"] == 0 and w["chars"] == cat))
            if not explained:
                chk.violation("C15:segmentation", {"defs": defs, "codes": [hexs(x) for x in c["c"]],
                                                   "expected_chars": c["w"], "lopdf": got_value(w), "program": c["t"]})
        chk.traces += 1


def mc_emit(chk, cfg, tier, w, cover):
    # no -coverage here: TLC's cost model inlines the Producer's call graph (minutes for a handful of states);
    # the actions taken are read off the emitted definitions below, and MC_CMap_cov.cfg is the coverage run
    r = tlc("MC_CMap.tla", cfg, workers=4 if tier == "quick" else 12, coverage=False, timeout=3000,
            xmx="4g" if tier == "quick" else "8g")
    chk.add_tlc(r)
    cases = r.tagged("REPLAY")
    for c in cases:
        d = c["d"][-1]
        a = "AddChar" if d["kind"] == "char" else ("AddRangeStr" if d["t"]["k"] == "str" else "AddRangeArr")
        cover["action:" + a] = cover.get("action:" + a, 0) + 1
    if not cases:
        raise vlib.ToolError("generator produced no cases")
    tag = os.path.splitext(cfg)[0]
    cin, cout = os.path.join(w, tag + ".ndjson"), os.path.join(w, tag + ".out.ndjson")
    write_ndjson(cin, [{"t": c["t"], "c": c["c"], "f": c["f"]} for c in cases])
    run_bin("c15", ["replay", "--in", cin, "--out", cout])
    results = read_ndjson(cout)
    if len(results) != len(cases):
        raise vlib.ToolError("replay lost cases")
    # deviations of the model "as the code is" from the declarative layer, by class (none since the repairs)
    dev = {}
    for c in cases:
        for e, m, k in zip(c["e"], c["m"], c["k"]):
            if e != m:
                dev[k] = dev.get(k, 0) + 1
        if not c["ma"]:
            chk.extra.setdefault("model_rejections_by_style_class", {})
            d = chk.extra["model_rejections_by_style_class"]
            for part in c["sc"].split("+"):
                d[part] = d.get(part, 0) + 1
    chk.extra.setdefault("model_counterexamples_by_class", {})
    for k, v in dev.items():
        chk.extra["model_counterexamples_by_class"][k] = chk.extra["model_counterexamples_by_class"].get(k, 0) + v
    judge_replay(chk, cases, results, cover)
    mid = len(cases) // 2
    chk.sample({"generated_defs": [show_def(d) for d in cases[mid]["d"]], "codes": [hexs(x) for x in cases[mid]["c"]],
                "spec_text": cases[mid]["w"], "lopdf_text": results[mid]["whole"]["chars"]})
    chk.extra["replayed_behaviours"] = chk.extra.get("replayed_behaviours", 0) + len(cases)
    return r


def mc_plain(cfg, tier):
    return tlc("MC_CMap.tla", cfg, workers=4 if tier == "quick" else 12, coverage=False, timeout=3000,
               xmx="4g" if tier == "quick" else "8g")


def run(tier):
    chk = Check("C15", META["level"], tier)
    chk.rule = ("one case = one CMap program (TLC-enumerated definition sequence, or seeded random table) decoded by lopdf code "
                "by code and as a whole string; distinct by program text")
    w = workdir("c15")
    chk.extra["model_drift"] = 0
    quick = tier == "quick"
    asis = ["MC_CMap_quick_asis.cfg", "MC_CMap_quick2_asis.cfg", "MC_CMap_gram_asis.cfg", "MC_CMap_font_asis.cfg"] + ([] if quick else ["MC_CMap_thorough_asis.cfg", "MC_CMap_thorough4_asis.cfg", "MC_CMap_thorough3_asis.cfg", "MC_CMap_gram_thorough_asis.cfg"])
    fixed = ["MC_CMap_quick_fixed.cfg", "MC_CMap_quick2_fixed.cfg", "MC_CMap_gram_fixed.cfg", "MC_CMap_font_fixed.cfg"] + ([] if quick else ["MC_CMap_thorough_fixed.cfg", "MC_CMap_thorough4_fixed.cfg", "MC_CMap_thorough3_fixed.cfg", "MC_CMap_gram_thorough_fixed.cfg"])

    vlib.build_harness("c15")
    # (M) the same models without Emit (kept from before the repair, when the *_asis cfgs had the deviations on):
    # Refines holds - these runs print nothing, so they go to the background
    pool = ThreadPoolExecutor(max_workers=2)
    fut = [pool.submit(mc_plain, cfg, tier) for cfg in fixed]
    # (V) recording runs in the background as well
    n = 300 if quick else 3000
    tr = os.path.join(w, "trace.ndjson")
    frec = pool.submit(run_bin, "c15", ["record", "--seed", vlib.seed(), "--n", n, "--out", tr])

    # (M)+(G) "as the code is" (Dev_h34 = Dev_h35 = FALSE since the repair): Refines holds; all cases replayed
    cover = {}
    for cfg in asis:
        mc_emit(chk, cfg, tier, w, cover)
    chk.exhaustive = True
    missing = [c for c in CLASSES_REQUIRED + ["style:" + x for x in STYLE_CLASSES] + ["action:" + a for a in MC_ACTIONS]
               if cover.get(c, 0) == 0]
    if missing:
        raise vlib.ToolError("vacuous: no generated code of class %s" % missing)
    chk.extra["replayed_codes_by_class"] = dict(sorted(cover.items()))
    mdev = chk.extra.get("model_counterexamples_by_class", {})
    if mdev:
        raise vlib.ToolError("the model as the code is deviates from the declarative layer: %s" % mdev)
    mrej = chk.extra.get("model_rejections_by_style_class", {})
    if not set(mrej) <= GRAMMAR_KNOWN:
        raise vlib.ToolError("the grammar model as the code is rejects a style class that is not listed: %s" % mrej)

    # (M) negative control of Refines: with the repaired defects seeded back into the model (MC_CMap_cex: Dev_h34,
    # Dev_h35 on) strict Refines must fail, in one of the four former classes
    r = tlc("MC_CMap.tla", "MC_CMap_cex.cfg", workers=1, allow_violation=True, timeout=600)
    cex = r.tagged("CEX")
    if r.violation != "RefinesCex" or not cex:
        raise vlib.ToolError("model with the repaired defects seeded back: expected counter-example to Refines not found (%s)" % r.violation)
    if not set(cex[0]["k"]) <= FORMER_INTERVAL:
        raise vlib.ToolError("model counter-example outside the former classes: %s" % cex[0])
    chk.extra["seeded_defect_counterexample"] = {"defs": [show_def(d) for d in cex[0]["d"]], "classes": cex[0]["k"]}
    chk.add_tlc(r)

    for f, cfg in zip(fut, fixed):
        rf = f.result()
        if rf.distinct == 0:
            raise vlib.ToolError("no states explored with %s" % cfg)
        chk.add_tlc(rf)
    # (B) action coverage as TLC reports it (a configuration whose invariants do not involve the Producer)
    rc = tlc("MC_CMap.tla", "MC_CMap_cov.cfg", workers=2, coverage=True, timeout=600)
    vlib.require_coverage(rc, MC_ACTIONS)
    chk.add_tlc(rc)

    # (V) recorded lopdf runs judged by the declarative layer
    frec.result()
    recs = read_ndjson(tr)
    verdicts = validate(chk, tr, recs, "c15trace")
    okrec = None
    for v in verdicts:
        rec = recs[v["i"] - 1]
        if v["v"] == "ok" and len(rec["codes"]) >= 2 and rec["per"][0]["chars"] and okrec is None:
            okrec = rec

    # (B) negative controls: a wrong character for one code / a wrong whole string must be rejected
    if okrec is None:
        raise vlib.ToolError("no record suitable for the negative control")
    n1 = json.loads(json.dumps(okrec))
    n1["per"][0]["chars"][0] ^= 1
    n2 = json.loads(json.dumps(okrec))
    n2["whole"]["chars"] = n2["whole"]["chars"][1:]
    ntr = os.path.join(w, "neg.ndjson")
    write_ndjson(ntr, [n1, n2, okrec])
    r = tlc("Trace_CMap.tla", "Trace_CMap.cfg", workers=1, env={"TRACE": ntr}, deque=True, name="c15neg")
    v = r.tagged("VERDICT")
    v = sorted(v, key=lambda x: x["i"])
    rejected = (len(v) == 3 and v[0]["v"] == "codes" and [b["c"] for b in v[0]["bad"]] == [1]
                and v[1]["v"] == "whole" and v[1]["w"] == "bad" and v[2]["v"] == "ok")
    chk.extra["negative_controls_rejected"] = 2 if rejected else 0
    if not rejected:
        raise vlib.ToolError("negative controls were not rejected by Trace_CMap: %s" % [(x["v"], x["w"]) for x in v])
    pool.shutdown()
    return chk.finish()


def validate(chk, tr, recs, name):
    r = tlc("Trace_CMap.tla", "Trace_CMap.cfg", workers=1, env={"TRACE": tr}, deque=True, timeout=2400, name=name)
    chk.add_tlc(r)
    verdicts = r.tagged("VERDICT")
    if len(verdicts) != len(recs):
        raise vlib.ToolError("trace validator judged %d of %d records" % (len(verdicts), len(recs)))
    okcodes = {}
    allcodes = {}
    styles = {}
    styles_ok = {}
    lens = set()
    nbig = 0
    for v in verdicts:
        rec = recs[v["i"] - 1]
        defs = [show_jdef(d) for d in rec["defs"]]
        chk.case(hashlib.sha1(rec["text"].encode()).hexdigest())
        if v["v"] in ("outside-domain", "short-result"):
            raise vlib.ToolError("record %d is %s (driver mistake): %s" % (v["i"], v["v"], defs[:6]))
        sc = v["sc"]
        for part in sc.split("+"):
            styles[part] = styles.get(part, 0) + 1
        if sc != "canon":
            # one respect departs from the tolerated spelling / font dictionary: whatever goes wrong is put down to it
            if v["v"] != "ok":
                chk.violation(style_sig(chk, sc), {"defs": defs[:40], "style": rec["sty"], "font_encoding": rec["font"],
                                            "program": rec["text"][:4000],
                                            "lopdf": rec["err"] or {"encoding": rec.get("encv"), "verdict": v["v"],
                                                                    "whole": got_value(rec["whole"])[:40]}})
            else:
                for part in sc.split("+"):
                    styles_ok[part] = styles_ok.get(part, 0) + 1
            chk.traces += 1
            for d in rec["defs"]:
                lens.add(d["len"])
            continue
        if v["v"] == "no-encoding":
            chk.violation("C15:no-encoding", {"defs": defs[:40], "program": rec["text"], "lopdf": rec["err"]})
            continue
        badset = set()
        for b in v["bad"]:
            i = b["c"] - 1
            badset.add(i)
            chk.violation(pick_sig(chk, b["cls"]), {"defs": defs[:40], "code": hexs(rec["codes"][i]), "expected_chars": b["exp"],
                                              "lopdf": got_value(rec["per"][i]), "lopdf_msg": rec["per"][i]["msg"],
                                              "program": rec["text"][:4000]})
        for i, k in enumerate(v["cls"]):
            k = k.split("+")[0]
            allcodes[k] = allcodes.get(k, 0) + 1
            if i not in badset:
                okcodes[k] = okcodes.get(k, 0) + 1
        if v["w"] == "bad":
            chk.violation("C15:segmentation", {"defs": defs[:40], "codes": [hexs(x) for x in rec["codes"]],
                                               "lopdf": got_value(rec["whole"]), "program": rec["text"][:4000]})
        elif v["w"] == "bom":
            chk.violation("C15:text.bom", {"defs": defs[:40], "codes": [hexs(x) for x in rec["codes"]],
                                           "lopdf": got_value(rec["whole"]), "program": rec["text"][:4000]})
        chk.traces += 1
        for d in rec["defs"]:
            lens.add(d["len"])
        nbig += 1 if len(rec["defs"]) > 100 else 0
    # anti-vacuity of the recorded INPUT set (independent of what lopdf answered)
    for k in CLASSES_REQUIRED:
        if allcodes.get(k, 0) < (20 if k != "array.coalesce" else 3):
            raise vlib.ToolError("vacuous trace set: only %d decoded codes of class %s" % (allcodes.get(k, 0), k))
    if lens != {1, 2, 3, 4}:
        raise vlib.ToolError("vacuous trace set: code lengths %s" % sorted(lens))
    if nbig == 0:
        raise vlib.ToolError("vacuous trace set: no table with a section of 100 entries")
    for k in STYLE_CLASSES:
        if styles.get(k, 0) == 0:
            raise vlib.ToolError("vacuous trace set: no record of style class %s" % k)
    chk.extra["trace_records_by_style_class"] = dict(sorted(styles.items()))
    chk.extra["trace_records_ok_by_style_class"] = dict(sorted(styles_ok.items()))
    chk.extra["trace_codes_by_class"] = dict(sorted(allcodes.items()))
    chk.extra["trace_codes_ok_by_class"] = dict(sorted(okcodes.items()))
    s = recs[0]
    chk.sample({"recorded_defs": [show_jdef(d) for d in s["defs"][:8]], "codes": [hexs(x) for x in s["codes"][:8]],
                "lopdf_text": s["whole"]["chars"][:16]})
    return verdicts
