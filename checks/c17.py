"""C17 — bookmarks become a well-formed outline that reads back."""
import json, os, copy, hashlib
from concurrent.futures import ThreadPoolExecutor
import vlib
from vlib import Check, tlc, run_bin, workdir, write_ndjson, read_ndjson, log

META = {
    "property_id": "C17",
    "level": "model_checking",
    "technique": "TLA+ spec (Outline/OutlineSys) model-checked by TLC; every TLC-enumerated bookmark forest replayed into lopdf; "
                 "recorded lopdf runs (outline sub-graph, get_toc before/after save+load) judged by Trace_Outline",
    "text": "TLC explores every add sequence of up to 4 bookmarks (= every ordered forest in every attach order) with every page "
            "assignment (zero page on parents, fixed by adjust_zero_pages) and titles of five Unicode classes, and checks that the "
            "transcription of add_bookmark / recursive_fix_pages / outline_child / get_outlines / get_toc refines the declarative "
            "formulas Fresh (also: later allocations never reuse an outline id), Links, Carries and ReadBack; the catalog link is made "
            "through the existing catalog or through a new catalog allocated after build_outline. Each enumerated behaviour is driven through the real API; random forests "
            "(<= 25 bookmarks, depth <= 6, titles from the whole Unicode range) are run through lopdf, and for every run TLC judges "
            "the projected outline objects and the get_toc() results (built, reloaded from an xref-table file, reloaded from an "
            "xref-stream file) against the declarative layer.",
    "note": "Trusted: TLC, the reading of ISO 32000-1 12.3.3/7.9.2.2 in Outline.tla (Links, TitleDenotes), the harness projection. "
            "Exhaustive only within the model bounds (<= 4 bookmarks, <= 3 pages, 5 title classes); beyond that sampled. Not judged: "
            "/Count, /C, /F, ASCII control characters under strict PDFDocEncoding, equal titles (outside the stated domain), the empty forest.",
    "design_ref": "DESIGN.md section 4 C17",
}

SFX = ""
ACTIONS = ["AddBookmark", "AdjustZeroPages", "SkipAdjust", "BuildOutline", "AddObject", "LinkCatalog", "LinkNewCatalog", "GetToc", "SaveLoad"]


def depth_of(adds):
    lv = []
    for a in adds:
        lv.append(1 if a["parent"] == 0 else lv[a["parent"] - 1] + 1)
    return max(lv) if lv else 0


def preorder(adds):
    kids = {}
    for k, a in enumerate(adds):
        kids.setdefault(a["parent"], []).append(k + 1)
    out = []

    def walk(p):
        for k in kids.get(p, []):
            out.append(k)
            walk(k)
    walk(0)
    return out


def classes(adds):
    """which interesting classes an add sequence belongs to (anti-vacuity and signatures)"""
    c = set()
    if depth_of(adds) >= 3:
        c.add("deep")
    if any(a["page"] == 0 for a in adds):
        c.add("zero")
    if any(any(cp >= 0x10000 for cp in a["title"]) for a in adds):
        c.add("astral")
    if any(any(128 <= cp < 0x10000 for cp in a["title"]) for a in adds):
        c.add("bmp")
    if any(a["title"] and all(cp < 128 for cp in a["title"]) for a in adds):
        c.add("ascii")
    if any(not a["title"] for a in adds):
        c.add("empty-title")
    # attach order differs from pre-order: a child was attached after a later bookmark was added elsewhere
    if preorder(adds) != list(range(1, len(adds) + 1)):
        c.add("late-child")
    fan = {}
    for a in adds:
        fan[a["parent"]] = fan.get(a["parent"], 0) + 1
    if any(v >= 3 for v in fan.values()):
        c.add("wide")
    return c


def judge_with_tlc(path, nrecs, name, parts=1):
    """Run Trace_Outline on the ndjson file (split into `parts` files judged concurrently);
    returns verdict strings in record order."""
    if nrecs == 0:
        return [], 0, 0
    if parts <= 1 or nrecs < 2 * parts:
        r = tlc("Trace_Outline.tla", "Trace_Outline.cfg", workers=1, env={"TRACE": path}, deque=True, timeout=3000, name=name)
        vs = r.tagged("VERDICT")
        if len(vs) != nrecs:
            raise vlib.ToolError("Trace_Outline judged %d of %d records" % (len(vs), nrecs))
        out = [None] * nrecs
        for v in vs:
            out[v["i"] - 1] = v["v"]
        return out, r.distinct, r.generated
    lines = open(path).read().splitlines()
    size = (len(lines) + parts - 1) // parts
    jobs = []
    for p in range(parts):
        chunk = lines[p * size:(p + 1) * size]
        if not chunk:
            continue
        cp = "%s.part%d" % (path, p)
        with open(cp, "w") as f:
            f.write("\n".join(chunk) + "\n")
        jobs.append((cp, len(chunk), "%s-p%d" % (name, p)))
    with ThreadPoolExecutor(max_workers=parts) as ex:
        res = list(ex.map(lambda j: judge_with_tlc(j[0], j[1], j[2], 1), jobs))
    out, d, g = [], 0, 0
    for (o, dd, gg) in res:
        out += o
        d += dd
        g += gg
    return out, d, g


def paren_nesting(cps):
    """deepest nesting of *balanced* parentheses (unbalanced ones are escaped by the writer)"""
    stack, matched = [], set()
    for i, c in enumerate(cps):
        if c == 0x28:
            stack.append(i)
        elif c == 0x29 and stack:
            matched.add(stack.pop())
            matched.add(i)
    d = best = 0
    for i, c in enumerate(cps):
        if i in matched:
            if c == 0x28:
                d += 1
                best = max(best, d)
            else:
                d -= 1
    return best


def signature(verdict, rec):
    """narrow class of the failing case"""
    if verdict == "readback.reloaded" and any(paren_nesting(a["title"]) > 100 for a in rec["adds"]):
        return "C17:readback.reloaded.paren-nesting>100"
    return "C17:" + verdict


def detail(rec, verdict):
    d = {"verdict": verdict, "np": rec.get("np"), "adds": rec.get("adds"), "adjust": rec.get("adjust")}
    for k in ("pageids", "root", "rootrec", "max_id", "base", "changed", "items", "later", "clobbered", "post", "link", "toc0", "toc1", "toc2", "fmts", "chain", "panic", "style"):
        if k in rec:
            d[k] = rec[k]
    return d


def judge_records(chk, recs, path, name, parts):
    """panics are violations; everything else is judged by TLC.  Returns list of (rec, verdict)."""
    good = [r for r in recs if "panic" not in r]
    for r in recs:
        if "panic" in r:
            phase = r["panic"].split(":")[0].replace(" ", "-")
            if phase.startswith("harness"):
                chk.deferred.append("harness failure: %s" % r["panic"])
                continue
            chk.case(json.dumps(r["adds"]))
            chk.violation("C17:panic." + phase, detail(r, "panic"))
    write_ndjson(path, good)
    verdicts, d, g = judge_with_tlc(path, len(good), name, parts) if good else ([], 0, 0)
    chk.states += d
    chk.transitions += g
    out = []
    for r, v in zip(good, verdicts):
        chk.case(json.dumps([r["adds"], r.get("post", 0), r.get("link", "mut")]))
        if v == "ok-outside-domain":     # decided by TLC from the inputs (adds, adjust) alone
            chk.deferred.append("driver produced a forest outside the domain of C17: %s" % json.dumps(r["adds"])[:300])
            out.append((r, v))
            continue
        if v.startswith("ok"):
            chk.traces += 1
            if v == "ok-drift":
                chk.extra["model_drift"] = chk.extra.get("model_drift", 0) + 1
        else:
            chk.violation(signature(v, r), detail(r, v))
        out.append((r, v))
    return out


NEG = ["links.siblings", "links.parent", "links.first-last", "links.root-ends", "carries.title", "carries.dest", "fresh.overlap",
       "fresh.maxid", "fresh.reserved", "readback.built", "readback.reloaded", "readback.reloaded"]


def negative_controls(rec):
    """corrupt one field of a good record per clause; the validator must answer the clause's verdict"""
    out = []

    def mut(f):
        r = copy.deepcopy(rec)
        f(r)
        out.append(r)
    # an item that has a next sibling / a child
    its = rec["items"]
    with_next = next(i for i, it in enumerate(its) if it["next"] != 0)
    with_child = next(i for i, it in enumerate(its) if it["first"] != 0)
    mut(lambda r: r["items"][with_next].update(next=0))
    mut(lambda r: r["items"][with_child + 0].update(parent=r["items"][with_child]["id"]))
    mut(lambda r: r["items"][with_child].update(last=r["items"][with_child]["first"] if r["items"][with_child]["first"] != r["items"][with_child]["last"] else 0))
    mut(lambda r: r["rootrec"].update(first=0))
    mut(lambda r: r["items"][0].update(title=r["items"][0]["title"] + [0, 33]))
    mut(lambda r: r["items"][0].update(dest=r["oldids"][0] if r["items"][0]["dest"] != r["oldids"][0] else r["oldids"][1]))
    mut(lambda r: r["oldids"].append(r["items"][-1]["id"]))
    mut(lambda r: r.update(max_id=r["max_id"] - 1))
    mut(lambda r: r["later"].append(r["items"][0]["id"]))
    mut(lambda r: r["toc0"]["toc"].reverse())
    mut(lambda r: r["toc1"]["toc"][0].__setitem__(0, r["toc1"]["toc"][0][0] + 1))
    mut(lambda r: r["toc2"]["toc"].pop())
    return out


def run(tier):
    """Order matters: every lopdf run is judged first; vacuity / sanity conditions are derived from the INPUTS
    (generated cases, chosen forests), collected in chk.deferred and raised as ToolError only when no violation
    was found, so that they can never mask one."""
    chk = Check("C17", META["level"], tier)
    chk.deferred = []
    chk.rule = ("bookmark forests as add sequences (TLC-enumerated by MC_Outline and seeded random ones); every case has >= 1 "
                "bookmark, is built, followed by 0..3 further allocations, linked (existing or new catalog), read back, saved "
                "and reloaded in both xref formats; distinct by add sequence + allocation/link variant")
    # runs against a scratch worktree (VERIF_REPO) get their own work and TLC directories
    global SFX
    SFX = "" if vlib.REPO == "/repo" else "-" + hashlib.sha1(vlib.REPO.encode()).hexdigest()[:8]
    w = workdir("c17" + SFX)
    quick = tier == "quick"
    # ---------------- (M) + (G): model checking, generation, replay into lopdf   (independent of /repo)
    cfgs = ["MC_Outline_quick.cfg", "MC_Outline_quick4.cfg"] if quick else ["MC_Outline_thorough.cfg"]
    seen, cases = set(), []
    for cfg in cfgs:
        r = tlc("MC_Outline.tla", cfg, workers=4 if quick else 16, coverage=True, timeout=3000, xmx="4g" if quick else "8g",
                name=os.path.splitext(cfg)[0] + SFX)
        vlib.require_coverage(r, ACTIONS)
        chk.add_tlc(r)
        for c in r.tagged("REPLAY"):
            k = json.dumps([c["np"], c["adds"], c["adjust"], c["post"], c["link"]])
            if k not in seen:
                seen.add(k)
                cases.append(c)
    if not cases:
        raise vlib.ToolError("generator produced no behaviours")
    need = {"deep", "zero", "astral", "bmp", "ascii", "empty-title", "late-child", "wide"}
    have = set()
    for c in cases:
        have |= classes(c["adds"])
    variants = {(min(c["post"], 1), c["link"]) for c in cases}
    if need - have or variants != {(0, "mut"), (1, "mut"), (0, "new"), (1, "new")}:
        raise vlib.ToolError("vacuous generation: classes never generated: %s, allocation/link variants %s" % (
            sorted(need - have), sorted(variants)))
    # control of the model itself: without the reservation the action property Reserved must fail
    rn = tlc("MC_Outline.tla", "MC_Outline_noreserve.cfg", workers=1, allow_violation=True, name="c17noreserve" + SFX)
    if rn.violation != "Reserved":
        raise vlib.ToolError("model control: Reserved not violated when build_outline does not reserve its ids (%s)" % rn.violation)
    chk.extra["model_controls_rejected"] = 1
    cin, cout = os.path.join(w, "gen.ndjson"), os.path.join(w, "gen.out.ndjson")
    write_ndjson(cin, [{"np": c["np"], "adds": c["adds"], "adjust": c["adjust"], "post": c["post"], "link": c["link"]} for c in cases])
    run_bin("c17", ["replay", "--in", cin, "--out", cout])
    results = read_ndjson(cout)
    if len(results) != len(cases):
        raise vlib.ToolError("replay lost cases")          # the supervisor writes one record per case whatever lopdf does
    judged = judge_records(chk, results, os.path.join(w, "gen.trace.ndjson"), "c17gen" + SFX, 1 if quick else 6)
    # the value TLC's declarative layer computed for the behaviour vs lopdf's answer
    by_case = {rec["case"]: (rec, v) for rec, v in judged}
    for i, c in enumerate(cases):
        if i + 1 not in by_case:
            continue
        rec, v = by_case[i + 1]
        if not v.startswith(("ok", "readback")) or v == "ok-outside-domain":
            continue
        same = all(rec[t]["ok"] and rec[t]["toc"] == c["exp"]["toc"] for t in ("toc0", "toc1", "toc2"))
        if same != v.startswith("ok"):
            chk.deferred.append("replay comparison and trace verdict disagree on case %d: %s vs %s" % (i + 1, same, v))
        if v.startswith("ok"):
            base = rec["base"]
            ids = c["exp"]["ids"]
            if [it["id"] - base for it in rec["items"]] != ids["items"] or rec["root"] - base != ids["root"] or rec["max_id"] - base != ids["max"]:
                chk.extra["model_drift"] = chk.extra.get("model_drift", 0) + 1
    chk.extra["replayed_behaviours"] = len(cases)
    mid = cases[len(cases) // 2]
    chk.sample({"generated_adds": mid["adds"], "np": mid["np"], "post": mid["post"], "link": mid["link"],
                "spec_readback": mid["exp"]["toc"], "lopdf_toc_reloaded": results[len(cases) // 2].get("toc2", {}).get("toc")})
    chk.exhaustive = True
    # ---------------- (V): recorded random forests judged by the declarative layer
    n = 250 if quick else 4000
    tr = os.path.join(w, "rec.ndjson")
    run_bin("c17", ["record", "--seed", vlib.seed(), "--n", n, "--out", tr])
    recs = read_ndjson(tr)
    if len(recs) != n + 4:
        raise vlib.ToolError("recorder lost runs")
    judged = judge_records(chk, recs, os.path.join(w, "rec.trace.ndjson"), "c17rec" + SFX, 1 if quick else 8)
    # vacuity of the recorded set, from the chosen inputs only (every record carries its inputs, also after a panic)
    have, big, variants = set(), 0, set()
    for rec in recs:
        have |= classes(rec["adds"])
        big += len(rec["adds"]) >= 15
        if "post" in rec:
            variants.add((min(rec["post"], 1), rec["link"]))
    nest = {max(paren_nesting(a["title"]) for a in rec["adds"]) for rec in recs}
    if need - have or big == 0 or not any(depth_of(rec["adds"]) == 6 for rec in recs) or not {100, 101} <= nest:
        chk.deferred.append("vacuous trace set: classes %s, %d forests >= 15, depth 6 reached: %s, paren nestings %s" % (
            sorted(need - have), big, any(depth_of(rec["adds"]) == 6 for rec in recs), sorted(x for x in nest if x > 50)))
    if all("post" in rec for rec in recs) and len(variants) != 4:
        chk.deferred.append("vacuous trace set: allocation/link variants %s" % sorted(variants))
    chk.extra["recorded_runs"] = len(recs)
    chk.extra["recorded_max_bookmarks"] = max(len(rec["adds"]) for rec in recs)
    s = recs[0]
    if "panic" not in s:
        chk.sample({"recorded_adds": s["adds"][:6], "lopdf_items": s["items"][:4], "later": s["later"], "lopdf_toc": s["toc0"]["toc"][:6]})
    # ---------------- (B): negative controls (need one run that was judged ok to corrupt)
    base = None
    for rec, v in judged:
        if v in ("ok", "ok-drift") and len(rec["adds"]) >= 4 and any(it["next"] for it in rec["items"]) \
                and any(it["first"] for it in rec["items"]) and len(rec["oldids"]) >= 2:
            base = rec
            break
    chk.extra["negative_controls_rejected"] = 0
    chk.extra["negative_controls"] = 0
    if base is None:
        chk.deferred.append("no record suitable for the negative controls")
    else:
        negs = negative_controls(base)
        ntr = os.path.join(w, "neg.ndjson")
        write_ndjson(ntr, negs)
        nv, _, _ = judge_with_tlc(ntr, len(negs), "c17neg" + SFX)
        chk.extra["negative_controls_rejected"] = sum(1 for v in nv if not v.startswith("ok"))
        chk.extra["negative_controls"] = len(negs)
        if nv != NEG:
            chk.deferred.append("negative controls: expected %s, validator said %s" % (NEG, nv))
    rc = chk.finish()
    if rc == 0 and chk.deferred:
        raise vlib.ToolError("; ".join(chk.deferred[:3]))
    return rc
