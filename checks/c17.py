"""C17 — bookmarks become a well-formed outline that reads back."""
import json, os, copy, hashlib
from concurrent.futures import ThreadPoolExecutor
import vlib
from vlib import Check, tlc, run_bin, workdir, write_ndjson, read_ndjson, log

META = {
    "property_id": "C17",
    "level": "model_checking",
    "technique": "TLA+ spec (Outline/OutlineSys) model-checked by TLC; every TLC-enumerated bookmark forest replayed into lopdf; "
                 "recorded lopdf runs (outline sub-graph, get_toc before/after save+load) judged by Trace_Outline",
    "text": "TLC explores every add sequence of up to 4 bookmarks (= every ordered forest in every attach order) with every page "
            "assignment (zero page on parents, fixed by adjust_zero_pages) and titles of five Unicode classes, and checks that the "
            "transcription of add_bookmark / recursive_fix_pages / outline_child / get_outlines / get_toc refines the declarative "
            "formulas Fresh (also: later allocations never reuse an outline id), Links, Carries and ReadBack; the catalog link is made "
            "through the existing catalog or through a new catalog allocated after build_outline. Three document/machine-side dimensions "
            "are modelled with an 'as the code is' and a repaired variant each: a stack budget per walker (any depth), a named-destination "
            "table in every legal spelling next to the forest, and object numbers at the numeric limit. Each enumerated behaviour is driven "
            "through the real API; random forests (<= 25 bookmarks, depth <= 6, titles from the whole Unicode range), chains of 10 .. 100 000 "
            "levels with one walker at a time on a 2 MiB stack, the destination-table spellings and documents whose max_id lies a few numbers "
            "below u32::MAX are run through lopdf in a supervised child process, and for every run TLC judges the projected outline objects "
            "and the get_toc() results (built, reloaded from an xref-table file, reloaded from an xref-stream file) against the declarative layer.",
    "note": "Trusted: TLC, the reading of ISO 32000-1 12.3.3/7.9.2.2 in Outline.tla (Links, TitleDenotes), the harness projection. "
            "Exhaustive only within the model bounds (<= 4 bookmarks, <= 3 pages, 5 title classes); beyond that sampled. Not judged: "
            "/Count, /C, /F, ASCII control characters under strict PDFDocEncoding, equal titles (outside the stated domain), the empty forest. "
            "A forest that needs more object numbers than are left below u32::MAX cannot be given fresh identifiers by anybody; for it the "
            "check only demands 'an outline as specified, or no outline and an untouched document'.",
    "design_ref": "DESIGN.md section 4 C17",
}

SFX = ""
ACTIONS = ["AddBookmark", "AdjustZeroPages", "SkipAdjust", "BuildOutline", "AddObject", "LinkCatalog", "LinkNewCatalog", "GetToc", "SaveLoad"]
DESTS = ["none", "tree-direct", "kids-ref", "names-ref", "d-ref", "value-array-ref", "old-direct", "old-names-key", "old-refs"]
NOROOM = 999999

# design-level controls: the model "as the code is" must be refuted in each dimension, the repaired one must hold
CONTROLS = [("MC_Outline_noreserve.cfg", "Reserved"), ("MC_Outline_stack_asis.cfg", "NoAbort"),
            ("MC_Outline_dests_asis.cfg", "RefinesToc"), ("MC_Outline_ids_asis.cfg", "RefinesFresh")]
REPAIRED = ["MC_Outline_stack_worklist.cfg", "MC_Outline_dests_followrefs.cfg", "MC_Outline_ids_checked.cfg"]


# ------------------------------------------------------------------ inputs of a run (never its outcome)
def is_chain(rec):
    return rec.get("kind") == "chain"


def nbook(rec):
    return rec["n"] if is_chain(rec) else len(rec["adds"])


def depth_of(adds):
    lv = []
    for a in adds:
        lv.append(1 if a["parent"] == 0 else lv[a["parent"] - 1] + 1)
    return max(lv) if lv else 0


def depth(rec):
    return rec["n"] if is_chain(rec) else depth_of(rec["adds"])


def preorder(adds):
    kids = {}
    for k, a in enumerate(adds):
        kids.setdefault(a["parent"], []).append(k + 1)
    out, stack = [], list(reversed(kids.get(0, [])))
    while stack:
        k = stack.pop()
        out.append(k)
        stack.extend(reversed(kids.get(k, [])))
    return out


def classes(adds):
    """which interesting classes an add sequence belongs to (anti-vacuity)"""
    c = set()
    if depth_of(adds) >= 3:
        c.add("deep")
    if any(a["page"] == 0 for a in adds):
        c.add("zero")
    if any(any(cp >= 0x10000 for cp in a["title"]) for a in adds):
        c.add("astral")
    if any(any(128 <= cp < 0x10000 for cp in a["title"]) for a in adds):
        c.add("bmp")
    if any(a["title"] and all(cp < 128 for cp in a["title"]) for a in adds):
        c.add("ascii")
    if any(not a["title"] for a in adds):
        c.add("empty-title")
    # attach order differs from pre-order: a child was attached after a later bookmark was added elsewhere
    if preorder(adds) != list(range(1, len(adds) + 1)):
        c.add("late-child")
    fan = {}
    for a in adds:
        fan[a["parent"]] = fan.get(a["parent"], 0) + 1
    if any(v >= 3 for v in fan.values()):
        c.add("wide")
    return c


def paren_nesting(cps):
    """deepest nesting of *balanced* parentheses (unbalanced ones are escaped by the writer)"""
    stack, matched = [], set()
    for i, c in enumerate(cps):
        if c == 0x28:
            stack.append(i)
        elif c == 0x29 and stack:
            matched.add(stack.pop())
            matched.add(i)
    d = best = 0
    for i, c in enumerate(cps):
        if i in matched:
            if c == 0x28:
                d += 1
                best = max(best, d)
            else:
                d -= 1
    return best


def max_nesting(rec):
    return 0 if is_chain(rec) else max([paren_nesting(a["title"]) for a in rec["adds"]] + [0])


def room(rec):
    r = rec.get("room", -1)
    return None if r is None or r < 0 or r == NOROOM else r


def exhausted(rec):
    return room(rec) is not None and 1 + 2 * nbook(rec) > room(rec)


def case_key(rec):
    if is_chain(rec):
        return json.dumps(["chain", rec["n"], rec.get("zero"), rec.get("small"), rec.get("fmts")])
    return json.dumps([rec["adds"], rec.get("post", 0), rec.get("link", "mut"), rec.get("dests", "none"), rec.get("room", -1)])


# ------------------------------------------------------------------ TLC as the judge
def judge_with_tlc(path, nrecs, name, parts=1, xmx="4g"):
    """Run Trace_Outline on the ndjson file (split into `parts` files judged concurrently);
    returns (verdict strings in record order, distinct, generated)."""
    if nrecs == 0:
        return [], 0, 0
    if parts <= 1 or nrecs < 2 * parts:
        r = tlc("Trace_Outline.tla", "Trace_Outline.cfg", workers=1, env={"TRACE": path}, deque=True, timeout=3000, name=name, xmx=xmx)
        vs = r.tagged("VERDICT")
        if len(vs) != nrecs:
            raise vlib.ToolError("Trace_Outline judged %d of %d records" % (len(vs), nrecs))
        out = [None] * nrecs
        for v in vs:
            out[v["i"] - 1] = v["v"]
        return out, r.distinct, r.generated
    lines = open(path).read().splitlines()
    size = (len(lines) + parts - 1) // parts
    jobs = []
    for p in range(parts):
        chunk = lines[p * size:(p + 1) * size]
        if not chunk:
            continue
        cp = "%s.part%d" % (path, p)
        with open(cp, "w") as f:
            f.write("\n".join(chunk) + "\n")
        jobs.append((cp, len(chunk), "%s-p%d" % (name, p)))
    with ThreadPoolExecutor(max_workers=parts) as ex:
        res = list(ex.map(lambda j: judge_with_tlc(j[0], j[1], j[2], 1, xmx), jobs))
    out, d, g = [], 0, 0
    for (o, dd, gg) in res:
        out += o
        d += dd
        g += gg
    return out, d, g


def signature(verdict, rec):
    """narrow class of the failing case: the violated clause plus the class of the input"""
    if verdict == "readback.reloaded" and max_nesting(rec) > 100:
        return "C17:readback.reloaded.paren-nesting>100"
    if verdict == "readback.built" and rec.get("dests", "none") != "none" and rec["tocs"][0]["err"] == "ObjectType":
        # get_toc gave up on the document's named-destination table (no bookmark uses it)
        return "C17:readback.built.dests-" + rec["dests"]
    return "C17:" + verdict


def panic_signature(rec):
    p = rec["panic"]
    phase = p.split(":")[0].replace(" ", "-")
    if phase == "crash" and depth(rec) >= 1000:
        # the process died (stack overflow) while the walkers named in `small` ran on the small stack
        return "C17:crash.depth>=1000." + "+".join(sorted(rec.get("small") or ["main"]))
    if phase == "build_outline" and "overflow" in p and exhausted(rec):
        return "C17:panic.build_outline.ids-exhausted"
    return "C17:panic." + phase


def detail(rec, verdict):
    d = {"verdict": verdict}
    for k in ("kind", "n", "zero", "leaf_page", "np", "adds", "adjust", "dests", "room", "stack_kb", "small", "pageids", "root", "rootrec",
              "max_id", "base", "changed", "untouched", "items", "later", "clobbered", "post", "link", "tocs", "fmts", "chain", "panic", "style"):
        if k in rec:
            v = rec[k]
            if k == "tocs" and is_chain(rec):
                v = [{"ok": t["ok"], "err": t["err"], "n": t["n"]} for t in v]
            if k == "adds" and len(v) > 60:
                v = v[:60]
            d[k] = v
    return d


def judge_records(chk, recs, path, name, parts, xmx="4g"):
    """panics / crashes / hangs are violations; everything else is judged by TLC.  Returns list of (rec, verdict)."""
    good = [r for r in recs if "panic" not in r]
    for r in recs:
        if "panic" in r:
            if r["panic"].startswith("harness"):
                chk.deferred.append("harness failure: %s" % r["panic"])
                continue
            chk.case(case_key(r))
            chk.violation(panic_signature(r), detail(r, "panic"))
    write_ndjson(path, good)
    verdicts, d, g = judge_with_tlc(path, len(good), name, parts, xmx) if good else ([], 0, 0)
    chk.states += d
    chk.transitions += g
    out = []
    for r, v in zip(good, verdicts):
        chk.case(case_key(r))
        if v == "ok-outside-domain":     # decided by TLC from the inputs (adds, adjust) alone
            chk.deferred.append("driver produced a forest outside the domain of C17: %s" % case_key(r)[:300])
            out.append((r, v))
            continue
        if v.startswith("ok"):
            chk.traces += 1
            if v == "ok-drift":
                chk.extra["model_drift"] = chk.extra.get("model_drift", 0) + 1
            if v == "ok-refused":
                chk.extra["refused_for_lack_of_object_numbers"] = chk.extra.get("refused_for_lack_of_object_numbers", 0) + 1
        else:
            chk.violation(signature(v, r), detail(r, v))
        out.append((r, v))
    return out


# ------------------------------------------------------------------ negative controls
NEG = ["links.siblings", "links.parent", "links.first-last", "links.root-ends", "carries.title", "carries.dest", "fresh.overlap",
       "fresh.maxid", "fresh.reserved", "readback.built", "readback.reloaded", "readback.reloaded"]
NEG_CHAIN = ["links.siblings", "links.parent", "links.first-last", "links.root-ends", "carries.title", "carries.dest", "fresh.overlap",
             "fresh.maxid", "fresh.reserved", "readback.built", "readback.reloaded", "build.none"]


def negative_controls(rec):
    """corrupt one field of a good record per clause; the validator must answer the clause's verdict"""
    out = []

    def mut(f):
        r = copy.deepcopy(rec)
        f(r)
        out.append(r)
    its = rec["items"]
    with_next = next(i for i, it in enumerate(its) if it["next"] != 0)
    with_child = next(i for i, it in enumerate(its) if it["first"] != 0)
    mut(lambda r: r["items"][with_next].update(next=0))
    mut(lambda r: r["items"][with_child + 0].update(parent=r["items"][with_child]["id"]))
    mut(lambda r: r["items"][with_child].update(last=r["items"][with_child]["first"] if r["items"][with_child]["first"] != r["items"][with_child]["last"] else 0))
    mut(lambda r: r["rootrec"].update(first=0))
    mut(lambda r: r["items"][0].update(title=r["items"][0]["title"] + [0, 33]))
    mut(lambda r: r["items"][0].update(dest=r["oldids"][0] if r["items"][0]["dest"] != r["oldids"][0] else r["oldids"][1]))
    mut(lambda r: r["oldids"].append(r["items"][-1]["id"]))
    mut(lambda r: r.update(max_id=r["max_id"] - 1))
    mut(lambda r: r["later"].append(r["items"][0]["id"]))
    mut(lambda r: r["tocs"][0]["toc"].reverse())
    mut(lambda r: r["tocs"][1]["toc"][0].__setitem__(0, r["tocs"][1]["toc"][0][0] + 1))
    mut(lambda r: r["tocs"][2]["toc"].pop())
    return out


def negative_controls_chain(rec):
    out = []

    def mut(f):
        r = copy.deepcopy(rec)
        f(r)
        out.append(r)
    n = rec["n"]
    mut(lambda r: r["next"].__setitem__(4, r["id"][5]))
    mut(lambda r: r["parent"].__setitem__(6, r["root"]))
    mut(lambda r: r["first"].__setitem__(n - 1, r["id"][0]))
    mut(lambda r: r["rootrec"].update(last=r["id"][n - 1]))
    mut(lambda r: r["title"].__setitem__(2, r["title"][2] + [48]))
    mut(lambda r: r["destpn"].__setitem__(3, r["destpn"][3] % r["np"] + 1))
    mut(lambda r: r["aid"].__setitem__(1, r["id"][7]))
    mut(lambda r: r.update(max_id=r["id"][n - 1]))
    mut(lambda r: r["later"].append(r["aid"][2]))
    mut(lambda r: r["tocs"][0]["lv"].__setitem__(8, 8))
    mut(lambda r: r["tocs"][1]["pg"].__setitem__(n - 1, r["tocs"][1]["pg"][n - 1] % r["np"] + 1))
    mut(lambda r: r.update(root=0))
    return out


# ------------------------------------------------------------------ the check
def replay_fmts(c):
    """Documents whose object numbers lie near 2^32 are not saved in the replay: lopdf needs about 10 s per save +
    load of such a file (its xref writer / reader walk the whole number range), a table would even have 2^32 lines.
    Two such documents are saved and reloaded (xref stream) in the recorded set."""
    return ["table", "stream"] if c["room"] == NOROOM else []


def run(tier):
    """Order matters: every lopdf run is judged first; vacuity / sanity conditions are derived from the INPUTS
    (generated cases, chosen forests), collected in chk.deferred and raised as ToolError only when no violation
    was found, so that they can never mask one."""
    chk = Check("C17", META["level"], tier)
    chk.deferred = []
    chk.rule = ("bookmark forests as add sequences (TLC-enumerated by MC_Outline and seeded random ones) and chains of 10..10^5 levels; "
                "every case has >= 1 bookmark, is built, followed by 0..3 further allocations, linked (existing or new catalog), read "
                "back, saved and reloaded; distinct by forest + allocation/link variant + destination-table spelling + room for object numbers")
    # runs against a scratch worktree (VERIF_REPO) get their own work and TLC directories
    global SFX
    SFX = "" if vlib.REPO == "/repo" else "-" + hashlib.sha1(vlib.REPO.encode()).hexdigest()[:8]
    w = workdir("c17" + SFX)
    quick = tier == "quick"
    # ---------------- (M) + (G): model checking, generation   (independent of /repo)
    # quick: <= 3 bookmarks x {1,2} pages and 4 bookmarks x 1 page, one allocation between build and link;
    # thorough adds 4 bookmarks x 3 pages (both link modes, no extra allocation)
    mains = ["MC_Outline_quick.cfg", "MC_Outline_quick4.cfg"] + ([] if quick else ["MC_Outline_thorough.cfg"])
    # all TLC jobs of this phase are independent of each other and of /repo: run them side by side
    big = "MC_Outline_thorough.cfg"      # action coverage is measured on the two smaller runs (the big one has MaxPost = 0)
    jobs = [(cfg, dict(workers=12 if cfg == big else 4, coverage=cfg != big, xmx="8g" if cfg == big else "4g")) for cfg in mains] \
        + [(cfg, dict(workers=2, xmx="2g")) for cfg in REPAIRED] \
        + [(cfg, dict(workers=1, xmx="1g", allow_violation=True)) for cfg, _ in CONTROLS]
    with ThreadPoolExecutor(max_workers=len(jobs)) as ex:
        futs = [ex.submit(tlc, "MC_Outline.tla", cfg, timeout=3000, name=os.path.splitext(cfg)[0] + SFX, **kw) for cfg, kw in jobs]
        runs = {}
        for (cfg, _), f in zip(jobs, futs):
            runs[cfg] = f.result()           # a ToolError of any job propagates
    seen, cases = set(), []
    for cfg in mains + REPAIRED:
        r = runs[cfg]
        if cfg in mains and cfg != big:
            vlib.require_coverage(r, ACTIONS)
        chk.add_tlc(r)
        for c in r.tagged("REPLAY"):
            k = json.dumps([c["np"], c["adds"], c["adjust"], c["post"], c["link"], c["dests"], c["room"]])
            if k not in seen:
                seen.add(k)
                cases.append(c)
    if not cases:
        raise vlib.ToolError("generator produced no behaviours")
    need = {"deep", "zero", "astral", "bmp", "ascii", "empty-title", "late-child", "wide"}
    have = set()
    for c in cases:
        have |= classes(c["adds"])
    variants = {(min(c["post"], 1), c["link"]) for c in cases if not c["exp"]["refused"]}
    gen_dests = {c["dests"] for c in cases}
    gen_refused = sum(1 for c in cases if c["exp"]["refused"])
    gen_tight = sum(1 for c in cases if c["room"] != NOROOM and not c["exp"]["refused"])
    if need - have or variants != {(0, "mut"), (1, "mut"), (0, "new"), (1, "new")} or gen_dests != set(DESTS) \
            or gen_refused == 0 or gen_tight == 0:
        raise vlib.ToolError("vacuous generation: classes never generated: %s, allocation/link variants %s, dests %s, refused %d, tight %d" % (
            sorted(need - have), sorted(variants), sorted(gen_dests), gen_refused, gen_tight))
    # controls of the model itself: "as the code is" must be refuted in each dimension by the named property
    for cfg, prop in CONTROLS:
        if runs[cfg].violation != prop:
            raise vlib.ToolError("model control %s: expected %s to be violated, TLC said %s" % (cfg, prop, runs[cfg].violation))
        chk.extra["model_controls_rejected"] = chk.extra.get("model_controls_rejected", 0) + 1
    # ---------------- replay into lopdf
    cin, cout = os.path.join(w, "gen.ndjson"), os.path.join(w, "gen.out.ndjson")
    gen = []
    for c in cases:
        g = {"np": c["np"], "adds": c["adds"], "adjust": c["adjust"], "post": c["post"], "link": c["link"], "dests": c["dests"],
             "fmts": replay_fmts(c)}
        if c["room"] != NOROOM:
            g["room"] = c["room"]
        gen.append(g)
    write_ndjson(cin, gen)
    run_bin("c17", ["replay", "--in", cin, "--out", cout])
    results = read_ndjson(cout)
    if len(results) != len(cases):
        raise vlib.ToolError("replay lost cases")          # the supervisor writes one record per case whatever lopdf does
    judged = judge_records(chk, results, os.path.join(w, "gen.trace.ndjson"), "c17gen" + SFX, 1 if quick else 6)
    # the value TLC's declarative layer computed for the behaviour vs lopdf's answer
    by_case = {rec["case"]: (rec, v) for rec, v in judged}
    for i, c in enumerate(cases):
        if i + 1 not in by_case:
            continue
        rec, v = by_case[i + 1]
        if v == "ok-outside-domain" or not v.startswith(("ok", "readback")):
            continue
        if c["exp"]["refused"] or v == "ok-refused":
            # the model (highest usable number = limit - 1) and lopdf may differ by the one number `limit` itself
            if c["exp"]["refused"] != (v == "ok-refused"):
                chk.extra["model_drift"] = chk.extra.get("model_drift", 0) + 1
            continue
        same = all(t["ok"] and t["toc"] == c["exp"]["toc"] for t in rec["tocs"])
        if same != v.startswith("ok"):
            chk.deferred.append("replay comparison and trace verdict disagree on case %d: %s vs %s" % (i + 1, same, v))
        if v.startswith("ok"):
            base = rec["base"]
            ids = c["exp"]["ids"]
            if [it["id"] - base for it in rec["items"]] != ids["items"] or rec["root"] - base != ids["root"] or rec["max_id"] - base != ids["max"]:
                chk.extra["model_drift"] = chk.extra.get("model_drift", 0) + 1
    chk.extra["replayed_behaviours"] = len(cases)
    mid = cases[len(cases) // 3]
    chk.sample({"generated_adds": mid["adds"], "np": mid["np"], "post": mid["post"], "link": mid["link"], "dests": mid["dests"],
                "spec_readback": mid["exp"].get("toc"), "lopdf_tocs": [t.get("toc") for t in results[len(cases) // 3].get("tocs", [])][-1:]})
    chk.exhaustive = True
    # ---------------- (V): recorded runs judged by the declarative layer
    n = 250 if quick else 4000
    deep = 10000 if quick else 100000
    tr = os.path.join(w, "rec.ndjson")
    run_bin("c17", ["record", "--seed", vlib.seed(), "--n", n, "--deep", deep, "--out", tr], timeout=3000)
    recs = read_ndjson(tr)
    light = [r for r in recs if depth(r) < 10000]
    heavy = [r for r in recs if depth(r) >= 10000]
    judged = judge_records(chk, light, os.path.join(w, "rec.trace.ndjson"), "c17rec" + SFX, 1 if quick else 8)
    judged += judge_records(chk, heavy, os.path.join(w, "deep.trace.ndjson"), "c17deep" + SFX, 1 if quick else 3, xmx="8g")
    # vacuity of the recorded set, from the chosen inputs only (every record carries its inputs, also after a crash)
    have, big, variants = set(), 0, set()
    for rec in recs:
        if not is_chain(rec):
            have |= classes(rec["adds"])
            big += len(rec["adds"]) >= 15
        variants.add((min(rec.get("post", 0), 1), rec.get("link", "mut")))
    nest = {max_nesting(rec) for rec in recs}
    rnd = [rec for rec in recs if "cls" not in rec]
    if len(rnd) != n or need - have or big == 0 or not any(depth(rec) == 6 for rec in rnd) or not {100, 101} <= nest or len(variants) != 4:
        chk.deferred.append("vacuous trace set: %d random runs, classes %s, %d forests >= 15, depth 6 reached: %s, paren nestings %s, variants %s" % (
            len(rnd), sorted(need - have), big, any(depth(rec) == 6 for rec in rnd), sorted(x for x in nest if x > 50), sorted(variants)))
    want_deep = {(d, p) for d in (10, 100, 1000, 10000, 100000) if d <= deep for p in ("adjust", "build", "toc")}
    got_deep = {(rec["n"], rec["small"][0]) for rec in recs if rec.get("cls") == "deep" and is_chain(rec) and len(rec["small"]) == 1}
    got_dests = {rec.get("dests") for rec in recs if rec.get("cls") == "dests"}
    rooms = [rec for rec in recs if rec.get("cls") == "ids"]
    if want_deep - got_deep or got_dests != set(DESTS) or not any(exhausted(r) for r in rooms) \
            or not any(room(r) == 1 + 2 * nbook(r) for r in rooms) or (not quick and not any(r["fmts"] for r in rooms)):
        chk.deferred.append("vacuous trace set: chains missing %s, destination tables %s, rooms %s" % (
            sorted(want_deep - got_deep), sorted(x for x in got_dests if x), [room(r) for r in rooms]))
    chk.extra["recorded_runs"] = len(recs)
    chk.extra["recorded_max_bookmarks"] = max(nbook(rec) for rec in recs)
    chk.extra["recorded_max_depth"] = max(depth(rec) for rec in recs)
    s = recs[0]
    if "panic" not in s:
        chk.sample({"recorded_adds": s["adds"][:6], "dests": s["dests"], "lopdf_items": s["items"][:4], "later": s["later"],
                    "lopdf_toc": s["tocs"][0]["toc"][:6]})
    # ---------------- (B): negative controls (need one run of each record format that was judged ok, to corrupt it)
    base = cbase = None
    for rec, v in judged:
        if v not in ("ok", "ok-drift"):
            continue
        if is_chain(rec):
            if cbase is None and 10 <= rec["n"] <= 1000 and len(rec["tocs"]) >= 2 and rec["np"] >= 2:
                cbase = rec
        elif base is None and len(rec["adds"]) >= 4 and any(it["next"] for it in rec["items"]) \
                and any(it["first"] for it in rec["items"]) and len(rec["oldids"]) >= 2 and len(rec["tocs"]) == 3:
            base = rec
    chk.extra["negative_controls_rejected"] = 0
    chk.extra["negative_controls"] = 0
    for b, make, expect, nm in ((base, negative_controls, NEG, "c17neg"), (cbase, negative_controls_chain, NEG_CHAIN, "c17negc")):
        if b is None:
            chk.deferred.append("no record suitable for the negative controls (%s)" % nm)
            continue
        negs = make(b)
        ntr = os.path.join(w, nm + ".ndjson")
        write_ndjson(ntr, negs)
        nv, _, _ = judge_with_tlc(ntr, len(negs), nm + SFX)
        chk.extra["negative_controls_rejected"] += sum(1 for v in nv if not v.startswith("ok"))
        chk.extra["negative_controls"] += len(negs)
        if nv != expect:
            chk.deferred.append("negative controls %s: expected %s, validator said %s" % (nm, expect, nv))
    rc = chk.finish()
    if rc == 0 and chk.deferred:
        raise vlib.ToolError("; ".join(chk.deferred[:3]))
    return rc
