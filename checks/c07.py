"""C07 — incremental updates: latest revision wins, history preserved."""
import json, os, collections
from concurrent.futures import ThreadPoolExecutor
import vlib
from vlib import Check, tlc, run_bin, workdir, write_ndjson, read_ndjson
import c02

META = {
    "property_id": "C07",
    "level": "model_checking",
    "technique": "TLA+ Revisions!View + multi-revision Producer (object streams, Prev-chained tables/streams) model-checked against the StrictReader; "
                 "generated histories replayed into lopdf's loader; recorded IncrementalDocument save/load rounds judged by TLC (Lifecycle!JudgeSaveInc)",
    "text": "Histories of 1-3 revisions (each update replacing a random subset of objects and adding new ones, updated objects stored plainly or in "
            "object streams, including objects that move from one object stream to another) are laid out by the specification's Producer in every "
            "cross-reference style with all lexical freedoms; TLC checks that its StrictReader recovers Revisions!View (newest definition wins). lopdf "
            "loads each whole file and every prefix ending at a revision boundary; TLC compares the result with the view. Separately, seeded rounds of "
            "IncrementalDocument::load_from -> edits -> save_to -> load_mem are recorded and TLC checks: previous bytes kept as a prefix, exactly one new "
            "revision holding exactly the new/replaced objects, Prev chain, previous view unmodified, untouched objects unchanged, result loads to the overlay.",
    "note": "Trusted: TLC, Syntax/FileStructure/Revisions/SyntaxProducer (checked against each other by TLC), harness projection. Histories and edit rounds are "
            "seeded samples (<= 3 revisions, <= ~12 objects). Differences fully explained by C02's known finding (raw CR in literal strings) are not C07's subject "
            "and are counted as notes.",
    "bins": ["c02", "c07"],
    "modules": ["Gen_File.tla", "Trace_Lifecycle.tla", "Revisions.tla"],
    "design_ref": "DESIGN.md section 4 C07",
}


def run(tier):
    chk = Check("C07", META["level"], tier)
    chk.rule = ("(a) multi-revision files emitted by the TLA+ Producer (whole file + each prefix), (b) recorded IncrementalDocument rounds; "
                "distinct by bytes; non-trivial when the file has >= 2 revisions or the round changes >= 1 object")
    chk.assumptions = [META["note"]]
    w = workdir("c07")
    # (G) histories laid out by the Producer
    runs = [("q", 30, 150, vlib.seed() + 7)] if tier == "quick" else [("t%d" % i, 60, 400, vlib.seed() * 37 + i) for i in range(10)]
    with ThreadPoolExecutor(max_workers=10) as ex:
        res = list(ex.map(lambda a: c02.gen_files(w, a[0], a[1], a[2], a[3], 6, 3), runs))
    files = []
    for r, cases in res:
        chk.add_tlc(r)
        files += cases
    # hybrid-reference histories (7.5.8.4): Prev-chained cross-reference TABLES whose updated objects live in object
    # streams, reached through the section's XRefStm - "tables ... with updated objects stored ... inside object streams"
    hruns = [("h", 30, 60, vlib.seed() + 77)] if tier == "quick" else [("h%d" % i, 60, 300, vlib.seed() * 41 + i) for i in range(4)]
    with ThreadPoolExecutor(max_workers=4) as ex:
        hres = list(ex.map(lambda a: c02.gen_files(w, a[0], a[1], a[2], a[3], 6, 3, cfg="Gen_File_hybrid.cfg"), hruns))
    hybrid = []
    for r, cases in hres:
        chk.add_tlc(r)
        hybrid += [f for f in cases if f.get("hybrid")]
    if len(hybrid) < 10:
        raise vlib.ToolError("vacuous: only %d hybrid-reference files generated" % len(hybrid))
    chk.extra["hybrid_reference_files"] = len(hybrid)
    files += hybrid
    multi = [f for f in files if f["nrevs"] >= 2]
    if len(multi) < len(files) // 4:
        raise vlib.ToolError("vacuous: only %d of %d generated files have >= 2 revisions" % (len(multi), len(files)))
    if not any(f["redefined"] > 0 and f["ncomp"] > 0 for f in multi):
        raise vlib.ToolError("vacuous: no history redefines an object in a file with object streams")
    chk.extra["histories"] = dict(collections.Counter("%s/%d revs" % (f["xref"], f["nrevs"]) for f in files))
    fin, tr = os.path.join(w, "files.ndjson"), os.path.join(w, "trace.ndjson")
    write_ndjson(fin, files)
    run_bin("c02", ["load", "--in", fin, "--out", tr])
    recs = read_ndjson(tr)
    judge(chk, recs, "c07g", tier, from_producer=True)
    # (V) IncrementalDocument rounds
    tr2 = os.path.join(w, "inc.ndjson")
    # bases: lopdf's own saves, plus Producer files (1-2 revisions; compressed xref streams, object streams, XRef
    # stream objects below the highest number, junk before the header)
    nb = 40 if tier == "quick" else 600
    bases = [f for f in files if f["nrevs"] <= 2 and not f.get("hybrid")][:nb - nb // 4]
    # ... a quarter of them hybrid-reference files: an update of an update of such a file must not bring the base's
    # XRefStm back (the loaded trailer is what new_from_prev clones)
    hb = [f for f in files if f["nrevs"] <= 2 and f.get("hybrid")][:nb // 4]
    if len(hb) < 5:
        raise vlib.ToolError("vacuous: only %d hybrid-reference bases for the IncrementalDocument rounds" % len(hb))
    bases += hb
    bp = os.path.join(w, "bases.ndjson")
    write_ndjson(bp, bases)
    chk.extra["producer_bases"] = dict(collections.Counter("%s/%s%s" % (f["xref"], f["sfilter"], "/selfgap" if f.get("selfgap") else "") for f in bases))
    run_bin("c07", ["record", "--seed", vlib.seed(), "--n", 60 if tier == "quick" else 1500, "--bases", bp, "--out", tr2])
    recs2 = read_ndjson(tr2)
    judge(chk, recs2, "c07v", tier, from_producer=False)
    if sum(1 for r in recs2 if r["ev"] == "SaveInc") < 20 and not chk.violations:
        raise vlib.ToolError("vacuous: too few SaveInc events recorded")
    for r in recs2:
        if r["ev"] == "SaveInc" and r["res"] == "ok" and r.get("round") == 1:
            chk.sample({"second_round_incremental_file_tail_ascii": bytes(r["bytes"][-500:]).decode("latin-1")}, cap=2)
            break
    for f in multi[:1]:
        chk.sample({"knobs": {k: f[k] for k in ("xref", "w", "nrevs", "ncomp", "redefined")}, "file_ascii": bytes(f["bytes"]).decode("latin-1")[:700]})
    # (B) negative controls on a SaveInc record: drop the prefix property / claim a different new object
    neg_done = 0
    for i, r in enumerate(recs2):
        if r["ev"] == "SaveInc" and r["res"] == "ok" and len(r["newdoc"]["objects"]) >= 1:
            # find the preceding file-producing event
            j = i - 1
            while j >= 0 and recs2[j]["ev"] not in ("Save", "File", "SaveInc"):
                j -= 1
            if j < 0 or recs2[j]["ev"] == "File":
                continue
            base = [recs2[j], r]
            m1 = json.loads(json.dumps(base))
            m1[1]["bytes"][5] = (m1[1]["bytes"][5] + 1) % 256          # history bytes rewritten
            m2 = json.loads(json.dumps(base))
            m2[1]["newdoc"]["objects"] = m2[1]["newdoc"]["objects"][1:]  # tail holds an object nobody changed
            m3 = json.loads(json.dumps(base))
            m3[1]["prev_after"]["max_id"] = m3[1]["prev_after"]["max_id"] + 1  # previous view touched
            for name, m in (("prefix", m1), ("tail", m2), ("prevfrozen", m3)):
                vs, _, _ = vlib.validate_trace("Trace_Lifecycle.tla", "Trace_Lifecycle.cfg", m, "c07-neg-" + name)
                if vs[1]["v"].startswith("ok"):
                    raise vlib.ToolError("negative control %s accepted by Trace_Lifecycle" % name)
                neg_done += 1
            break
    if neg_done == 0 and not chk.violations:
        raise vlib.ToolError("no record suitable for negative controls")
    chk.extra["negative_controls_rejected"] = neg_done
    return chk.finish()


def judge(chk, recs, name, tier, from_producer, prefix="C07"):
    bounds = [i for i, r in enumerate(recs) if r["ev"] in ("File", "Reset")]
    verdicts, states, trans = vlib.validate_trace("Trace_Lifecycle.tla", "Trace_Lifecycle.cfg", recs, name,
                                                  boundaries=bounds, chunks=1 if tier == "quick" else 12)
    chk.states += states
    chk.transitions += trans
    judged = [r for r in recs if r["ev"] != "Reset"]
    if len(verdicts) != len(judged):
        raise vlib.ToolError("trace validator judged %d of %d events" % (len(verdicts), len(judged)))
    lastfile = None
    for v in verdicts:
        rec = recs[v["i"]]
        ev = rec["ev"]
        if ev in ("File", "Save"):
            lastfile = rec
            if ev == "File" and from_producer and not v["v"].startswith("ok"):
                raise vlib.ToolError("StrictReader rejects a Producer file: %s" % v["d"])
            continue
        if v["v"] == "ok-skipped":
            continue
        if ev == "SaveInc":
            chk.case(json.dumps(rec["bytes"]) if rec["newdoc"]["objects"] else None)
            if v["v"].startswith("ok"):
                chk.traces += 1
            else:
                junk = lastfile is not None and lastfile["ev"] == "File" and (lastfile.get("knobs", {}).get("junk") or 0) > 0
                err = v["d"].get("err", "")
                sig = prefix + ":saveinc.junk-offsets" if (junk and v["v"] == "saveinc-file-invalid" and "offset" in err) else prefix + ":" + v["v"] + (":" + err if err else "")
                chk.violation(sig, {"verdict": v["d"], "newdoc": rec["newdoc"], "bytes": rec["bytes"], "round": rec.get("round")})
            lastfile = rec
            continue
        if ev == "LoadInc":
            chk.violation(prefix + ":" + v["v"], {"verdict": v["d"]})
            continue
        # Load
        src = lastfile
        chk.case(json.dumps(src["bytes"]) if src is not None else None)
        if v["v"].startswith("ok"):
            chk.traces += 1
            continue
        sigs = [s for s in c02.signatures(prefix, v)]
        own = [s for s in sigs if not s.startswith("C02:")]
        if not own:
            chk.extra["notes_c02_known_finding_cases"] = chk.extra.get("notes_c02_known_finding_cases", 0) + 1
            chk.traces += 1
            continue
        for s in own:
            s = {"C07:stale.objstm.objstm": "C07:objstm.moved.container"}.get(s, s)
            chk.violation(s, {"verdict": v["d"], "knobs": src.get("knobs") if src else None, "prefix": src.get("prefix") if src else None,
                              "bytes": src["bytes"] if src else None, "loaded": rec["doc"], "load_result": rec["res"]})
