"""C08 — loading is deterministic under every thread schedule."""
import json, os, re, collections
import vlib
from vlib import Check, tlc, run_bin, workdir, write_ndjson, read_ndjson
import c02

META = {
    "property_id": "C08",
    "level": "model_checking",
    "technique": "TLA+ model of the parallel loading phase (ParallelLoad) checked by TLC over all interleavings; the completion orders it enumerates are forced on "
                 "the real loader through hook H1; loads under rayon pools of 1..16 threads and with a rayon-free build are judged by TLC (Trace_ParallelLoad)",
    "text": "TLC explores every interleaving of the workers of Reader::read on every abstract file of a bounded universe (3 object streams, duplicate numbers "
            "across containers, xref entries absent/normal/compressed) and checks that the merged document equals the single-worker result (Deterministic) and "
            "takes each compressed object from the container its xref entry names; the same model with the pre-repair merge (first block wins) is required to "
            "violate it. Every completion order the model reaches for n <= 4 (6 in thorough) containers is forced on the real loader via the add-only hook, for "
            "Producer-generated multi-revision files with several object streams; each file is also loaded repeatedly in rayon pools of 1,2,3,4,8,16 threads and by "
            "a lopdf built without rayon; all digests of the projected document (objects, trailer, max_id, version) must coincide. "
            "Filtered loading (Reader::read with a caller's filter) is modelled as the variable drop of ParallelLoad and checked the same way: TLC over every filter of "
            "the bounded universe (Deterministic, LatestWins, FilterRestricts), the real loader with six pure filters under pools, forced orders and the rayon-free build, "
            "judged by Trace_ParallelLoad!JudgeFiltered. Deferred streams (content filled in after the merge because their Length is a compressed object; pushed by the "
            "workers in completion order) are the variables defer/late/filled: TLC checks that every stream whose late read can succeed is filled in whatever the "
            "others do (AllFilled) and refutes a loader that stops at the first failure; on the real loader the order is forced ascending and descending through hook H2, "
            "on files where one such stream has lost its Length. Header numbers (hdr): two cross-reference entries may lead to object streams whose headers claim the "
            "same number; blocks are ordered by (header number, entry) - TLC refutes the stable sort by header number alone, and byte-level variants with two object "
            "streams under one header number are loaded under every forced order.",
    "note": "Trusted: TLC, the transcription of the parallel phase in ParallelLoad.tla, hooks H1 and H2 (src/verif_hooks.rs, 70 lines, compiled only with --cfg lopdf_verif), "
            "the FNV digest of the projection. Real thread schedules are sampled; the order in which blocks reach the merge is enumerated exhaustively for n <= 6.",
    "bins": ["c02", "c08"],
    "seq_bins": ['c08seq'],
    "modules": ["MC_ParallelLoad.tla", "Trace_ParallelLoad.tla", "Gen_File.tla"],
    "design_ref": "DESIGN.md section 4 C08",
}


def run(tier):
    chk = Check("C08", META["level"], tier)
    chk.rule = ("one case = one load of a generated file under one schedule (plain, pool of k threads, forced completion order); "
                "non-trivial when the file has >= 2 object streams; distinct by (file bytes, schedule)")
    chk.assumptions = [META["note"]]
    w = workdir("c08")
    # (M) the design: deterministic as it is, order-dependent as it was
    r = tlc("MC_ParallelLoad.tla", "MC_ParallelLoad_quick.cfg", workers=4 if tier == "quick" else 16, coverage=True, timeout=1800)
    vlib.require_coverage(r, ["TakeS", "Finish", "Merge"])
    chk.add_tlc(r)
    # filtered loading: every filter over the bounded universe, every interleaving
    r = tlc("MC_ParallelLoad.tla", "MC_ParallelLoad_filter.cfg", workers=8 if tier == "quick" else 16, timeout=1800, name="pl-filter")
    chk.add_tlc(r)
    r = tlc("MC_ParallelLoad.tla", "MC_ParallelLoad_filterw.cfg", workers=4, timeout=1800, allow_violation=True, name="pl-filterw")
    if r.violation != "WitnessFilter":
        raise vlib.ToolError("vacuous: no modelled filter removes an object the plain load has")
    # deferred streams (filled in after the merge, pushed in completion order): each on its own
    r = tlc("MC_ParallelLoad.tla", "MC_ParallelLoad_defer.cfg", workers=4, timeout=1800, name="pl-defer")
    chk.add_tlc(r)
    r = tlc("MC_ParallelLoad.tla", "MC_ParallelLoad_deferstop.cfg", workers=4, timeout=1800, allow_violation=True, name="pl-deferstop")
    if r.violation != "Deterministic":
        raise vlib.ToolError("vacuous: a loader that stops filling in at the first failure is not refuted by the model")
    # object streams whose headers claim the same number: ordered by (header number, cross-reference entry)
    r = tlc("MC_ParallelLoad.tla", "MC_ParallelLoad_hdr.cfg", workers=4, timeout=1800, name="pl-hdr")
    chk.add_tlc(r)
    r = tlc("MC_ParallelLoad.tla", "MC_ParallelLoad_hdrtie.cfg", workers=4, timeout=1800, allow_violation=True, name="pl-hdrtie")
    if r.violation != "Deterministic":
        raise vlib.ToolError("vacuous: a loader that leaves equal header numbers in completion order is not refuted by the model")
    r = tlc("MC_ParallelLoad.tla", "MC_ParallelLoad_asis.cfg", workers=4, timeout=1800, allow_violation=True, name="pl-asis")
    if r.violation != "Deterministic":
        raise vlib.ToolError("vacuous: the pre-repair merge (first block wins) is not refuted by the model")
    chk.extra["model_as_it_was_violates"] = "Deterministic"
    orders = []
    for cfg in (["MC_ParallelLoad_orders.cfg"] if tier == "quick" else ["MC_ParallelLoad_orders.cfg", "MC_ParallelLoad_orders6.cfg"]):
        r = tlc("MC_ParallelLoad.tla", cfg, workers=4 if tier == "quick" else 16, timeout=3000, xmx="8g")
        chk.add_tlc(r)
        orders += r.tagged("REPLAY")
    # also the orders for n = 2, 3 (prefixes of the model's runs): derive by restriction of the emitted n=4 orders
    uniq = {}
    for o in orders:
        uniq[(o["n"], tuple(o["order"]))] = o
        for n in range(2, o["n"]):
            sub = [x for x in o["order"] if x < n]
            uniq[(n, tuple(sub))] = {"n": n, "order": sub}
    orders = list(uniq.values())
    by_n = collections.Counter(o["n"] for o in orders)
    import math
    for n, cnt in by_n.items():
        if cnt != math.factorial(n):
            raise vlib.ToolError("model enumerated %d of %d completion orders for n=%d" % (cnt, math.factorial(n), n))
    chk.extra["forced_orders_by_n"] = {str(k): v for k, v in sorted(by_n.items())}
    of = os.path.join(w, "orders.ndjson")
    write_ndjson(of, orders)
    # (G) files with several object streams from the Producer (histories)
    res = [c02.gen_files(w, "q", 40, 160 if tier == "quick" else 1500, vlib.seed() + 8, 7, 3, cfg="Gen_File_ghosts.cfg", deep=True)]
    files = []
    tables = []
    for r, cases in res:
        chk.add_tlc(r)
        files += [f for f in cases if f["xref"].startswith("stream")]
        tables += [f for f in cases if not f["xref"].startswith("stream")]
    files.sort(key=lambda f: (-(f["ghost"] > 0 and f["ncomp"] >= 2), -f["ncomp"]))
    files = files[:60 if tier == "quick" else 400]
    if sum(1 for f in files if f["ghost"] > 0 and f["ncomp"] >= 2) < 3:
        raise vlib.ToolError("vacuous: fewer than 3 files whose object streams share an unreferenced member")
    # adversarial variants: inside one (unfiltered) object stream the second member gets the number of the first
    dups = []
    for f in files:
        b = bytes(f["bytes"])
        done = False
        for hm in re.finditer(rb"stream\r?\n((?:\d+[ \t\x0c\x00]+\d+[ \r\n\t\x0c\x00]+){2,})", b):
            pairs = list(re.finditer(rb"(\d+)[ \t\x0c\x00]+(\d+)[ \r\n\t\x0c\x00]+", hm.group(1)))
            for i in range(len(pairs)):
                for j in range(i + 1, len(pairs)):
                    a, c = pairs[i].group(1), pairs[j].group(1)
                    if len(a) == len(c) and a != c and not done:
                        st = hm.start(1) + pairs[j].start(1)
                        nb = b[:st] + a + b[st + len(c):]
                        g = dict(f)
                        g["bytes"] = list(nb)
                        g["dupmember"] = True
                        dups.append(g)
                        done = True
    # variants in which two members of one (unfiltered) object stream with DIFFERENT numbers claim the SAME offset: an
    # offset names at most one object, and which of the two numbers gets it must not depend on the schedule
    sameoff = []
    for f in files:
        b = bytes(f["bytes"])
        done = False
        for hm in re.finditer(rb"stream\r?\n((?:\d+[ \t\x0c\x00]+\d+[ \r\n\t\x0c\x00]+){2,})", b):
            pairs = list(re.finditer(rb"(\d+)[ \t\x0c\x00]+(\d+)[ \r\n\t\x0c\x00]+", hm.group(1)))
            for i in range(len(pairs)):
                for j in range(i + 1, len(pairs)):
                    oi, oj = pairs[i].group(2), pairs[j].group(2)
                    if len(oi) == len(oj) and oi != oj and pairs[i].group(1) != pairs[j].group(1) and not done:
                        st = hm.start(1) + pairs[j].start(2)
                        g = dict(f)
                        g["bytes"] = list(b[:st] + oi + b[st + len(oj):])
                        g["sameoffset"] = True
                        sameoff.append(g)
                        done = True
    sameoff = sameoff[:20 if tier == "quick" else 150]
    chk.extra["variants_with_two_members_at_one_offset"] = len(sameoff)
    if len(sameoff) < 3:
        raise vlib.ToolError("vacuous: fewer than 3 variants with two members of an object stream at one offset")
    # variants in which the header of the second object stream carries the NUMBER OF THE FIRST one (the cross-reference
    # entries still lead to both): a loader that keys the blocks by header number must break the tie independently of
    # which worker finishes first
    samehdr = []
    SEPH = rb"(?:[ \r\n\t\x0c\x00]|%[^\r\n]*[\r\n])+"
    for f in files:
        b = bytes(f["bytes"])
        heads = []
        for m in re.finditer(rb"(?<![0-9])(\d+)" + SEPH + rb"0" + SEPH + rb"obj", b):
            body = b[m.end():m.end() + 400]
            cut = min([x for x in (body.find(b"stream"), body.find(b"endobj")) if x >= 0] or [len(body)])
            if b"/ObjStm" in body[:cut]:
                heads.append(m)
        done = False
        for i in range(len(heads)):
            for j in range(len(heads)):
                a, c = heads[i].group(1), heads[j].group(1)
                if i != j and len(a) == len(c) and a != c and not done:
                    g = dict(f)
                    g["bytes"] = list(b[:heads[j].start(1)] + a + b[heads[j].end(1):])
                    g["samehdr"] = True
                    samehdr.append(g)
                    done = True
    samehdr = samehdr[:15 if tier == "quick" else 120]
    chk.extra["variants_with_two_object_streams_under_one_header_number"] = len(samehdr)
    if len(samehdr) < 3:
        raise vlib.ToolError("vacuous: fewer than 3 variants with two object streams under one header number")
    # variants of equal length in which every bare integer object (e.g. an indirect stream Length) holds another
    # value: loaded alternately with their originals from one buffer in the shared-buffer phase
    ivars = []
    tables = tables[:20 if tier == "quick" else 150]        # all objects plain: indirect stream lengths are bare integer objects
    files = files + tables
    for f in files:
        b = bytes(f["bytes"])
        SEP = rb"(?:[ \r\n\t\x0c\x00]|%[^\r\n]*[\r\n])+"
        SEP0 = rb"(?:[ \r\n\t\x0c\x00]|%[^\r\n]*[\r\n])*"
        ms = list(re.finditer(rb"(?<![0-9])(\d+)" + SEP + rb"0" + SEP + rb"obj" + SEP0 + rb"\+?(\d+)" + SEP + rb"endobj", b))
        if ms and f["sfilter"] == "none":
            nb = bytearray(b)
            for m in ms:
                v = int(m.group(2))
                if v >= 1:
                    nv = str(v - 1).rjust(len(m.group(2)), "0").encode()
                    nb[m.start(2):m.end(2)] = nv
            if bytes(nb) != b:
                g = dict(f)
                g["bytes"] = list(nb)
                g["intvariant"] = True
                ivars.append(g)
    # variants in which one stream with an indirect Length loses its Length key (same byte length: "Lengtx"): its late
    # read fails, the other deferred streams must still be filled in, in every order
    nolen = []
    for f in files:
        b = bytes(f["bytes"])
        SEPL = rb"(?:[ \r\n\t\x0c\x00]|%[^\r\n]*[\r\n])+"
        occ = list(re.finditer(rb"/Length(?=" + SEPL + rb"\d+" + SEPL + rb"\d+" + SEPL + rb"R)", b))
        if len(occ) >= 2:
            for m in occ[:3]:
                g = dict(f)
                g["bytes"] = list(b[:m.start()] + b"/Lengtx" + b[m.end():])
                g["nolength"] = True
                nolen.append(g)
    nolen = nolen[:30 if tier == "quick" else 300]
    chk.extra["variants_with_a_stream_that_lost_its_length"] = len(nolen)
    files = files + nolen
    files = files + ivars[:12 if tier == "quick" else 100]
    chk.extra["integer_object_variants"] = len(ivars[:12 if tier == "quick" else 100])
    if len(dups) < 3:
        raise vlib.ToolError("vacuous: fewer than 3 variants with a duplicated member number inside one object stream")
    files = files + dups[:20 if tier == "quick" else 150] + samehdr + sameoff
    chk.extra["files_with_duplicate_member_in_one_stream"] = len(dups[:20 if tier == "quick" else 150])
    if sum(1 for f in files if f["ncomp"] >= 2) < 10:
        raise vlib.ToolError("vacuous: fewer than 10 generated files with >= 2 object streams")
    nflt = 40 if tier == "quick" else 250          # the first files (most object streams first) are also loaded through filters
    fin = os.path.join(w, "files.ndjson")
    write_ndjson(fin, files)
    outp, outs = os.path.join(w, "par.ndjson"), os.path.join(w, "seq.ndjson")
    run_bin("c08", ["--in", fin, "--orders", of, "--reps", 2 if tier == "quick" else 6, "--max-perm-n", 4 if tier == "quick" else 6,
                    "--filtered-files", nflt, "--out", outp])
    run_bin("c08seq", [fin, outs, nflt], crate="harness-seq")
    seq = {r["file"]: r for r in read_ndjson(outs)}
    recs = read_ndjson(outp)
    fresh = {r["file"]: r for r in recs if r["kind"] == "fresh"}
    for r in recs:
        # (a load the rayon-free build did not get to - e.g. its plain load of the file failed - differs from it)
        missing = {"hash": "-", "res": "not-loaded-by-the-sequential-build"}
        ref = seq.get(r["file"], missing) if r["file"] >= 200000 or r["file"] < 100000 else fresh.get(r["file"], missing)
        r["seqhash"] = ref["hash"]
        r["seqres"] = ref["res"]
    if sum(1 for r in recs if r["kind"] == "shared") < 20:
        raise vlib.ToolError("vacuous: fewer than 20 loads from a shared buffer")
    verdicts, states, trans = vlib.validate_trace("Trace_ParallelLoad.tla", "Trace_ParallelLoad.cfg", recs, "c08")
    chk.states += states
    chk.transitions += trans
    if len(verdicts) != len(recs):
        raise vlib.ToolError("trace validator judged %d of %d loads" % (len(verdicts), len(recs)))
    forced = 0
    nfiltered = collections.Counter()
    for v in verdicts:
        rec = recs[v["i"]]
        f = files[rec["src"] if rec["kind"] == "filtered" else rec["file"] % 100000]
        if rec["kind"] == "filtered":
            chk.case((rec["file"], json.dumps(rec["sched"])) if rec["dropset"] else None)
            nfiltered[v["v"]] += 1
        else:
            chk.case((rec["file"], rec["kind"], rec.get("threads"), rec.get("rep"), tuple(rec.get("order", []))) if len(rec["containers"]) >= 2 else None)
        if v["v"].startswith("ok"):
            chk.traces += 1
            forced += v["v"] == "ok-forced-order"
        else:
            chk.violation("C08:" + v["v"], {"schedule": {k: rec.get(k) for k in ("kind", "threads", "rep", "order", "observed", "filter", "sched", "dropset", "ids")},
                                            "hash": rec["hash"], "seqhash": rec["seqhash"], "knobs": {k: f.get(k) for k in ("xref", "nrevs", "ncomp", "redefined", "ghost", "dupmember", "samehdr", "nolength", "sameoffset")},
                                            "bytes": f["bytes"]})
    if forced < 50 and not chk.violations:
        raise vlib.ToolError("vacuous: only %d loads with a forced completion order" % forced)
    chk.extra["loads_with_forced_order"] = forced
    dl = [r for r in recs if r["kind"] == "defer"]
    chk.extra["loads_with_forced_deferred_order"] = len(dl)
    chk.extra["of_those_with_a_failing_late_read"] = sum(1 for r in dl if files[r["file"]].get("nolength"))
    if (len(dl) < 20 or chk.extra["of_those_with_a_failing_late_read"] < 6) and not chk.violations:
        raise vlib.ToolError("vacuous: %d loads with a forced order of the deferred streams, %d of them with a failing late read"
                             % (len(dl), chk.extra["of_those_with_a_failing_late_read"]))
    chk.extra["filtered_loads_by_verdict"] = dict(nfiltered)
    if nfiltered["ok-filtered-drop"] < 100 and not chk.violations:
        raise vlib.ToolError("vacuous: only %d filtered loads in which the filter dropped something" % nfiltered["ok-filtered-drop"])
    dropped_containers = sum(1 for r in recs if r["kind"] == "filtered" and set(r["dropset"]) & set(r["pcontainers"]))
    chk.extra["filtered_loads_dropping_an_object_stream"] = dropped_containers
    if dropped_containers < 20 and not chk.violations:
        raise vlib.ToolError("vacuous: only %d filtered loads in which an object stream was dropped" % dropped_containers)
    natural = collections.Counter(tuple(r["observed"]) != tuple(r["containers"]) for r in recs if r["kind"] == "pool" and len(r["containers"]) >= 2)
    chk.extra["pool_loads_with_out_of_order_completion"] = natural[True]
    chk.sample({"file_knobs": {k: files[0][k] for k in ("xref", "nrevs", "ncomp", "redefined")},
                "loads": [{k: r.get(k) for k in ("kind", "threads", "order", "observed", "hash")} for r in recs[:3] + [x for x in recs if x["kind"] == "perm"][:2]]})
    # (B) negative control: a load whose digest differs must be rejected
    neg = json.loads(json.dumps(recs[:3]))
    neg[2]["hash"] = "0000000000000000"
    vs, _, _ = vlib.validate_trace("Trace_ParallelLoad.tla", "Trace_ParallelLoad.cfg", neg, "c08-neg")
    if vs[2]["v"].startswith("ok"):
        raise vlib.ToolError("negative control accepted by Trace_ParallelLoad")
    chk.extra["negative_controls_rejected"] = 1
    return chk.finish()
