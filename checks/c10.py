"""C10 — renumbering objects preserves the document graph."""
import json, os, hashlib, subprocess, time
import vlib
from vlib import Check, tlc, run_bin, workdir, write_ndjson, read_ndjson, log

META = {
    "property_id": "C10",
    "level": "model_checking",
    "technique": "TLA+ spec (Renumber/RenumberSys) model-checked by TLC; TLC-enumerated documents replayed into "
                 "lopdf's renumber_objects_with; recorded before/after pairs of lopdf judged by Trace_Renumber",
    "text": "TLC enumerates every document of a family of small layouts (catalog, page-tree root, up to 3 pages with Parent "
            "back-references, further objects with reference slots; every injective assignment of sparse object numbers so "
            "that page ids are in any order, generations 0/1, shared, cyclic, self and dangling references, bookmarks on "
            "pages and (0,0) hung together as roots, children, grandchildren and entries under no root, reference slots nested "
            "up to the parser's limit of 48 containers, start values below/inside/above the old range), runs renumber_objects_with transcribed action by action "
            "(page-order pass, dense pass, traverse_objects, bookmark table renamed through the whole map) and checks the result against the "
            "declarative statement: a functional, injective renaming found by lock-step traversal from the two trailers "
            "under which trailer, reachable objects, page sequence and bookmark targets are the originals renamed, numbers "
            "consecutive from start, max_id the last one, dangling references still dangling. The model as the code is (after "
            "seven fix: commits) has no counter-example on any layout, including a page listed twice in Kids, two live objects "
            "under one object number and bookmarks on ids that name no object; with the seven repaired defects seeded back "
            "into the model (two control configurations) the only counter-examples are exactly their seven "
            "signatures (negative control of the declarative layer). Every generated "
            "document is then renumbered by lopdf and the before/after pair judged by TLC with the declarative layer only; "
            "so are before/after pairs of seeded random reference graphs of up to 16 objects and of two deterministic families "
            "(a reference inside 1, 2, 10, 47, 48 nested arrays / dictionaries / both, in an object and in the trailer; bookmark "
            "forests with grandchildren, entries of bookmark_table under no root, ids listed under two parents or twice under "
            "one). Every entry of bookmark_table counts as a bookmark whose target must follow the renaming.",
    "note": "Trusted: TLC, the projection in harness/src/wire.rs, Renumber!Acceptable as the reading of the statement "
            "(generations are not required to be preserved; references held by objects that neither the trailer nor a bookmark "
            "reaches need not be renamed). "
            "Exhaustive only within the model bounds (<=4 objects quick, <=5 thorough); beyond that sampled. Not covered: page "
            "trees with cycles or deeper than two levels (C12/C13), nesting beyond the parser's limit, start + count - 1 beyond "
            "u32::MAX (unsatisfiable; observed only), an object numbered 0 in the input, encrypt-then-renumber (C05/C10 "
            "interplay, in neither statement). The build without overflow checks is exercised in the thorough tier only.",
    "design_ref": "DESIGN.md section 4 C10",
}

MC_ACTIONS = ["Build1", "Build2", "Build3", "BeginS", "PagePairS", "PageFinishS", "DensePlanS", "DensePairS",
              "DenseFinishS"]
MC_ACTIONS_REPAIRED = [a for a in MC_ACTIONS] + ["DenseFinishRepaired"]   # the code as it is (saturating max_id)
FORMER_FINDINGS = ["bookmark.chain", "dangling.capture", "dangling.capture.pageorder", "panic.empty0",
                   "pageorder.dupkids", "pageorder.numclash", "bookmark.dangling.capture",
                   "bookmark.target.unreachable", "start0.capture", "panic.exactfit", "max_id.exactfit"]


def require_actions(cases, actions):
    """Anti-vacuity (B): every action of the state machine was taken in some printed behaviour.  The spec
    carries the names of the actions taken in the history variable `acts` (TLC's -coverage statistics are
    unusable here: they exhaust the heap on the recursive operators)."""
    taken = set()
    for c in cases:
        taken.update(c["acts"])
    missing = [a for a in actions if a not in taken]
    if missing:
        raise vlib.ToolError("vacuous model run: actions never taken: %s" % missing)


def ids_of(d):
    return [[o[0], o[1]] for o in d["objects"]]


def has_ref_outside(d):
    """some reference in the document names no object (dangling)"""
    ids = {(o[0], o[1]) for o in d["objects"]}
    found = []

    def walk(x):
        if isinstance(x, dict):
            if x.get("k") == "ref":
                if (x["n"], x["g"]) not in ids:
                    found.append((x["n"], x["g"]))
            else:
                for v in x.values():
                    walk(v)
        elif isinstance(x, list):
            for v in x:
                walk(v)

    walk(d["trailer"])
    for o in d["objects"]:
        walk(o[2])
    return found


def ref_nesting(d):
    """largest number of containers (arrays, dictionaries, streams; the trailer counts as one) around a
    reference of the document"""
    best = [0]

    def walk(x, depth):
        k = x.get("k")
        if k == "ref":
            best[0] = max(best[0], depth)
        elif k == "arr":
            for v in x["v"]:
                walk(v, depth + 1)
        elif k == "dict":
            for p in x["v"]:
                walk(p[1], depth + 1)
        elif k == "stream":
            for p in x["d"]:
                walk(p[1], depth + 1)

    walk({"k": "dict", "v": d["trailer"]}, 0)
    for o in d["objects"]:
        walk(o[2], 0)
    return best[0]


def trailer_reach(d):
    """ids of the objects the trailer reaches"""
    objs = {(o[0], o[1]): o[2] for o in d["objects"]}

    def refs(x, acc):
        k = x.get("k")
        if k == "ref":
            acc.add((x["n"], x["g"]))
        elif k == "arr":
            for v in x["v"]:
                refs(v, acc)
        elif k in ("dict", "stream"):
            for p in x["v" if k == "dict" else "d"]:
                refs(p[1], acc)

    todo = set()
    refs({"k": "dict", "v": d["trailer"]}, todo)
    seen = set()
    while todo:
        i = todo.pop()
        if i in seen:
            continue
        seen.add(i)
        if i in objs:
            new = set()
            refs(objs[i], new)
            todo |= new - seen
    return seen & set(objs)


def classes(before, start, bmc=(), limit=0):
    """input classes of one case (anti-vacuity bookkeeping)"""
    c = set("bm-" + x for x in bmc)
    if start == 0 and before["objects"]:
        c.add("start0")
    if limit and before["objects"] and start + len(before["objects"]) - 1 == limit:
        c.add("exactfit")
    if any(o[1] == 65535 for o in before["objects"]):
        c.add("gen65535")
    if before["bms"]:
        reach = trailer_reach(before)
        liveids = {(o[0], o[1]) for o in before["objects"]}
        if any(tuple(t) in liveids and tuple(t) not in reach for t in before["bms"]):
            c.add("bm-unreachable")
    nest = ref_nesting(before)
    for lim in (2, 10, 47, 48):
        if nest >= lim:
            c.add("nest>=%d" % lim)
    nums = [o[0] for o in before["objects"]]
    if before["pages"] != sorted(before["pages"]):
        c.add("pages-out-of-id-order")
    if len(before["pages"]) >= 2:
        c.add("pages>=2")
    if any(o[1] != 0 for o in before["objects"]):
        c.add("generation>0")
    if has_ref_outside(before):
        c.add("dangling")
    if before["bms"]:
        c.add("bookmarks")
    live = {(o[0], o[1]) for o in before["objects"]}
    if any(t[0] != 0 and tuple(t) not in live for t in before["bms"]):
        c.add("bm-dangling")
    if len({tuple(p) for p in before["pages"]}) < len(before["pages"]):
        c.add("dup-kids")
    if len(set(nums)) < len(nums):
        c.add("shared-number")
    if nums:
        if sorted(nums) != list(range(min(nums), min(nums) + len(nums))):
            c.add("sparse")
        if start <= min(nums):
            c.add("start<=min")
        elif start > max(nums):
            c.add("start>max")
        else:
            c.add("start-inside")
    return c


def case_key(rec):
    return hashlib.sha1(json.dumps([rec["before"], rec["start"]], sort_keys=True).encode()).hexdigest()


def detail_of(rec, extra=None):
    d = {"start": rec["start"], "entry": rec.get("entry", "renumber_objects_with"), "before": rec["before"]}
    if rec.get("limit"):
        d["limit"] = rec["limit"]
        d["note"] = "numbers told with %d standing for u32::MAX: lopdf was called with start + (u32::MAX - %d)" % (
            rec["limit"], rec["limit"])
    if "after" in rec:
        d["after"] = rec["after"]
        d["ids_before"] = ids_of(rec["before"])
        d["ids_after"] = ids_of(rec["after"])
    if "panic" in rec:
        d["panic"] = rec["panic"]
    if extra:
        d.update(extra)
    return d


def panic_signature(rec):
    b = rec.get("before")
    if b is not None and not b["objects"] and rec["start"] == 0 and "overflow" in rec["panic"]:
        return "C10:panic.empty0"
    if b is not None and b["objects"] and rec.get("limit") and "overflow" in rec["panic"] \
            and rec["start"] + len(b["objects"]) - 1 == rec["limit"]:
        return "C10:panic.exactfit"
    return "C10:panic"


def trace_verdicts(path, recs, name):
    """run Trace_Renumber over recs (no panics among them); returns the verdict strings in order"""
    write_ndjson(path, recs)
    r = tlc("Trace_Renumber.tla", "Trace_Renumber.cfg", workers=1, env={"TRACE": path}, deque=True, timeout=3000,
            name=name)
    vs = r.tagged("VERDICT")
    if len(vs) != len(recs):
        raise vlib.ToolError("trace validator judged %d of %d records" % (len(vs), len(recs)))
    out = [None] * len(recs)
    for v in vs:
        out[v["i"] - 1] = v["v"]
    if any(v is None for v in out) or any(v == "spec-inconsistent" for v in out):
        raise vlib.ToolError("trace validator: missing or inconsistent verdicts (Acceptable vs Fails)")
    return r, out


def judge(chk, recs, w, name, seen_classes, count_drift=True):
    """judge lopdf's before/after pairs with the declarative layer; returns verdicts (None for panics)"""
    good = [r for r in recs if "panic" not in r]
    r, vs = trace_verdicts(os.path.join(w, name + ".ndjson"), good, "c10" + name)
    chk.add_tlc(r)
    it = iter(vs)
    out = []
    for rec in recs:
        if "panic" in rec:
            chk.case(None)
            chk.violation(panic_signature(rec), detail_of(rec))
            if "before" in rec:
                seen_classes.update(classes(rec["before"], rec["start"], rec.get("bmc", ()), rec.get("limit", 0)))
            out.append(None)
            continue
        v = next(it)
        out.append(v)
        cl = classes(rec["before"], rec["start"], rec.get("bmc", ()), rec.get("limit", 0))
        nontrivial = len(rec["before"]["objects"]) >= 2
        chk.case(case_key(rec) if nontrivial else None)
        seen_classes.update(cl)          # classes of the *inputs* judged (independent of the verdict)
        if v.startswith("ok"):
            chk.traces += 1
            if v == "ok-drift" and count_drift:
                chk.extra["model_drift"] = chk.extra.get("model_drift", 0) + 1
        else:
            for tag in v.split("+"):
                chk.violation("C10:" + tag, detail_of(rec, {"verdict": v, "classes": sorted(cl)}))
    return out


def canon(d):
    return json.dumps([d["objects"], d["trailer"], d["max_id"], d["bms"]], sort_keys=True)


def corruptions(rec):
    """negative controls: variants of an accepted record that must be rejected"""
    out = []
    a = json.loads(json.dumps(rec))
    a["after"]["max_id"] += 1
    out.append(("max_id", a))
    # retarget one reference held by a reachable object of `after` to another existing object
    ids = ids_of(rec["after"])
    b = json.loads(json.dumps(rec))
    done = False
    for pair in b["after"]["trailer"]:
        v = pair[1]
        if v.get("k") == "ref":
            for cand in ids:
                if cand != [v["n"], v["g"]]:
                    v["n"], v["g"] = cand
                    done = True
                    break
        if done:
            break
    if done:
        out.append(("retarget", b))
    if len(rec["after"]["pages"]) >= 2:
        c = json.loads(json.dumps(rec))
        p = c["after"]["pages"]
        p[0], p[1] = p[1], p[0]
        out.append(("pages", c))
    if rec["after"]["bms"] and len(ids) >= 2:
        d = json.loads(json.dumps(rec))
        cur = d["after"]["bms"][0]
        d["after"]["bms"][0] = [x for x in ids if x != cur][0]
        out.append(("bookmark", d))
    return out


def nochecks_binary():
    """harness bin c10 built *without* integer overflow checks (what a default release build of lopdf does;
    the harness profile has them on, as DESIGN 2.7 asks): own target directory, same crate and path dependency"""
    cdir = vlib._crate_dir("harness")
    tdir = os.path.join(vlib.WORK, "c10-nochecks-target-" + hashlib.sha1(vlib.REPO.encode()).hexdigest()[:8])
    env = dict(os.environ, CARGO_NET_OFFLINE="true", CARGO_PROFILE_RELEASE_OVERFLOW_CHECKS="false")
    t0 = time.time()
    p = subprocess.run(["cargo", "build", "--release", "--offline", "--bin", "c10", "--target-dir", tdir], cwd=cdir,
                       env=env, stdout=subprocess.PIPE, stderr=subprocess.STDOUT, text=True)
    if p.returncode != 0:
        log(p.stdout[-3000:])
        raise vlib.ToolError("cargo build (no overflow checks) failed")
    log("[build] harness c10 without overflow checks %.1fs (repo=%s)" % (time.time() - t0, vlib.REPO))
    return os.path.join(tdir, "release", "c10")


def run(tier):
    chk = Check("C10", META["level"], tier)
    chk.rule = ("documents enumerated by TLC (MC_Renumber) and seeded random reference graphs, each with a start value; a "
                "case is non-trivial when the document has at least 2 objects; distinct by (document, bookmarks, start)")
    chk.assumptions = [
        "two live objects may share a number (different generations): the statement quantifies over all documents",
        "page trees are flat or two-level; a page may be listed more than once; a bookmark target is any object (the "
        "trailer need not reach it: it is a root of the renaming of its own), the conventional (0,0), or an id that "
        "names no object (which must still name none afterwards)",
        "every start value with start + count - 1 <= u32::MAX is inside, 0 and the exact fit included; the exact-fit "
        "cases are told to TLC with a small number standing for u32::MAX (uniform shift of the new numbers)",
        "generations are not required to be preserved (the statement fixes object numbers only)",
    ]
    w = workdir("c10")
    quick = tier == "quick"
    workers = 4 if quick else 16
    # (M) the design, as the code is (all deviation switches off since the fix: commits): no counter-example at
    # all (cfg Allowed = {"ok"}, invariant Refines)
    cfg = "MC_Renumber_quick.cfg" if quick else "MC_Renumber_thorough.cfg"
    r = tlc("MC_Renumber.tla", cfg, workers=workers, timeout=3000, env={"C10_PICK": vlib.seed()},
            xmx="4g" if quick else "8g")
    chk.add_tlc(r)
    cases = r.tagged("REPLAY")
    if not cases:
        raise vlib.ToolError("generator produced no behaviours")
    model_verdicts = {}
    for c in cases:
        model_verdicts[c["v"]] = model_verdicts.get(c["v"], 0) + 1
    chk.extra["model_verdicts_as_code_is"] = model_verdicts
    # the transcription of the code as it is may only fail in the classes of the findings that are listed as
    # still open (known_findings/C10.json); with none listed it must be acceptable everywhere
    open_tags = {"ok"} | {sig.split(":", 1)[1] for sig in chk.known}
    model_tags = {t for v in model_verdicts for t in v.split("+")}
    if not model_tags <= open_tags:
        raise vlib.ToolError("model as the code is produced verdicts outside ok + open findings: %s" % sorted(model_tags - open_tags))
    if model_verdicts.get("ok", 0) < len(cases) * 9 // 10:
        raise vlib.ToolError("vacuous: fewer than 90%% of the generated cases are acceptable in the model")
    require_actions(cases, MC_ACTIONS_REPAIRED)
    if not any(c["needs"] for c in cases) or not any(not c["needs"] for c in cases):
        raise vlib.ToolError("vacuous: the generated cases do not both take and skip the page-order pass")
    # (M') negative controls of the declarative layer: the seven repaired defects seeded back into the design
    # (switches on), each on layouts that can show it.  The counter-examples are exactly their signatures
    # (cfg Allowed, checked per clause tag by the invariant Refines), each of them occurs, no other tag occurs,
    # and the variant without deviations is acceptable on every one of these documents (RepairedRefines).
    seeded_all = {}
    for cfg2, want, acts in (("MC_Renumber_quick_seeded.cfg", FORMER_FINDINGS[:4], MC_ACTIONS),
                             ("MC_Renumber_quick_seeded2.cfg", FORMER_FINDINGS[4:7], MC_ACTIONS_REPAIRED),
                             ("MC_Renumber_quick_seeded3.cfg", FORMER_FINDINGS[7:10],
                              [a for a in MC_ACTIONS_REPAIRED if not a.startswith("Page")]),
                             ("MC_Renumber_quick_seeded4.cfg", FORMER_FINDINGS[10:], None)):
        r2 = tlc("MC_Renumber.tla", cfg2, workers=workers, timeout=3000, env={"C10_PICK": 0}, xmx="4g",
                 name=os.path.splitext(cfg2)[0])
        cases2 = r2.tagged("REPLAY")
        if not cases2:
            raise vlib.ToolError("seeded run %s completed no case" % cfg2)
        seeded = {}
        for c in cases2:
            for tag in c["v"].split("+"):
                seeded[tag] = seeded.get(tag, 0) + 1
        missing = [t for t in want if not seeded.get(t)]
        extra = sorted(set(seeded) - set(want) - {"ok"})
        if missing or extra or seeded.get("ok", 0) < len(cases2) // 2:  # noqa
            raise vlib.ToolError("seeded design deviations (%s): not detected %s, unexpected %s (verdicts %s)" % (
                cfg2, missing, extra, seeded))
        if acts:
            require_actions(cases2, acts)
        for k, v in seeded.items():
            seeded_all[k] = seeded_all.get(k, 0) + v
        chk.add_tlc(r2)
    chk.extra["model_verdicts_defects_seeded"] = seeded_all
    chk.exhaustive = True
    # (G) every generated case replayed into lopdf, the before/after pair judged by the declarative layer
    cin, cout = os.path.join(w, "gen.ndjson"), os.path.join(w, "gen.out.ndjson")
    write_ndjson(cin, cases)
    run_bin("c10", ["replay", "--in", cin, "--out", cout])
    results = read_ndjson(cout)
    if len(results) != len(cases):
        raise vlib.ToolError("replay lost cases")
    seen = set()
    vs = judge(chk, results, w, "replay", seen, count_drift=False)   # drift of replays is measured below
    drift = 0
    for c, res, v in zip(cases, results, vs):
        if "panic" in res:
            if not c["panic"]:
                drift += 1
            continue
        if c["panic"] or canon(c["impl"]) != canon(res["after"]) or c["before"]["pages"] != res["before"]["pages"] \
                or c["impl"]["pages"] != res["after"]["pages"]:
            drift += 1
    chk.extra["model_drift"] = chk.extra.get("model_drift", 0) + drift
    chk.extra["replayed_behaviours"] = len(cases)
    need = {"pages-out-of-id-order", "generation>0", "dangling", "bookmarks", "sparse", "start<=min", "start-inside",
            "start>max", "nest>=48", "bm-loose", "bm-nested2", "bm-dangling", "dup-kids", "shared-number", "start0", "exactfit",
            "bm-unreachable", "gen65535"}
    if not need <= seen:
        raise vlib.ToolError("vacuous replay set: no judged case of class %s" % sorted(need - seen))
    mid = len(cases) // 2
    chk.sample({"generated": {"ids": ids_of(cases[mid]["before"]), "pages": cases[mid]["before"]["pages"],
                              "bookmarks": cases[mid]["before"]["bms"], "start": cases[mid]["start"]},
                "model_verdict": cases[mid]["v"], "lopdf_ids_after": ids_of(results[mid]["after"]) if "after" in results[mid] else "panic",
                "lopdf_verdict": vs[mid]})
    # (V) recorded lopdf runs on random graphs judged by the declarative layer
    n = 400 if quick else 5000
    tr = os.path.join(w, "rec.ndjson")
    run_bin("c10", ["record", "--seed", vlib.seed(), "--n", n, "--out", tr])
    recs = read_ndjson(tr)
    ood = [rec for rec in recs if "ood" in rec]        # outside the statement: observed, not judged
    recs = [rec for rec in recs if "ood" not in rec]
    chk.extra["outside_domain_observations"] = {"overflow-by-one (start + count - 1 = u32::MAX + 1)":
                                                sorted({o["outcome"] for o in ood})}
    fams = {}
    for rec in recs:
        if "fam" in rec:
            fams[rec["fam"]] = fams.get(rec["fam"], 0) + 1
    if len(recs) - sum(fams.values()) != n or fams.get("deep", 0) < 90 or fams.get("bookmarks", 0) < 56 \
            or fams.get("pageorder", 0) < 48 or fams.get("audit", 0) < 31 or len(ood) < 2:
        raise vlib.ToolError("recorder produced %d records (%d random wanted), families %s" % (len(recs), n, fams))
    chk.extra["recorded_families"] = fams
    seen2 = set()
    vs2 = judge(chk, recs, w, "record", seen2)
    need = need | {"nest>=2", "nest>=10", "nest>=47", "bm-shared"}
    if not need <= seen2:
        raise vlib.ToolError("vacuous recorded set: no judged case of class %s" % sorted(need - seen2))
    big = sum(1 for rec in recs if "before" in rec and "fam" not in rec and len(rec["before"]["objects"]) >= 8)
    if big < n // 5:
        raise vlib.ToolError("vacuous recorded set: only %d documents with >= 8 objects" % big)
    chk.extra["recorded_runs"] = n
    chk.extra["recorded_with_8plus_objects"] = big
    s = next((rec for rec, v in zip(recs, vs2) if v == "ok" and len(rec["before"]["objects"]) >= 6 and rec["before"]["bms"]), None)
    if s is not None:
        chk.sample({"recorded": {"ids_before": ids_of(s["before"]), "pages_before": s["before"]["pages"],
                                 "bookmarks_before": s["before"]["bms"], "start": s["start"], "entry": s["entry"]},
                    "ids_after": ids_of(s["after"]), "pages_after": s["after"]["pages"],
                    "bookmarks_after": s["after"]["bms"], "verdict": "ok"})
    # (V') thorough: the audit family once more with a build without overflow checks (the exact-fit start value
    # wraps instead of panicking there)
    if not quick:
        exe = nochecks_binary()
        atr = os.path.join(w, "audit-nochecks.ndjson")
        p = subprocess.run([exe, "audit", "--out", atr], stdout=subprocess.PIPE, stderr=subprocess.STDOUT, text=True,
                           timeout=600)
        if p.returncode != 0:
            raise vlib.ToolError("c10 audit (no overflow checks) exited %d: %s" % (p.returncode, p.stdout[-500:]))
        arecs = read_ndjson(atr)
        aood = [x for x in arecs if "ood" in x]
        arecs = [x for x in arecs if "ood" not in x]
        if len(arecs) < 31:
            raise vlib.ToolError("audit family (no overflow checks) has %d records" % len(arecs))
        judge(chk, arecs, w, "nochecks", set())
        chk.extra["outside_domain_observations"]["overflow-by-one, build without overflow checks"] = \
            sorted({o["outcome"] for o in aood})
        chk.extra["audit_family_without_overflow_checks"] = len(arecs)
    # (B) negative controls: corrupted copies of accepted records must all be rejected
    negs = []
    for rec, v in zip(recs, vs2):
        if v == "ok" and len(rec["before"]["objects"]) >= 4 and rec["before"]["bms"] and len(rec["after"]["pages"]) >= 2:
            negs = corruptions(rec)
            break
    kinds = [k for k, _ in negs]
    if not {"max_id", "retarget", "pages", "bookmark"} <= set(kinds):
        if chk.violations:
            # lopdf under test accepts too little to build the controls from; the violations are reported
            chk.extra["negative_controls_rejected"] = 0
            return chk.finish()
        raise vlib.ToolError("no record suitable for the negative controls (%s)" % kinds)
    _, nv = trace_verdicts(os.path.join(w, "neg.ndjson"), [x for _, x in negs], "c10neg")
    bad = [k for k, v in zip(kinds, nv) if v.startswith("ok")]
    chk.extra["negative_controls_rejected"] = len(kinds) - len(bad)
    chk.extra["negative_control_verdicts"] = dict(zip(kinds, nv))
    if bad:
        raise vlib.ToolError("negative controls not rejected by Trace_Renumber: %s" % bad)
    return chk.finish()
