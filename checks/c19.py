"""C19 — saving reports sink failures and ignores sink chunking."""
import json, os, glob, random, hashlib, subprocess, time, concurrent.futures
import vlib
from vlib import Check, tlc, run_bin, workdir, write_ndjson, log

META = {
    "property_id": "C19",
    "level": "fault_enumeration",
    "technique": "TLA+ spec (SaveSink/SaveSinkSys: Writer || faulty Sink, write_all loop, CountingWrite) model-checked by TLC "
                 "for every sink schedule within small bounds; TLC-enumerated fault schedules replayed into lopdf's save_to; "
                 "the instrumented sink's call logs of exhaustive per-offset fault runs validated by Trace_SaveSink",
    "text": "TLC enumerates every writer program of <=5 write_all calls with buffers of <=3 bytes against every schedule of an "
            "adversarial sink (all chunkings, Interrupted, Ok(0), Err at every call) and checks Prefix, ChunkFree (bytes, counter, "
            "offsets), ErrSurfaces (safety and liveness), Retry, NoSpurious and Later; seven mutant writers must each violate the "
            "clause they break, and the deviation 'result of write ignored in path X' (DevIgnoredWrite: single write, count "
            "dropped) must be refuted for Accounted (the writer-side contract: every byte handed to the sink is accounted for), "
            "Accounting, ChunkFree, Prefix, ErrSurfaces and Retry. Every enumerated schedule is replayed into Document/IncrementalDocument::save_to. For each seeded "
            "document x {table, xref stream} x {plain, incremental} an instrumented sink fails at EVERY byte offset of the complete "
            "output x {Err, Ok(0), Interrupted, short write} (once each), splits writes into 1,2,3,7,13,random<=16 byte chunks "
            "with and without Interrupted before every n-th call, and random combinations; every document carries literal "
            "strings that need escaping (20..300 bytes: parentheses, backslashes, CR, LF) in the Info dictionary, the trailer, "
            "the page, a stream dictionary, an array and the incremental update, and the check refuses to run (exit 2) unless "
            "faults of every kind landed inside them; after each failed save the document is saved again to a healthy sink, loaded and "
            "compared. TLC judges every logged run: sink answers are bound from the log, the writer position is inferred with the "
            "write_all loop model, the declarative layer gives the verdict.",
    "note": "A later save is compared STRICTLY with the save of a fresh clone (whole loaded document, nothing left out); two saves "
            "of one document object go to two sinks with different chunkings; documents with highest object number 2^32-2 "
            "(cross-reference stream format) are saved in supervised workers with overflow checks on and, in the thorough tier, off. "
            "Not covered: the numeric limit in cross-reference table format (the writer loops over all 2^32 numbers, minutes per "
            "save). Trusted: TLC, the instrumented sink and the byte comparisons (prefix, equality, projection of loaded documents) done "
            "in the harness, std's write_all. Failure positions and kinds are exhaustive per generated document; documents, random "
            "chunkings and combinations of failure x chunking x Interrupted are sampled from the seed. Validity of the later file "
            "is judged by lopdf's own loader plus a check that every cross-reference entry points at its object header, not by an "
            "independent strict reader.",
    "design_ref": "DESIGN.md section 4 C19",
}

ACTIONS = ["WCall", "WFinish", "WLoop", "SaveAgain", "SinkAccept", "SinkIntr", "SinkOk0", "SinkErr"]

# mutant writer -> (invariants, action properties) to check; the run must end in a violation of one of them
MUTANTS = {
    "swallow_err": (["ErrSurfaces"], []),
    "double_count": (["ChunkFree"], []),
    "single_write": (["Prefix"], []),
    "retry_err": (["ErrSurfaces"], []),
    "ok0_retry": (["ErrSurfaces"], []),
    "intr_fatal": ([], ["Retry"]),
    "counter_persist": (["Later"], []),
}
DECLARATIVE = ["TypeOK", "Accounting", "Prefix", "ChunkFree", "ErrSurfaces", "NoSpurious", "Later", "Refines"]
# deviation "result of write ignored in path X" (DevIgnoredWrite): properties TLC must refute one by one, and
# the ones that survive it (the counter still equals what the sink holds, so offsets stay consistent)
DEV_REFUTED = [("inv", "Accounting"), ("prop", "Accounted"), ("inv", "ChunkFree"), ("inv", "Prefix"), ("inv", "ErrSurfaces"),
               ("prop", "Retry"), ("inv", "NoSpurious")]
DEV_SURVIVES = ["CounterInv"]
# deviation "max_id and trailer mutated before the sink is known to be healthy" (DevMutatesDoc): what lopdf's
# write_cross_reference_stream does today; TLC must refute these, everything about a single save survives
DEVDOC_REFUTED = [("prop", "DocUnchanged"), ("inv", "Later")]
DEVDOC_SURVIVES = ["Accounting", "Prefix", "ChunkFree", "ErrSurfaces", "NoSpurious", "CounterInv"]


def mc_cfg(path, variant, invs, props, calls=3, maxbuf=2, intr=1, dev=False, devdoc=False):
    with open(path, "w") as f:
        f.write("SPECIFICATION Spec\nCONSTANTS\n  Variant = \"%s\"\n  MaxIntr = %d\n  KeepHist = FALSE\n  MaxCalls = %d\n"
                "  MinBuf = 0\n  MaxBuf = %d\n  RawChoices = {FALSE, TRUE}\n  DevIgnoredWrite = %s\n  DevMutatesDoc = %s\n"
                "  Emit = FALSE\n" % (variant, intr, calls, maxbuf, "TRUE" if dev else "FALSE", "TRUE" if devdoc else "FALSE"))
        if invs:
            f.write("INVARIANTS " + " ".join(invs) + "\n")
        if props:
            f.write("PROPERTIES " + " ".join(props) + "\n")
        f.write("CHECK_DEADLOCK FALSE\n")


def region(marks, k, esc=()):
    if any(a <= k < b for a, b in esc):
        return "escaped-literal-string"
    base, body, xref, tail = marks
    if k < base:
        return "prev"
    if k < body:
        return "header"
    if k < xref:
        return "body"
    if k < tail:
        return "xref"
    return "tail"


def signature(verdict, ref, rec):
    """narrow class of a failing run: clause, xref format, save mode, failure kind and region of the output"""
    plan = rec.get("plan", {})
    sig = "C19:%s.%s.%s" % (verdict, ref.get("fmt", "?"), ref.get("mode", "?"))
    if verdict == "later-bookkeeping-differs":
        # the class of the failing case is where the failure fell relative to the start of the cross-reference
        # section (the document is changed on entering it), whatever the kind of failure
        k = plan.get("k", -1)
        return sig + (".at-or-after-xref-start" if k >= ref["marks"][2] else ".before-xref-start")
    if plan.get("kind", "none") != "none":
        sig += ".%s.%s" % (plan["kind"], region(ref["marks"], plan["k"], ref.get("esc", ())))
    elif plan:
        sig += ".chunk" + ("+intr" if plan.get("intr") else "")
    return sig


def plan_key(rec):
    p = rec["plan"]
    return (rec["cfg"], rec["phase"], p["k"], p["kind"], p["chunk"], p["intr"], p["sticky"])


def nontrivial(rec):
    """the sink misbehaved at least once: a failure, a short write or an Interrupted answer"""
    p = rec["plan"]
    return p["kind"] != "none" or p["chunk"] != 0 or p["intr"] != 0


# ------------------------------------------------------------------ (M) model
def model(chk, tier, w):
    quick = tier == "quick"
    workers = 4 if quick else 16
    # every schedule for small writers, with the sink's call log kept: AbstractionOK + REPLAY emission
    r = tlc("MC_SaveSink.tla", "MC_SaveSink_quick.cfg", workers=workers, coverage=True, name="c19-emit")
    vlib.require_coverage(r, ACTIONS)
    chk.add_tlc(r)
    cases = r.tagged("REPLAY")
    if not quick:
        # more schedules: buffers of <= 3 bytes, two Interrupted per save; a seeded sample of them is replayed
        rt = tlc("MC_SaveSink.tla", "MC_SaveSink_thorough.cfg", workers=workers, name="c19-emit3", timeout=1500)
        chk.add_tlc(rt)
        more = {}
        for c in rt.tagged("REPLAY"):
            more.setdefault(tuple(c["sched"]), c)
        have = set(tuple(c["sched"]) for c in cases)
        extra = [more[k] for k in sorted(more) if k not in have]
        chk.extra["schedules_enumerated"] = len(have) + len(extra)
        random.Random(vlib.seed()).shuffle(extra)
        cases = cases + extra[:2500]
    # the stated bound: writers of <= 5 calls with buffers <= 3 bytes x every sink schedule (quick: <= 4 calls)
    if quick:
        cfg = os.path.join(w, "bound.cfg")
        mc_cfg(cfg, "asis", DECLARATIVE + ["CounterInv"], ["DocUnchanged", "Accounted", "Retry", "RetrySink"], calls=4, maxbuf=3,
               intr=2)
    else:
        cfg = "MC_SaveSink_full.cfg"
    r2 = tlc("MC_SaveSink.tla", cfg, workers=workers, coverage=True, name="c19-bound", timeout=1500)
    vlib.require_coverage(r2, ACTIONS)
    chk.add_tlc(r2)
    chk.exhaustive = True
    # liveness: a sink failure is eventually answered by an error
    r3 = tlc("MC_SaveSink.tla", "MC_SaveSink_live.cfg", workers=workers, name="c19-live")
    chk.add_tlc(r3)
    # model-level negative controls: each mutant writer must violate the clause it breaks
    muts = ["swallow_err", "double_count"] if quick else sorted(MUTANTS)
    caught = {}
    for m in muts:
        invs, props = MUTANTS[m]
        cfg = os.path.join(w, "mut_%s.cfg" % m)
        mc_cfg(cfg, m, invs, props)
        rm = tlc("MC_SaveSink.tla", cfg, workers=2, name="c19-mut-" + m, allow_violation=True)
        if rm.violation not in invs + props:
            raise vlib.ToolError("vacuous model: mutant writer %s does not violate %s (got %s)" % (m, invs + props, rm.violation))
        caught[m] = rm.violation
    # the deviation switch: with the result of `write` ignored on some path TLC must find a counter-example to
    # each clause of the contract (quick: the contract itself and two consequences)
    refuted = {}
    todo = DEV_REFUTED[:2] + [("inv", "ErrSurfaces"), ("inv", "ChunkFree")] if quick else DEV_REFUTED
    for kind, name in todo:
        cfg = os.path.join(w, "dev_%s.cfg" % name)
        mc_cfg(cfg, "asis", [name] if kind == "inv" else [], [name] if kind == "prop" else [], dev=True)
        rd = tlc("MC_SaveSink.tla", cfg, workers=2, name="c19-dev-" + name, allow_violation=True)
        if rd.violation != name:
            raise vlib.ToolError("vacuous model: DevIgnoredWrite does not refute %s (got %s)" % (name, rd.violation))
        refuted[name] = "%d states to the counter-example" % rd.distinct
    if not quick:
        cfg = os.path.join(w, "dev_survives.cfg")
        mc_cfg(cfg, "asis", DEV_SURVIVES, [], dev=True)
        chk.add_tlc(tlc("MC_SaveSink.tla", cfg, workers=4, name="c19-dev-survives"))
    chk.extra["dev_ignored_write_refutes"] = refuted
    refuted2 = {}
    for kind, name in DEVDOC_REFUTED:
        cfg = os.path.join(w, "devdoc_%s.cfg" % name)
        mc_cfg(cfg, "asis", [name] if kind == "inv" else [], [name] if kind == "prop" else [], devdoc=True)
        rd = tlc("MC_SaveSink.tla", cfg, workers=2, name="c19-devdoc-" + name, allow_violation=True)
        if rd.violation != name:
            raise vlib.ToolError("vacuous model: DevMutatesDoc does not refute %s (got %s)" % (name, rd.violation))
        refuted2[name] = "%d states to the counter-example" % rd.distinct
    if not quick:
        cfg = os.path.join(w, "devdoc_survives.cfg")
        mc_cfg(cfg, "asis", DEVDOC_SURVIVES, ["Accounted", "Retry"], devdoc=True)
        chk.add_tlc(tlc("MC_SaveSink.tla", cfg, workers=4, name="c19-devdoc-survives"))
    chk.extra["dev_mutates_doc_refutes"] = refuted2
    if not quick:
        # a different but correct counting discipline must satisfy the whole declarative layer
        cfg = os.path.join(w, "alt_count.cfg")
        mc_cfg(cfg, "count_accepted", DECLARATIVE, ["DocUnchanged", "Accounted", "Retry", "RetrySink"])
        chk.add_tlc(tlc("MC_SaveSink.tla", cfg, workers=4, name="c19-alt"))
    chk.extra["model_states"] = chk.states
    chk.extra["model_transitions"] = chk.transitions
    chk.extra["model_mutants_caught"] = caught
    return cases


# ------------------------------------------------------------------ (G) replay
def replay(chk, cases, w):
    """spec -> impl: every sink schedule TLC enumerated is replayed into the four configurations of one seeded
    document; the outcomes are judged by TLC (Trace_SaveSink, declarative layer) and cross-checked against the
    expectation the declarative layer computed during the MC run."""
    uniq = {}
    for c in cases:
        uniq.setdefault(tuple(c["sched"]), c)
    cases = [uniq[k] for k in sorted(uniq)]
    if not cases:
        raise vlib.ToolError("generator produced no schedules")
    classes = {
        "err": any(s and s[-1] == -2 for s in uniq), "ok0": any(s and s[-1] == 0 for s in uniq),
        "intr": any(-1 in s for s in uniq), "short": any(len([x for x in s if x > 0]) >= 3 for s in uniq),
        "clean": any(s and all(x > 0 for x in s) for s in uniq),
    }
    if not all(classes.values()):
        raise vlib.ToolError("vacuous schedule set: %s" % classes)
    cin, cout = os.path.join(w, "sched.ndjson"), os.path.join(w, "sched.out.ndjson")
    write_ndjson(cin, cases)
    run_bin("c19", ["replay", "--seed", vlib.seed(), "--in", cin, "--out", cout])
    recs = vlib.read_ndjson(cout)
    nref = sum(1 for r in recs if r["ev"] == "ref")
    if nref != 4 or len(recs) != 4 + 4 * len(cases):
        raise vlib.ToolError("replay lost cases: %d refs, %d records for %d schedules" % (nref, len(recs), len(cases)))
    r = tlc("Trace_SaveSink.tla", "Trace_SaveSink.cfg", workers=1, env={"TRACE": cout}, deque=True, name="c19-replay")
    chk.add_tlc(r)
    verdicts = {v["i"]: v["v"] for v in r.tagged("VERDICT")}
    ref = None
    drift = 0
    shown = []
    for n, rec in enumerate(recs, 1):
        v = verdicts.get(n, "ok")
        if v.startswith("tool:"):
            raise vlib.ToolError("trace validator on replays: %s at record %d: %s" % (v, n, json.dumps(rec)[:300]))
        if rec["ev"] == "ref":
            ref = rec
            if not v.startswith("ok"):
                chk.violation("C19:replay.%s.%s.%s" % (v, rec["fmt"], rec["mode"]), {"verdict": v, "reference": rec})
            continue
        c = cases[rec["i"]]
        chk.evaluations += 1
        # the sink answered as scheduled (Accept capped by the buffer) for as long as the writer kept calling
        sk = rec["skip"]        # leading calls accepted in full (identical to the reference's)
        given = rec["tail"][:max(0, len(c["sched"]) - sk)]
        if any(s <= 0 for s in c["sched"][:sk]) or \
                any(not (g == s or (s > 0 and g == min(s, ln))) for (ln, g), s in zip(given, c["sched"][sk:])):
            raise vlib.ToolError("sink did not follow schedule %s: skip %d then %s" % (c["sched"], sk, given))
        full = rec["consumed"] == len(c["sched"])
        if v.startswith("ok"):
            if full and rec["result"] != c["expect"]:
                raise vlib.ToolError("declarative layers disagree: MC expects %s, trace validator accepts %s for %s" % (
                    c["expect"], rec["result"], c["sched"]))
            if v == "ok-drift" or not full:
                drift += 1
        else:
            chk.violation("C19:replay.%s.%s.%s" % (v, ref["fmt"], ref["mode"]),
                          {"verdict": v, "schedule": c["sched"], "expected_by_spec": c["expect"],
                           "config": {k: ref[k] for k in ("fmt", "mode", "n")}, "lopdf": rec, "replay_seed": vlib.seed()})
        if rec["i"] == len(cases) // 2 and len(shown) < 2:
            shown.append({"fmt": ref["fmt"], "mode": ref["mode"], "result": rec["result"], "delivered": rec["dlen"],
                          "calls": rec["tail"][:len(c["sched"]) + 1], "tlc_verdict": v})
    chk.extra["replayed_schedules"] = len(cases)
    chk.extra["replayed_saves"] = len(recs) - 4
    if drift:
        chk.extra["model_drift"] = chk.extra.get("model_drift", 0) + drift
    mid = cases[len(cases) // 2]
    chk.sample({"tlc_schedule": mid["sched"], "model_writer_lens": mid["lens"], "declarative_expectation": mid["expect"],
                "lopdf": shown})
    # binding self-test: a doctored replay outcome must be rejected
    errcase = next(i for i, c in enumerate(cases) if c["expect"] == "err")
    r0 = next(x for x in recs if x["ev"] == "run" and x["i"] == errcase and x["cfg"] == recs[0]["cfg"])
    fake = json.loads(json.dumps(r0))
    fake["result"] = "ok"
    fpath = os.path.join(w, "sched.neg.ndjson")
    write_ndjson(fpath, [recs[0], fake])
    rn = tlc("Trace_SaveSink.tla", "Trace_SaveSink.cfg", workers=1, env={"TRACE": fpath}, deque=True, name="c19-replay-neg")
    got = {v["i"]: v["v"] for v in rn.tagged("VERDICT")}
    if got.get(2) != "err-not-surfaced":
        raise vlib.ToolError("doctored replay outcome not rejected: %s" % got)
    chk.extra["negative_controls_rejected"] = chk.extra.get("negative_controls_rejected", 0) + 1


# ------------------------------------------------------------------ (V) recorded runs judged by TLC
def shard(tag, first, docs, size, combos, strmax, w):
    tr = os.path.join(w, "trace-%s.ndjson" % tag)
    run_bin("c19", ["record", "--seed", vlib.seed(), "--first", first, "--docs", docs, "--size", size, "--combos", combos,
                    "--strmax", strmax, "--out", tr])
    r = tlc("Trace_SaveSink.tla", "Trace_SaveSink.cfg", workers=1, env={"TRACE": tr}, deque=True, timeout=2400,
            name="c19-trace-" + tag, xmx="3g")
    return tag, first, docs, size, combos, strmax, tr, r


def absorb(chk, res, stats):
    tag, first, docs, size, combos, strmax, tr, r = res
    chk.add_tlc(r)
    verdicts = {v["i"]: v["v"] for v in r.tagged("VERDICT")}
    tallies = r.tagged("TALLY")
    if len(tallies) != 1:
        raise vlib.ToolError("trace validator printed %d tallies" % len(tallies))
    ref = None
    n = 0
    keys = set()
    quiet = 0
    with open(tr) as f:
        for line in f:
            line = line.strip()
            if not line:
                continue
            n += 1
            v = verdicts.get(n)
            if v is None:
                quiet += 1
            # parse only what is needed: references, non-quiet verdicts, and the plan of every run
            rec = json.loads(line)
            ev = rec["ev"]
            if ev == "ref":
                ref = rec
                stats["configs"] += 1
                stats["bytes"] += rec["n"]
                stats["fm"][rec["fmt"] + "/" + rec["mode"]] = stats["fm"].get(rec["fmt"] + "/" + rec["mode"], 0) + 1
                # inputs: literal strings that take the escaping slow path, present in every configuration
                esc = rec.get("esc", [])
                stats["esc_strings"] += len(esc)
                stats["esc_bytes"] += sum(b - a for a, b in esc)
                if len(esc) < 3 or sum(b - a for a, b in esc) < 80 or max(b - a for a, b in esc) < 24:
                    raise vlib.ToolError("vacuous document: configuration %s has too few escaped literal strings: %s" % (
                        rec["cfg"], esc))
            elif ev == "skip":
                stats["skipped"] += 1
                stats["skip_why"].append(rec.get("why", ""))
                continue
            elif ev == "run":
                chk.evaluations += 1
                if nontrivial(rec):
                    keys.add(plan_key(rec))
                p = rec["plan"]
                if rec["phase"] == "offset":
                    stats["offset_runs"] += 1
                cls = {"err": "fail", "ok0": "fail", "intr": "intr", "short": "short"}.get(p["kind"]) or \
                    ("intr" if p["intr"] else "chunk")
                stats["plans"][cls] = stats["plans"].get(cls, 0) + 1
                if p["kind"] != "none" and any(a < p["k"] < b for a, b in ref.get("esc", ())):
                    stats["in_esc"][p["kind"]] = stats["in_esc"].get(p["kind"], 0) + 1
                stats["results"][rec["result"]] = stats["results"].get(rec["result"], 0) + 1
                if rec["result"] == "err" and not rec["later"].get("eqref", True):
                    stats["later_not_identical"] += 1
            elif ev == "devfull":
                chk.evaluations += 1
                stats["devfull"] += 1
            elif ev == "twice":
                chk.evaluations += 1
                stats["twice"] += 1
                if rec["c1"] != rec["c2"]:
                    keys.add((rec["cfg"], "twice", rec["c1"], rec["c2"]))
            if v is None:
                chk.traces += 1
                continue
            if v.startswith("tool:"):
                raise vlib.ToolError("trace validator: %s at record %d of %s: %s" % (v, n, tr, line[:400]))
            if v.startswith("ok"):
                chk.traces += 1
                if v == "ok-drift":
                    chk.extra["model_drift"] = chk.extra.get("model_drift", 0) + 1
                continue
            meta = {k: ref[k] for k in ("cfg", "doc", "fmt", "mode", "n", "marks", "esc")} if ref else {}
            det = {"verdict": v, "config": meta, "run": rec,
                   "reproduce": "harness/target/release/c19 record --seed %d --first %s --docs 1 --size %s --combos %s "
                                "--strmax %s --out F" % (vlib.seed(), (ref or {}).get("doc", first), size, combos, strmax)}
            if ev == "ref":
                chk.violation("C19:%s.%s.%s" % (v, rec["fmt"], rec["mode"]), det)
            elif ev == "devfull":
                chk.violation("C19:%s.save-path-full-device" % v, det)
            elif ev == "twice":
                chk.violation("C19:%s.%s.%s" % (v, ref["fmt"], ref["mode"]), det)
            else:
                chk.violation(signature(v, ref or {}, rec), det)
    if n != len(verdicts) + sum(tallies[0].values()) or quiet != sum(tallies[0].values()):
        raise vlib.ToolError("trace validator judged %d+%d of %d records" % (len(verdicts), sum(tallies[0].values()), n))
    for k, x in tallies[0].items():
        stats["tally"][k] = stats["tally"].get(k, 0) + x
    stats["distinct"] += len(keys)
    return tr


def negative_control(chk, tr, w):
    """corrupt single fields of runs: Trace_SaveSink must reject each with the right clause.  The uncorrupted runs are
    written from the recorded reference program (what a conforming save looks like), so the control does not depend on
    how the tree under test behaves."""
    ref = None
    with open(tr) as f:
        for line in f:
            rec = json.loads(line)
            if rec["ev"] == "ref":
                ref = rec
                break
    if ref is None or len(ref["W"]) < 4:
        raise vlib.ToolError("no reference record for the negative control")
    W = ref["W"]
    j = len(W) // 2
    good_later = {"res": "ok", "load": "ok", "same": True, "valid": True, "strict": True}
    fail = {"ev": "run", "cfg": ref["cfg"], "phase": "control", "skip": j, "suf": 0, "tail": [[W[j], -2]], "ncalls": j + 1,
            "plan": {"chunk": 0, "intr": 0, "k": sum(W[:j]), "kind": "err", "sticky": False},
            "result": "err", "dlen": sum(W[:j]), "dpre": True, "later": dict(good_later), "zcalls": 0, "flushes": 0}
    chunked = {"ev": "run", "cfg": ref["cfg"], "phase": "control", "skip": 0, "suf": 0,
               "tail": [[W[0], -1]] + [[x, x] for x in W], "ncalls": len(W) + 1,
               "plan": {"chunk": 0, "intr": 1, "k": -1, "kind": "none", "sticky": False},
               "result": "ok", "dlen": ref["n"], "dpre": True,
               "later": {"res": "none", "load": "none", "same": False, "valid": False, "strict": False}, "zcalls": 0,
               "flushes": 0}
    two = {"ev": "twice", "cfg": ref["cfg"], "c1": 0, "c2": 1, "res1": "ok", "res2": "ok", "eq1": True, "eq2": True, "eq12": True,
           "len1": ref["n"], "len2": ref["n"], "load2": "ok", "same2": True, "valid2": True, "strict2": True}

    def mut(rec, f):
        x = json.loads(json.dumps(rec))
        f(x)
        return x
    muts = [
        ("err-not-surfaced", mut(fail, lambda x: x.update(result="ok"))),
        ("not-prefix", mut(fail, lambda x: x.update(dpre=False))),
        ("later-content-differs", mut(fail, lambda x: x["later"].update(same=False))),
        ("later-save-err", mut(fail, lambda x: x["later"].update(res="err"))),
        ("later-bookkeeping-differs", mut(fail, lambda x: x["later"].update(strict=False))),
        ("second-save-bookkeeping-differs", mut(two, lambda x: x.update(strict2=False, eq2=False, eq12=False))),
        ("second-save-content-differs", mut(two, lambda x: x.update(same2=False, strict2=False))),
        ("ok-twice", two),
        ("interrupted-not-retried", mut(chunked, lambda x: x.update(result="err", later=good_later))),
        ("bytes-differ", mut(chunked, lambda x: x.update(dpre=False))),
        ("ok-failed", fail),
        ("ok-intr", chunked),
    ]
    ntr = os.path.join(w, "neg.ndjson")
    write_ndjson(ntr, [ref] + [m[1] for m in muts])
    r = tlc("Trace_SaveSink.tla", "Trace_SaveSink.cfg", workers=1, env={"TRACE": ntr}, deque=True, name="c19-neg")
    got = {v["i"]: v["v"] for v in r.tagged("VERDICT")}
    rejected = 0
    for j, (want, _) in enumerate(muts):
        v = got.get(j + 2, "(quiet ok)")
        if want.startswith("ok"):
            if v not in ("(quiet ok)", want):
                raise vlib.ToolError("negative control: the uncorrupted record was judged %s" % v)
            continue
        if v != want:
            raise vlib.ToolError("negative control not rejected as %s: got %s" % (want, v))
        rejected += 1
    chk.extra["negative_controls_rejected"] = chk.extra.get("negative_controls_rejected", 0) + rejected


# ------------------------------------------------------------------ numeric limit of the object number
def build_wrapping():
    """a second build of the c19 binary with integer overflow checks switched off (what `cargo build --release` of a
    user's crate gives), in its own target directory; the standard harness build has them on (like debug / test)."""
    cdir = vlib._crate_dir("harness")
    tdir = os.path.join(vlib.WORK, "c19-wrapping-target-" + hashlib.sha1(vlib.REPO.encode()).hexdigest()[:10])
    env = dict(os.environ, CARGO_NET_OFFLINE="true", CARGO_PROFILE_RELEASE_OVERFLOW_CHECKS="false", CARGO_TARGET_DIR=tdir)
    t0 = time.time()
    p = subprocess.run(["cargo", "build", "--release", "--offline", "--bin", "c19"], cwd=cdir, env=env,
                       stdout=subprocess.PIPE, stderr=subprocess.STDOUT, text=True)
    if p.returncode != 0:
        raise vlib.ToolError("cargo build (overflow checks off) failed: " + p.stdout[-1500:])
    log("[build] harness c19 without overflow checks %.1fs" % (time.time() - t0))
    return os.path.join(tdir, "release", "c19")


def limits(chk, tier, w):
    """documents whose highest object number is 2^32 - 2, cross-reference stream format, plain and incremental, healthy /
    chunking / failing sinks, each case in a supervised worker process; judged by Trace_SaveSink (LimitVerdict)."""
    bins = [("checked", os.path.join(vlib.build_harness("c19"), "c19"))]
    if tier != "quick":
        bins.append(("wrapping", build_wrapping()))
    recs = []
    for prof, exe in bins:
        f = os.path.join(w, "limit-%s.ndjson" % prof)
        try:
            p = subprocess.run([exe, "limit", "--timeout", "30", "--out", f], stdout=subprocess.PIPE, stderr=subprocess.PIPE,
                               text=True, timeout=1200)
        except subprocess.TimeoutExpired:
            raise vlib.ToolError("c19 limit (%s) timed out" % prof)
        if p.returncode != 0:
            raise vlib.ToolError("c19 limit (%s) exited %d: %s" % (prof, p.returncode, p.stderr[-500:]))
        got = vlib.read_ndjson(f)
        if not got or any("tool" in r for r in got) or any(r["profile"] != prof for r in got):
            raise vlib.ToolError("c19 limit (%s): unusable records: %s" % (prof, [r for r in got if "tool" in r][:2] or got[:1]))
        recs += got
    # inputs: healthy, chunking and failing sinks, plain and incremental
    kinds = set((r["case"]["mode"], r["case"]["sink"]) for r in recs)
    if len(kinds) < 8:
        raise vlib.ToolError("vacuous limit cases: %s" % sorted(kinds))
    f = os.path.join(w, "limit.ndjson")
    write_ndjson(f, recs)
    r = tlc("Trace_SaveSink.tla", "Trace_SaveSink.cfg", workers=1, env={"TRACE": f}, deque=True, name="c19-limit")
    chk.add_tlc(r)
    verdicts = {v["i"]: v["v"] for v in r.tagged("VERDICT")}
    if len(verdicts) != len(recs):
        raise vlib.ToolError("limit cases judged: %d of %d" % (len(verdicts), len(recs)))
    tally = {}
    for n, rec in enumerate(recs, 1):
        v = verdicts[n]
        chk.evaluations += 1
        tally[v] = tally.get(v, 0) + 1
        if v.startswith("tool:"):
            raise vlib.ToolError("trace validator on limit cases: %s: %s" % (v, rec))
        if v.startswith("ok"):
            chk.traces += 1
        elif v == "timeout":
            chk.extra["limit_cases_not_judged_timeout"] = chk.extra.get("limit_cases_not_judged_timeout", 0) + 1
        else:
            chk.violation("C19:limit.%s.%s.%s.%s" % (v, rec["fmt"], rec["mode"], rec["profile"]),
                          {"verdict": v, "case": rec, "highest_object_number": rec.get("maxid"),
                           "reproduce": "c19 limit --out F  (profile %s)" % rec["profile"]})
    chk.extra["numeric_limit_cases"] = len(recs)
    chk.extra["numeric_limit_verdicts"] = tally
    chk.sample({"numeric_limit_case": recs[0], "tlc_verdict": verdicts[1]})
    return len(recs)


def run(tier):
    chk = Check("C19", META["level"], tier)
    chk.rule = ("one case = one save of a fresh clone of a generated document through the instrumented sink, or one TLC schedule "
                "replayed on one configuration; per configuration (document x xref format x plain/incremental) the failure "
                "offset k ranges over EVERY byte of the complete output x {Err, Ok(0), Interrupted, short write}; non-trivial = the sink misbehaved at "
                "least once (failure, short write or Interrupted); distinct by (configuration, failure offset, kind, chunking, "
                "Interrupted period, stickiness)")
    chk.assumptions = [
        "std::io::Write::write_all behaves as documented (the model's loop)",
        "byte comparisons (prefix / equality / loaded-content projection) computed by the harness are correct",
        "load_mem is a function of the bytes (later outputs identical to an already loaded one are not loaded again)",
        "documents are generated from the seed; the property is enumerated exhaustively per document, not over all documents",
    ]
    w = workdir("c19")
    for old in glob.glob(os.path.join(vlib.REPLAYS, "C19-*.json")):
        os.remove(old)
    vlib.build_harness("c19")
    cases = model(chk, tier, w)
    replay(chk, cases, w)
    nlimit = limits(chk, tier, w)
    # (V) shards: (first document, number of documents, stream size scale, random combinations per configuration)
    # (tag, first document, documents, stream size scale, random combinations per configuration, longest escaped string)
    if tier == "quick":
        shards = [("q%d" % i, i, 1, 40, 24, 120) for i in range(4)]
        par = 4
    else:
        shards = [("s%03d" % i, i * 3, 3, 40, 48, 300) for i in range(44)] + \
                 [("L%02d" % i, 400 + i * 2, 2, 400, 48, 300) for i in range(8)]
        par = 10
    stats = {"configs": 0, "bytes": 0, "skipped": 0, "skip_why": [], "offset_runs": 0, "results": {}, "fm": {}, "devfull": 0,
             "later_not_identical": 0, "tally": {}, "distinct": 0, "plans": {}, "esc_strings": 0, "esc_bytes": 0, "in_esc": {}, "twice": 0}
    first_trace = None
    with concurrent.futures.ThreadPoolExecutor(max_workers=par) as ex:
        futs = [ex.submit(shard, t, f, d, s, c, m, w) for (t, f, d, s, c, m) in shards]
        for fu in futs:
            res = fu.result()
            tr = absorb(chk, res, stats)
            if first_trace is None:
                first_trace = tr
                negative_control(chk, tr, w)
                with open(tr) as f:
                    lines = [json.loads(x) for _, x in zip(range(3000), f)]
                rf = dict(lines[0])
                rf["W"] = rf["W"][:24] + ["... %d calls" % len(rf["W"])]
                chk.sample({"reference": rf})
                for x in lines:
                    if x["ev"] == "run" and x["plan"]["k"] == (rf["esc"][0][0] + rf["esc"][0][1]) // 2:
                        chk.sample({"run": x})
                for x in lines[::-1]:
                    if x["ev"] == "run" and x["plan"]["kind"] == "none" and x["plan"]["chunk"] == 7:
                        x["tail"] = x["tail"][:16] + ["..."]
                        chk.sample({"run": x})
                        break
            elif tier != "quick":
                os.remove(tr)
    total_cfg = stats["configs"] + stats["skipped"]
    if total_cfg == 0 or stats["skipped"] * 4 > total_cfg:
        raise vlib.ToolError("too many configurations without a usable reference: %d of %d (%s)" % (
            stats["skipped"], total_cfg, stats["skip_why"][:3]))
    if len(stats["fm"]) != 4:
        raise vlib.ToolError("vacuous: configurations covered: %s" % stats["fm"])
    if stats["offset_runs"] != 4 * stats["bytes"]:
        raise vlib.ToolError("failure offsets not exhaustive: %d runs for %d bytes x 4 kinds" % (stats["offset_runs"], stats["bytes"]))
    ie = stats["in_esc"]
    if not all(ie.get(k, 0) for k in ("err", "ok0", "intr", "short")):
        raise vlib.ToolError("vacuous: no sink misbehaviour strictly inside an escaped literal string for some kind: %s" % ie)
    t = stats["tally"]
    pl = stats["plans"]
    if not (pl.get("fail", 0) and pl.get("chunk", 0) and pl.get("intr", 0) and pl.get("short", 0)):
        raise vlib.ToolError("vacuous trace set: sink plans exercised: %s" % pl)
    chk.extra.update({
        "distinct_nontrivial": stats["distinct"] + chk.extra.get("replayed_schedules", 0) + nlimit,
        "two_saves_of_one_document": stats["twice"],
        "configurations": stats["configs"], "configurations_by_kind": stats["fm"], "configurations_skipped": stats["skipped"],
        "output_bytes_enumerated": stats["bytes"], "per_offset_fault_runs": stats["offset_runs"],
        "escaped_literal_strings": stats["esc_strings"], "escaped_literal_string_bytes": stats["esc_bytes"],
        "sink_misbehaviour_inside_escaped_strings": ie,
        "run_results": stats["results"], "sink_plans": pl, "trace_verdict_tally": t, "save_to_full_device_runs": stats["devfull"],
        "later_outputs_not_byte_identical_to_reference": stats["later_not_identical"],
        "traces_validated_against_impl": chk.traces,
        "states": chk.states, "transitions": chk.transitions,
    })
    return chk.finish()
