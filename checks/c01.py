"""C01 — save then load returns the same document."""
import json
import vlib
from vlib import Check
import lifecycle

META = {
    "property_id": "C01",
    "level": "model_checking",
    "technique": "TLA+ byte-level StrictReader (Syntax/FileStructure) + Lifecycle judgements evaluated by TLC on recorded lopdf save/load cycles (trace validation)",
    "text": "Seeded random documents over all ten object kinds (hostile bytes in names, strings, keys and stream bodies, sparse "
            "numbers, non-zero generations, boundary reals, both cross-reference formats) are saved, loaded, saved and loaded again "
            "by lopdf; every call is logged with the projected document and the produced bytes. TLC evaluates the specification on "
            "the trace: the bytes are read by the spec's own strict PDF reader (a byte-at-a-time automaton for ISO 32000-1 7.2-7.5, "
            "independent of lopdf's parser) and the loaded document must match the saved one object by object (Lifecycle!JudgeRoundTrip; "
            "reals are compared through the exact decimal rounding interval of the f32).",
    "note": "Trusted: TLC, the transcription of ISO 32000-1 in Syntax.tla/FileStructure.tla, the harness projection (wire.rs) including its "
            "exact-decimal f32 intervals. Inputs are sampled (seeded), not enumerated. Domain: distinct object numbers, max_id >= every "
            "number, finite reals, binary mark bytes >= 128, no objects typed XRef/ObjStm or carrying Linearized (save skips those).",
    "bins": ['c01'],
    "seq_bins": ['loadseq'],
    "modules": ['Trace_Lifecycle.tla'],
    "design_ref": "DESIGN.md section 4 C01",
}


def classify(rec_save, rt):
    """narrow signature of a failed round trip"""
    doc = rec_save["doc"]
    v = rt["v"]
    if v in ("rt-object-lost", "rt-object-differs"):
        objs = [lifecycle.obj_of(doc, i[0]) for i in rt["ids"]]
        if all(lifecycle.big_integral_reals(o) for o in objs):
            return "C01:real.integral.ge2p63"
    if v == "rt-load-failed" and lifecycle.big_integral_reals(doc["trailer"]):
        return "C01:real.integral.ge2p63"
    if v == "rt-trailer-differs" and lifecycle.big_integral_reals(doc["trailer"]):
        return "C01:real.integral.ge2p63"
    return "C01:" + v


def run(tier):
    chk = Check("C01", META["level"], tier)
    chk.rule = ("seeded random documents x {table, stream} x 2 save/load cycles; a case is one Save;Load pair, non-trivial when the "
                "document has at least one object; distinct by saved bytes")
    chk.assumptions = [META["note"]]
    recs, verdicts, states, trans = lifecycle.record_and_judge("c01", tier)
    chk.states, chk.transitions = states, trans
    if tier == "thorough":
        # exhaustive sub-space: all 65536 byte pairs in each of five positions
        r2, v2, s2, t2 = lifecycle.sweep("c01")
        off = len(recs)
        for v in v2:
            v["i"] += off
        recs, verdicts = recs + r2, verdicts + v2
        chk.states += s2
        chk.transitions += t2
        chk.extra["byte_pair_sweep_documents"] = sum(1 for r in r2 if r["ev"] == "Save")
        chk.extra["byte_pair_sweep_exhaustive"] = True
    last_save = None
    for v in verdicts:
        rec = recs[v["i"]]
        if rec["ev"] == "Save":
            last_save = rec
            if rec["res"].startswith("oversize"):
                chk.case(None)
                chk.violation("C01:save-oversize", {"save_result": rec["res"], "saved_doc_objects": len(rec["doc"]["objects"]), "fmt": rec["fmt"]})
            continue
        if rec["ev"] == "File":
            last_save = None
            continue
        rt = v["rt"]
        if rt["v"] == "ok-skipped":
            continue
        chk.case(json.dumps(last_save["bytes"]) if last_save["doc"]["objects"] else None)
        if rt["v"].startswith("ok"):
            chk.traces += 1
        else:
            chk.violation(classify(last_save, rt), {"verdict": rt, "saved_doc": last_save["doc"], "bytes": last_save["bytes"],
                                                    "loaded": rec["doc"], "load_result": rec["res"], "fmt": last_save["fmt"]})
    for r in recs:
        if r["ev"] == "Save" and r["res"] == "ok" and len(r["doc"]["objects"]) >= 2:
            chk.sample({"fmt": r["fmt"], "saved_bytes_ascii": bytes(r["bytes"]).decode("latin-1")[:600]}, cap=2)
    # size-boundary classes among the inputs (strings, names, arrays, stream contents at power-of-two boundaries)
    szs = [r["sizes"] for r in recs if r["ev"] == "Reset" and "sizes" in r]
    cls = {"hex>=257": sum(1 for z in szs if z[0] >= 257), "lit>=257": sum(1 for z in szs if z[1] >= 257), "name>=128": sum(1 for z in szs if z[2] >= 128),
           "array>=256": sum(1 for z in szs if z[3] >= 256), "stream>=4096": sum(1 for z in szs if z[4] >= 4096)}
    chk.extra["documents_by_size_class"] = cls
    if min(cls.values()) < 3 and not chk.violations:
        raise vlib.ToolError("vacuous: a size-boundary class is missing among the recorded documents: %r" % cls)
    if lifecycle.VACUITY and not chk.violations:
        raise vlib.ToolError(lifecycle.VACUITY)
    if not chk.violations:
        chk.extra["negative_controls_rejected"] = lifecycle.negative_controls("c01", recs)
    return chk.finish()
