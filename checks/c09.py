"""C09 — stream filters decode as specified; compression is lossless."""
import base64, hashlib, json, os, zlib
import vlib
from vlib import Check, tlc, run_bin, workdir, write_ndjson, read_ndjson, log

META = {
    "property_id": "C09",
    "level": "model_checking",
    "technique": "TLA+ spec (Codecs: ASCII85, ASCIIHex, RunLength, PNG row filters/Paeth incl. sub-byte components, TIFF predictor, zlib stored blocks + adler32, LZW; StreamOps: "
                 "set_content/set_plain_content/compress/decompress) model-checked by TLC; TLC-generated (plain, chain, "
                 "params, paramsForm, encoded) cases replayed into lopdf::Stream and png::decode_row; recorded lopdf "
                 "operation sequences judged by Trace_StreamOps",
    "text": "TLC checks that the reference decoders written in TLA+ invert the reference encoders for every input within "
            "small bounds (all byte strings over small alphabets, every partial ASCII85 group, z, white-space at every "
            "position, every stored-block size, every row geometry Columns x Colors x BPC{8,16}, every assignment of the "
            "five PNG filter types to rows, LZW with EarlyChange 0|1 across all code-width boundaries and a full table, "
            "chains of up to three filters with parameters as dictionary or parallel array) and that the model of "
            "lopdf's decoder (as the code is since the four C09 fix: commits: all deviation switches off) refines them; "
            "each repaired defect switched back on in the model must break the contract exactly on its class. Every generated case is then "
            "decoded by the real lopdf (decompressed_content, get_plain_content, decompress, png::decode_row) and "
            "compared with the plain bytes the specification started from. Random set_content / set_plain_content / "
            "compress / decompress / Document::compress / Document::decompress sequences are run on lopdf and every "
            "call is judged by TLC against the StreamOps contract (Length = content length, never longer, lossless).",
    "note": "Trusted: TLC; the transcription of ISO 32000-1 7.4, PNG 9, RFC 1950/1951 (stored blocks) and TIFF/PDF LZW in "
            "spec/Codecs.tla (cross-checked by published test vectors); Python's zlib as the independent inflater of "
            "lopdf's real deflate output; the harness's projection of a Stream. Exhaustive only within the model bounds; "
            "the inside of flate2 on Huffman blocks is not modelled.",
    "design_ref": "DESIGN.md section 4 C09",
}

# family of a generated case -> the MC_Codecs action that produced it
FAMILY_ACTION = {"a85": "PickA85", "a85ws": "PickA85Ws", "zstored": "PickZ", "lzw": "PickLzw", "lzwlong": "PickLzwLong",
                 "png": "PickPng", "nofilter": "PickNoFilter", "ahx": "PickAHx", "rl": "PickRL", "tiff": "PickTiff", "pngsub": "PickPngSub", "pngbytes": "PickPngBytes", "chain": "PickChain", "row4": "PickPaeth", "row": "PickRow", "rowenc": "PickRowEnc", "indirect": "PickIndirect"}
SHORT = {"FlateDecode": "flate", "LZWDecode": "lzw", "ASCII85Decode": "a85", "ASCIIHexDecode": "ahx", "RunLengthDecode": "rl"}


VACUITY = []     # vacuity complaints are raised (exit 2) only when the run found no violation: they must not mask one


def vacuous(msg):
    VACUITY.append(msg)


def same(x, y):
    return (not y.get("na")) and x["ok"] == y["ok"] and x["data"] == y["data"] and ("panic" in x) == ("panic" in y)


def input_class(c):
    """Narrow class of a generated chain case, used for signatures of *unlisted* mismatches."""
    parts = []
    for st in c["chain"]:
        p = SHORT.get(st["f"], "other")
        if st["pred"] >= 10:
            p += "+png" if st["bpc"] >= 8 else "+png%dbit" % st["bpc"]
        if st["pred"] == 2:
            p += "+tiff%dbit" % st["bpc"]
        if st["f"] == "LZWDecode" and st["early"] == 0:
            p += "+early0"
        parts.append(p)
    return ",".join(parts) + "/" + c["form"]


def judge_chain(c, r):
    """-> (signature or None, detail).  Only the declarative value c['plain'] decides."""
    dc, want = r["dc"], c["plain"]
    det = {"chain": c["chain"], "paramsForm": c["form"], "encoded": c["enc"], "spec_plain": want, "lopdf": dc}
    if r["len0"] != r["enc_len"]:
        return "C09:length.new", det
    if r["gp"] != dc:
        det["get_plain_content"] = r["gp"]
        return "C09:get_plain_content.differs", det
    dz = r["dz"]
    if dc["ok"]:
        if dz["res"] != "ok" or dz["content"] != dc["data"] or dz["has_filter"]:
            det["decompress"] = dz
            return "C09:decompress.differs", det
        if dz["length"] != len(dz["content"]):
            det["decompress"] = dz
            return "C09:length.decompress", det
    if dc["ok"] and dc["data"] == want:
        return None, det
    cls = c["cls"]
    # classes of the repaired defects (none is a known finding any more): a regression is named by its
    # class only when lopdf misbehaves *exactly* as that deviation predicts
    if "decodeparms.array" in cls and same(dc, r["np"]):
        return "C09:decodeparms.array", det
    if "png.avg" in cls and dc["ok"] and c["implAvg"]["ok"] and dc["data"] == c["implAvg"]["data"]:
        return "C09:png.avg", det
    if "a85.nul" in cls and same(dc, r["cut"]):
        return "C09:a85.nul", det
    if "panic" in dc:
        return "C09:panic." + input_class(c), det
    return "C09:decode." + input_class(c), det


def judge_zero(c, r):
    """A chain of zero filters (no Filter entry, /Filter null, /Filter []): the content is the decoded data.
    get_plain_content must return it, decompress must keep it (whatever it answers), and for /Filter []
    - where decompressed_content has a result at all - that result is the content."""
    want, ff = c["plain"], c["ff"]
    dc, gp, dz = r["dc"], r["gp"], r["dz"]
    det = {"Filter": {"absent": "(no entry)", "null": "null", "empty": "[]"}[ff],
           "DecodeParms": {"none": "(no entry)", "array": "[]", "dict": "<</Predictor 12 /Columns 2>>"}[c["form"]],
           "content": want, "decompressed_content": dc, "get_plain_content": gp, "after_decompress": dz}
    if r["len0"] != r["enc_len"]:
        return "C09:length.new", det
    if any("panic" in x for x in (dc, gp, dz)):
        return "C09:panic.nofilter", det
    wiped = ff == "empty" and len(want) > 0
    bad = []
    if not (gp["ok"] and gp["data"] == want):
        bad.append("get_plain_content")
    if ff == "empty" and not (dc["ok"] and dc["data"] == want):
        bad.append("empty" if wiped and dc["ok"] and dc["data"] == [] else "decompressed_content")
    if dz["content"] != want:
        bad.append("empty" if wiped and dz["res"] == "ok" and dz["content"] == [] and dz["length"] == 0 else "decompress")
    elif dz["length"] != len(dz["content"]):
        bad.append("length")
    if not bad:
        return None, det
    # the open finding counts only in its exact form: /Filter [] on a non-empty content, result = nothing
    if all(b == "empty" for b in bad):
        return "C09:filter.empty-array", det
    return "C09:nofilter.%s.%s/%s" % ([b for b in bad if b != "empty"][0], ff, c["form"]), det


DIRTYING = {"png.cut-row", "png.bad-type", "zlib.cut", "a85.cut"}      # failures that can happen after a complete row


def judge_history(chk, c, r, st):
    """History independence: the same case decoded again on a thread that has just decoded some other stream (most of
    them failing part-way) must give what the specification says - decoding is a function of (content, dictionary).
    The harness reports the re-decodes that differ from the fresh-thread result; the declarative value decides."""
    h = r.get("hist")
    if not h:
        return
    n = sum(h["by_kind"].values())
    st["rejudged_after_disturbance"] += n
    chk.evaluations += n
    for k, v in h["by_kind"].items():
        st["by_kind"][k] = st["by_kind"].get(k, 0) + v
    if h["sensitive"] and c.get("fts") and c["fts"][0] in (2, 3, 4):
        st["first_row_uses_row_above_after_dirtying_failure"] += sum(v for k, v in h["by_kind"].items() if k in DIRTYING)
    for d in h["diffs"]:
        st["differing_redecodes_in_rayon_worker"] += d["thread"] == "rayon worker"
        if d["dc"]["ok"] and d["dc"]["data"] == c["plain"]:
            continue        # the disturbed answer is the right one: the fresh one is wrong and already reported
        chk.violation("C09:history." + d["kind"],
                      {"disturbance": {"kind": d["kind"], "at": d["at"], "decoded_through": d["disturbed_through"], "thread": d["thread"]},
                       "judged_call": d["judged_call"], "chain": c["chain"], "paramsForm": c["form"], "encoded": c["enc"],
                       "spec_plain": c["plain"], "lopdf_fresh_thread": r["dc"], "lopdf_after_disturbance": d["dc"]})


def judge_indirect(c, r):
    """An entry of the stream dictionary is written as an indirect reference (legal: ISO 32000-1 7.3.10); c['chain']
    holds the resolved stages, so c['plain'] is what the stream means.  Stream methods cannot resolve a reference:
    they may refuse, they must not guess - every Ok answer is the plain data, and decompress (Stream or Document
    level) either leaves the stream exactly as it was or replaces it by the plain data."""
    want, enc, x = c["plain"], c["enc"], r["ind"]
    det = {"indirect_entry": c["ind"], "key": c["key"], "stage": c["idx"], "dictionary": x["dict"], "resolved_chain": c["chain"],
           "encoded": enc, "spec_plain": want, "decompressed_content": r["dc"], "get_plain_content": r["gp"],
           "after_Stream_decompress": r["dz"], "after_Document_decompress": x["doc_decompress"],
           "Document_get_page_content": x["get_page_content"]}
    if any("panic" in v for v in (r["dc"], r["gp"], r["dz"], x["doc_decompress"])):
        return "C09:panic.indirect." + c["ind"], det
    bad = []          # (what, exactly as if the referenced entry were absent?)
    for what, v, a in (("decompressed_content", r["dc"], x["abs"]["dc"]), ("get_plain_content", r["gp"], x["abs"]["gp"])):
        if v["ok"] and v["data"] != want:
            bad.append((what, a["ok"] and a["data"] == v["data"]))
    z = r["dz"]
    kept = z["content"] == enc and z["has_filter"]
    done = z["content"] == want and not z["has_filter"]
    if z["length"] != len(z["content"]):
        bad.append(("Stream::decompress.length", False))
    elif not (kept or done):
        bad.append(("Stream::decompress", z["content"] == x["abs"]["dz"]["content"]))
    # Document level: the referenced object is in the document - references resolved, then the Stream contract.
    # Document::decompress must decode the stream; get_page_content must not hand out anything but the decoded data.
    doc_bad = []      # (what, exactly "the Document does not resolve the reference: stream / bytes left as they are"?)
    z = x["doc_decompress"]
    if z["length"] != len(z["content"]):
        doc_bad.append(("Document::decompress.length", False))
    elif not (z["content"] == want and not z["has_filter"]):
        doc_bad.append(("Document::decompress", z["content"] == enc and z["has_filter"]))
    g = x["get_page_content"]
    if g["ok"] and g["data"] != want and g["data"][:-1] != want:
        doc_bad.append(("Document::get_page_content", g["data"] == enc + [10]))
    if not bad and not doc_bad:
        return None, det
    if not bad:
        det["broken"] = [b[0] for b in doc_bad]
        if all(b[1] for b in doc_bad):
            return "C09:doc-indirect." + c["ind"], det      # the open finding, in its exact form
        return "C09:doc-indirect-other.%s.%s" % (c["ind"], [b[0] for b in doc_bad if not b[1]][0]), det
    det["broken"] = [b[0] for b in bad]
    if all(b[1] for b in bad):
        return "C09:indirect." + c["ind"], det          # the open finding, in its exact form
    return "C09:indirect-other.%s.%s" % (c["ind"], [b[0] for b in bad if not b[1]][0]), det


def judge_row(c, r):
    det = {"filter_type": c["ft"], "bpp": c["bpp"], "prev": c["prev"], "cur": c["cur"], "spec_row": c["want"], "lopdf_row": r["row"]}
    if "panic" in r:
        return "C09:panic.row", det
    if r["row"] == c["want"] and r["enc"] == c["encwant"] and r["rt"] == c["cur"]:
        return None, det
    if r["row"] != c["want"]:
        if c["ft"] == 3 and r["row"] == c["avgdev"]:      # exactly the repaired defect (left + above/2)
            return "C09:png.avg", det
        return "C09:png.row.ft%d" % c["ft"], det
    # encode_row on the same bytes as raw data: what PNG 9 defines, and decode_row gives the raw row back
    det = {"filter_type": c["ft"], "bpp": c["bpp"], "prev": c["prev"], "raw": c["cur"], "spec_encode_row": c["encwant"],
           "lopdf_encode_row": r["enc"], "lopdf_decode_row_of_that": r["rt"]}
    if c["ft"] == 3 and r["enc"] == c["encdev"]:          # exactly: left + above added in u8 before halving
        return "C09:png.encode-avg", det
    return "C09:png.encode_row.ft%d" % c["ft"], det


def case_key(c):
    return hashlib.sha1(json.dumps(c, sort_keys=True).encode()).hexdigest()


def family(c):
    return c["fam"]


def codec_phase(chk, tier, w):
    cfg = "MC_Codecs_%s.cfg" % tier
    r = tlc("MC_Codecs.tla", cfg, workers=4, timeout=1500, xmx="4g" if tier == "quick" else "8g")
    chk.add_tlc(r)
    cases = r.tagged("REPLAY")
    if not cases:
        raise vlib.ToolError("generator produced no cases")
    # streams the decoding thread is disturbed with (history independence): generated by TLC, every damaged one
    # fails in the reference decoder (invariant DisturbFails)
    dists = r.tagged("DISTURB")
    need_kinds = {"ok", "png.cut-row", "png.bad-type", "zlib.cut", "a85.cut", "a85.bad-group", "lzw.bad-code"}
    if {d["kind"] for d in dists} != need_kinds:
        raise vlib.ToolError("generator produced disturbance kinds %s" % sorted({d["kind"] for d in dists}))
    write_ndjson(os.path.join(w, "disturb.ndjson"), dists)
    # (B) action coverage.  TLC's own -coverage makes these fold-heavy modules 15-300x slower, so the
    # per-action counts are taken from the emitted cases (each family is produced by exactly one action).
    fams = {}
    for c in cases:
        fams[family(c)] = fams.get(family(c), 0) + 1
    r.coverage = {FAMILY_ACTION[f]: (n, n) for f, n in fams.items()}
    need = ["PickA85", "PickA85Ws", "PickZ", "PickLzw", "PickLzwLong", "PickPng", "PickPaeth", "PickRow", "PickChain", "PickNoFilter", "PickAHx", "PickRL", "PickTiff", "PickPngSub", "PickRowEnc", "PickIndirect"]
    if tier != "quick":
        need.append("PickPngBytes")
    vlib.require_coverage(r, need)
    require_classes(cases)
    cin, cout = os.path.join(w, "gen.ndjson"), os.path.join(w, "gen.out.ndjson")
    write_ndjson(cin, cases)
    run_bin("c09", ["replay", "--in", cin, "--disturb", os.path.join(w, "disturb.ndjson"), "--per-case", 8, "--full", 30,
                    "--out", cout])
    results = read_ndjson(cout)
    if len(results) != len(cases):
        raise vlib.ToolError("replay lost cases")
    passed = {}
    hist_stats = {"rejudged_after_disturbance": 0, "by_kind": {}, "first_row_uses_row_above_after_dirtying_failure": 0,
                  "differing_redecodes_in_rayon_worker": 0}
    for c, r_ in zip(cases, results):
        nontrivial = (c["k"] == "row") or len(c["plain"]) > 0
        chk.case(case_key(c) if nontrivial else None)
        sig, det = judge_row(c, r_) if c["k"] == "row" else judge_zero(c, r_) if not c["chain"] else \
            judge_indirect(c, r_) if c.get("ind", "none") != "none" else judge_chain(c, r_)
        if sig:
            chk.violation(sig, det)
        else:
            chk.traces += 1
        ans = "gp" if c["k"] == "chain" and not c["chain"] else "dc"      # zero filters: get_plain_content answers
        if c.get("ind", "none") != "none":
            passed[family(c)] = passed.get(family(c), 0) + (sig is None or sig.startswith(("C09:indirect.", "C09:doc-indirect.")))
            if r_["dc"] != c["impldc"] and not (not r_["dc"]["ok"] and not c["impldc"]["ok"]):
                chk.extra["model_drift"] = chk.extra.get("model_drift", 0) + 1
            continue
        if (r_["row"] == c["want"]) if c["k"] == "row" else (r_[ans]["ok"] and r_[ans]["data"] == c["plain"]):
            passed[family(c)] = passed.get(family(c), 0) + 1
        judge_history(chk, c, r_, hist_stats)
        if c["k"] == "chain" and (c["chain"] or c["ff"] == "empty") and c["impl"]["ok"] and not (r_["dc"]["ok"] and r_["dc"]["data"] == c["impl"]["data"]):
            chk.extra["model_drift"] = chk.extra.get("model_drift", 0) + 1
    for f in fams:
        if passed.get(f, 0) == 0:
            vacuous("no generated case of family %s was decoded correctly by lopdf" % f)
    for k in need_kinds:
        if hist_stats["by_kind"].get(k, 0) == 0:
            vacuous("no case was re-judged after a disturbance of kind %s" % k)
    if hist_stats["first_row_uses_row_above_after_dirtying_failure"] == 0:
        vacuous("no predictor case whose first row is Up/Average/Paeth was re-judged after a decode that failed past its first row")
    chk.extra["history"] = hist_stats
    chk.extra["disturbances"] = len(dists)
    chk.extra["replayed_cases_by_family"] = fams
    chk.extra["replayed_cases"] = len(cases)
    # (B) negative control for the replay judge: a corrupted expectation must be reported
    neg = next(((c, r_) for c, r_ in zip(cases, results)
                if c["k"] == "chain" and c["chain"] and len(c["plain"]) > 2 and judge_chain(c, r_)[0] is None), None)
    if neg is None:
        vacuous("no generated case passes: the replay judge has no negative control")
    else:
        bad = json.loads(json.dumps(neg[0]))
        bad["plain"][1] ^= 1
        if judge_chain(bad, neg[1])[0] is None:
            raise vlib.ToolError("negative control: corrupted generated case was not reported by the replay judge")
        chk.extra["negative_controls_rejected"] = chk.extra.get("negative_controls_rejected", 0) + 1
    i = next(i for i, c in enumerate(cases) if family(c) == "nofilter" and c["ff"] == "empty" and len(c["plain"]) > 3)
    chk.sample({"family": "nofilter", "Filter": "[]", "paramsForm": cases[i]["form"], "content": cases[i]["plain"][:24],
                "lopdf_decompressed_content": results[i]["dc"], "lopdf_get_plain_content": results[i]["gp"]["data"][:24],
                "lopdf_content_after_decompress": results[i]["dz"]["content"][:24]})
    for fam in ("png", "lzwlong", "chain", "a85ws", "tiff", "rl"):
        i = next(i for i, c in enumerate(cases) if family(c) == fam and len(c.get("plain", [])) > 3)
        c = cases[i]
        chk.sample({"family": fam, "plain": c["plain"][:24], "chain": c["chain"], "paramsForm": c["form"],
                    "encoded": c["enc"][:40], "lopdf_decompressed_content": results[i]["dc"]["data"][:24]})


def require_classes(cases):
    """The generated set must contain the classes the property quantifies over."""
    a85 = [c for c in cases if c["k"] == "chain" and c["fam"] == "a85"]
    if {len(c["plain"]) % 4 for c in a85} != {0, 1, 2, 3} or not any(122 in c["enc"] for c in a85):
        raise vlib.ToolError("vacuous: ASCII85 cases lack a partial-group size or z")
    png = [c for c in cases if c["k"] == "chain" and c["fam"] == "png"]
    if {ft for c in png for ft in c["fts"]} != {0, 1, 2, 3, 4}:
        raise vlib.ToolError("vacuous: PNG cases lack a filter type")
    if {c["chain"][0]["colors"] * c["chain"][0]["bpc"] // 8 for c in png} < {1, 2, 4}:
        raise vlib.ToolError("vacuous: PNG cases lack a bytes-per-pixel value")
    if {c["form"] for c in png} != {"dict", "array"}:
        raise vlib.ToolError("vacuous: PNG cases lack a parameter form")
    ll = [c for c in cases if c["k"] == "chain" and c["fam"] == "lzwlong"]
    if {c["chain"][0]["early"] for c in ll} != {0, 1} or not all(len(c["enc"]) * 8 // 9 > 260 for c in ll):
        raise vlib.ToolError("vacuous: long LZW cases do not cross the 9->10 bit boundary with both EarlyChange values")
    tiff = [c for c in cases if c["k"] == "chain" and c["fam"] == "tiff"]
    if {c["chain"][0]["bpc"] for c in tiff} != {1, 2, 4, 8, 16} or \
            not any(len(c["plain"]) % ((c["chain"][0]["columns"] * c["chain"][0]["colors"] * c["chain"][0]["bpc"] + 7) // 8) for c in tiff):
        raise vlib.ToolError("vacuous: TIFF predictor cases lack a component width or a short last row")
    if {c["chain"][0]["bpc"] for c in cases if c["k"] == "chain" and c["fam"] == "pngsub"} != {1, 2, 4}:
        raise vlib.ToolError("vacuous: sub-byte PNG cases lack a component width")
    rl = [c for c in cases if c["k"] == "chain" and c["fam"] == "rl"]
    if not {0, 1, 126, 127, 129, 130, 255} <= {c["enc"][0] for c in rl if c["enc"]} or not any(c["enc"] and c["enc"][-1] != 128 for c in rl):
        raise vlib.ToolError("vacuous: RunLength cases lack a length byte 0/1/126/127 (literal), 129/130/255 (run) or a missing EOD")
    ahx = [c for c in cases if c["k"] == "chain" and c["fam"] == "ahx"]
    if not any(c["enc"] and c["enc"][-1] != 62 for c in ahx) or not any(0 in c["enc"] and 12 in c["enc"] for c in ahx) or \
            not any(sum(1 for b in c["enc"] if chr(b) in "0123456789abcdefABCDEF") % 2 for c in ahx):
        raise vlib.ToolError("vacuous: ASCIIHex cases lack a missing EOD, NUL/FF white-space or an odd digit count")
    zero = {(c["ff"], c["form"]) for c in cases if c["k"] == "chain" and not c["chain"] and c["plain"]}
    if zero != {(f, d) for f in ("absent", "null", "empty") for d in ("none", "array", "dict")}:
        raise vlib.ToolError("vacuous: zero-filter cases lack a spelling of Filter / DecodeParms")
    if not any(len(c["chain"]) >= 2 for c in cases if c["k"] == "chain"):
        raise vlib.ToolError("vacuous: no multi-filter chain generated")


def paeth_cube(chk, w):
    """thorough: the full 2^24 Paeth cube — one row per (left, above) computed by TLC from the PNG definition,
    compared with lopdf's decode_row table."""
    r = tlc("MC_Codecs.tla", "MC_Codecs_paeth.cfg", workers=16, timeout=2400, xmx="8g", name="c09paeth")
    chk.add_tlc(r)
    rows = r.tagged("PAETH")
    if len(rows) != 65536:
        raise vlib.ToolError("Paeth cube: %d rows of 65536" % len(rows))
    tab = os.path.join(w, "paeth.bin")
    run_bin("c09", ["paeth", "--out", tab])
    t = open(tab, "rb").read()
    if len(t) != 1 << 24:
        raise vlib.ToolError("Paeth table has %d bytes" % len(t))
    bad = 0
    for row in rows:
        a, b = row["a"], row["b"]
        got = t[(a << 16) | (b << 8):((a << 16) | (b << 8)) + 256]
        if bytes(row["row"]) != got:
            bad += 1
            c = next(i for i in range(256) if row["row"][i] != got[i])
            chk.violation("C09:png.paeth", {"left": a, "above": b, "upper_left": c, "spec": row["row"][c], "lopdf": got[c]})
    chk.evaluations += 1 << 24
    chk.extra["paeth_cube_triples"] = 1 << 24
    chk.extra["paeth_cube_rows_differing"] = bad


def streamops_model(chk, tier):
    r = tlc("MC_StreamOps.tla", "MC_StreamOps_%s.cfg" % tier, workers=4, timeout=900)
    chk.add_tlc(r)
    acts = set(r.tagged("ACTION"))
    need = {"set_content", "set_plain_content", "compress", "decompress", "doc_compress", "doc_decompress"}
    if acts != need:
        vacuous("StreamOps model: actions taken %s" % sorted(acts))
    r.coverage = {a: (1, 1) for a in acts}
    vlib.require_coverage(r, sorted(need))
    wit = set(r.tagged("WITNESS"))
    if wit != {"compressed", "roundtrip"}:
        vacuous("StreamOps model: witnesses %s" % sorted(wit))
    # the run above is the design "as the code is" (all switches off since the fix: commits; StepOK holds, so no
    # DEVIATION line can appear).  Negative control of the contract invariants: each repaired defect seeded
    # back into the model breaks the contract, and only on its own class
    if r.tagged("DEVIATION"):
        raise vlib.ToolError("StreamOps model as the code is reports a deviation")
    for cfg, cls in (("devAvg", "png.avg"), ("devArr", "decodeparms.array"), ("devStale", "compress.stale-decodeparms"),
                     ("devEmpty", "filter.empty-array"), ("devInd", "indirect.parms")):
        d = tlc("MC_StreamOps.tla", "MC_StreamOps_%s.cfg" % cfg, workers=2, timeout=600)
        chk.add_tlc(d)
        seen = {tuple(x) for x in d.tagged("DEVIATION")}
        if seen != {(cls,)}:
            raise vlib.ToolError("deviation switch %s: model shows %s, expected exactly {%s}" % (cfg, sorted(seen), cls))
    # Disturb action: between any two calls the thread may have decoded other streams, incl. ones failing at every
    # point; with the code as it is (fresh row buffers per call) the contract and HistoryFree hold ...
    h = tlc("MC_StreamOps.tla", "MC_StreamOps_hist.cfg", workers=4, timeout=900)
    chk.add_tlc(h)
    if "disturb" not in set(h.tagged("ACTION")):
        vacuous("StreamOps history model: Disturb never taken")
    # ... and the switch "row buffers survive a failed decode" is refuted: the contract breaks, only while the
    # scratch state is dirty, after the disturbances that fail past a complete row
    d = tlc("MC_StreamOps.tla", "MC_StreamOps_devRows.cfg", workers=2, timeout=600)
    chk.add_tlc(d)
    seen = {k for x in d.tagged("DEVIATION") for k in x if k.startswith("history.")}
    if not all(any(k.startswith("history.") for k in x) for x in d.tagged("DEVIATION")) or \
            seen != {"history.png.cut-row", "history.png.bad-type", "history.zlib.cut"}:
        raise vlib.ToolError("deviation switch devRows: model shows %s" % sorted({tuple(x) for x in d.tagged("DEVIATION")}))
    d = tlc("MC_StreamOps.tla", "MC_StreamOps_devDocInd.cfg", workers=2, timeout=600)
    chk.add_tlc(d)
    seen = {tuple(x) for x in d.tagged("DEVIATION")}
    if seen != {("doc-indirect.parms",), ("doc-indirect.filter",)}:
        raise vlib.ToolError("deviation switch devDocInd: model shows %s" % sorted(seen))
    chk.extra["seeded_design_deviations_detected"] = 7


def add_oracle(recs):
    """Real deflate output is inflated here with Python's zlib (independent of flate2) and handed to the
    trace spec as the oracle field `orc` of each logged stream state."""
    n = 0
    for r in recs:
        for s in r["post"]:
            orc = {"has": False, "data": []}
            if s["filters"][:1] == ["FlateDecode"]:
                try:
                    orc = {"has": True, "data": list(zlib.decompress(bytes(s["content"])))}
                    n += 1
                except zlib.error:
                    pass
            s["orc"] = orc
    return n


def trace_phase(chk, tier, w):
    runs = 300 if tier == "quick" else 8000
    raw = os.path.join(w, "rec.ndjson")
    run_bin("c09", ["record", "--seed", vlib.seed(), "--n", runs, "--disturb", os.path.join(w, "disturb.ndjson"), "--out", raw])
    recs = read_ndjson(raw)
    inflated = add_oracle(recs)
    tr = os.path.join(w, "trace.ndjson")
    write_ndjson(tr, recs)
    r = tlc("Trace_StreamOps.tla", "Trace_StreamOps.cfg", workers=1, env={"TRACE": tr}, deque=True, timeout=2400,
            name="c09trace", xmx="4g" if tier == "quick" else "8g")
    chk.add_tlc(r)
    verdicts = r.tagged("VERDICT")
    if len(verdicts) != len(recs):
        raise vlib.ToolError("trace validator judged %d of %d records" % (len(verdicts), len(recs)))
    vmap = {}
    for v in verdicts:
        rec, prev = recs[v["i"] - 1], recs[v["i"] - 2] if v["i"] > 1 else None
        vmap[v["i"]] = v["v"]
        chk.case(case_key({"op": rec["op"], "arg": rec["arg"], "post": [[s["filters"], s["form"], s["content"]] for s in rec["post"]]})
                 if rec["op"] != "reset" else None)
        if v["v"].startswith("ok"):
            chk.traces += 1
            if v["v"] == "ok-drift":
                chk.extra["model_drift"] = chk.extra.get("model_drift", 0) + 1
        else:
            strip = lambda s: {k: s[k] for k in ("filters", "fform", "form", "parms", "ind", "length", "content", "allows", "dc", "gp", "pc")}
            chk.violation("C09:" + v["v"], {"op": rec["op"], "stream": rec["sid"], "arg": rec["arg"], "res": rec["res"],
                                            "last_disturbance_of_the_thread": rec["dk"], "right_before_this_call": rec["dnow"],
                                            "fresh_thread_agrees": rec["fresh_same"] and not any(s["hs"] for s in rec["post"]),
                                            "pre": [strip(s) for s in prev["post"]] if prev and rec["op"] != "reset" else [],
                                            "post": [strip(s) for s in rec["post"]], "row": rec.get("row", {})})
    # (B) the recorded set must contain the interesting transitions
    stats = {"compress_added_filter": 0, "decompress_removed_filter": 0, "roundtrip_compress_decompress": 0, "set_content": 0,
             "set_plain_content": 0, "doc_ops": 0, "python_inflated_states": inflated,
             "calls_on_streams_with_indirect_entries": 0, "random_rows_encode_decode": 0, "random_average_rows_that_wrap": 0,
             "calls_after_disturbance": 0, "predictor_decodes_after_disturbance": 0,
             "decompress_of_empty_filter_array": 0, "null_filter_states": 0, "empty_filter_array_with_empty_decodeparms": 0}
    for i in range(1, len(recs)):
        rec, prev = recs[i], recs[i - 1]
        if rec["op"] == "reset":
            continue
        if rec["op"] in ("set_content", "set_plain_content"):
            stats[rec["op"]] += 1
        if rec["op"].startswith("doc_"):
            stats["doc_ops"] += 1
        stats["calls_after_disturbance"] += rec["dnow"]
        if rec["op"] == "row":
            stats["random_rows_encode_decode"] += 1
            rw = rec["row"]
            stats["random_average_rows_that_wrap"] += rw["ft"] == 3 and any(
                rw["raw"][i - rw["bpp"]] + rw["prev"][i] >= 256 for i in range(min(rw["bpp"], len(rw["raw"])), len(rw["raw"])))
            continue
        stats["calls_on_streams_with_indirect_entries"] += any(b["ind"] != "none" for b in rec["post"])
        for j, (a, b) in enumerate(zip(prev["post"], rec["post"])):
            stats["predictor_decodes_after_disturbance"] += rec["dnow"] and rec["dk"] in DIRTYING and bool(b["filters"]) and \
                any(p["present"] and p["pred"] >= 10 for p in b["parms"])
            if rec["op"] in ("decompress", "doc_decompress") and rec["sid"] in (0, j + 1) and not a["filters"] \
                    and a["fform"] == "array" and a["content"]:
                stats["decompress_of_empty_filter_array"] += 1
            stats["null_filter_states"] += b["fform"] == "null"
            stats["empty_filter_array_with_empty_decodeparms"] += b["fform"] == "array" and not b["filters"] and b["form"] == "array"
            if rec["op"] in ("compress", "doc_compress") and not a["filters"] and b["filters"] == ["FlateDecode"]:
                stats["compress_added_filter"] += 1
            if rec["op"] in ("decompress", "doc_decompress") and a["filters"] and not b["filters"]:
                stats["decompress_removed_filter"] += 1
                if a["orc"]["has"] and a["form"] == "none" and b["content"] == a["orc"]["data"]:
                    stats["roundtrip_compress_decompress"] += 1
    for k, n in stats.items():
        if n == 0:
            vacuous("trace set: no %s" % k)
    chk.extra["trace_stats"] = stats
    chk.extra["trace_records"] = len(recs)
    i = next((i for i in range(1, len(recs)) if recs[i]["op"] == "compress" and vmap[i + 1] == "ok"
              and any(not a["filters"] and b["filters"] for a, b in zip(recs[i - 1]["post"], recs[i]["post"]))), None)
    if i is not None:
        chk.sample({"recorded_call": "compress", "pre_lengths": [s["length"] for s in recs[i - 1]["post"]],
                    "post": [{"filters": s["filters"], "length": s["length"], "content": s["content"][:32]} for s in recs[i]["post"]],
                    "verdict": vmap[i + 1]})
    negative_controls(chk, recs, vmap, w)


def negative_controls(chk, recs, vmap, w):
    """Corrupt one field of three accepted records; Trace_StreamOps must reject each with the right clause."""
    def as_reset(rec):
        x = json.loads(json.dumps(rec))
        x["op"], x["sid"], x["arg"], x["res"] = "reset", 0, [], "ok"
        return x

    def pick(pred):
        for i in range(1, len(recs)):
            if recs[i]["op"] != "reset" and vmap[i + 1] == "ok" and pred(recs[i - 1], recs[i]):
                return recs[i - 1], json.loads(json.dumps(recs[i]))
        return None

    def added(prev, rec):
        return rec["op"] == "compress" and not prev["post"][rec["sid"] - 1]["filters"] and rec["post"][rec["sid"] - 1]["filters"]

    def undone(prev, rec):
        a, b = prev["post"][rec["sid"] - 1], rec["post"][rec["sid"] - 1]
        return rec["op"] == "decompress" and a["filters"] == ["FlateDecode"] and not b["filters"] and len(b["content"]) > 0

    out, expect = [], []
    if pick(added) is None or pick(undone) is None:
        vacuous("no accepted record suitable for the negative controls of Trace_StreamOps")
        return
    p, r = pick(added)                      # 1. Length entry off by one after compress
    r["post"][r["sid"] - 1]["length"] += 1
    out += [as_reset(p), r]
    expect.append("length")
    p, r = pick(added)                      # 2. compressed bytes inflate to something else (lossy compression)
    r["post"][r["sid"] - 1]["orc"]["data"][0] ^= 1
    out += [as_reset(p), r]
    expect.append("compress.lossy")
    p, r = pick(undone)                     # 3. one decoded byte wrong after decompress
    s = r["post"][r["sid"] - 1]
    s["content"][0] ^= 1
    s["gp"]["data"][0] ^= 1
    out += [as_reset(p), r]
    expect.append("decompress.content")
    ntr = os.path.join(w, "neg.ndjson")
    write_ndjson(ntr, out)
    t = tlc("Trace_StreamOps.tla", "Trace_StreamOps.cfg", workers=1, env={"TRACE": ntr}, deque=True, name="c09neg")
    got = {v["i"]: v["v"] for v in t.tagged("VERDICT")}
    seen = [got.get(2), got.get(4), got.get(6)]
    if seen != expect:
        raise vlib.ToolError("negative controls: Trace_StreamOps answered %s, expected %s" % (seen, expect))
    chk.extra["negative_controls_rejected"] = chk.extra.get("negative_controls_rejected", 0) + 3


# ------------------------------------------------------------------ large, highly compressible contents
def summary(b):
    """The same summary the harness computes (pure data plumbing): length, SHA-256, first runs, number of runs."""
    runs, n, i = [], 0, 0
    while i < len(b):
        j = i + 1
        while j < len(b) and b[j] == b[i]:
            j += 1
        if len(runs) < 4:
            runs.append([b[i], j - i])
        n += 1
        i = j
    return {"len": len(b), "dig": hashlib.sha256(b).hexdigest(), "runs": runs, "nruns": n}


def independent_decode(filters, raw):
    """Decode with decoders that share no code with lopdf: Python's zlib and base64.a85decode."""
    data = bytes(raw)
    for f in filters:
        if f == "FlateDecode":
            data = zlib.decompress(data)
        elif f == "ASCII85Decode":
            t = data.rstrip(b" \t\r\n\x0c\x00")
            if not t.endswith(b"~>"):
                raise ValueError("no EOD")
            data = base64.a85decode(t[:-2], ignorechars=b" \t\r\n\x0c\x00")
        else:
            raise ValueError("no independent decoder for " + f)
    return data


def big_phase(chk, tier, w):
    runs = 24 if tier == "quick" else 240
    raw = os.path.join(w, "big.ndjson")
    run_bin("c09", ["recordbig", "--seed", vlib.seed(), "--n", runs, "--out", raw])
    recs = read_ndjson(raw)
    decoded = 0
    for r in recs:
        for s in r["post"]:
            orc = {"has": False, "s": summary(b"")}
            if s["filters"]:
                if not s["rawok"]:
                    raise vlib.ToolError("harness logged a filtered stream without its encoded bytes")
                try:
                    orc = {"has": True, "s": summary(independent_decode(s["filters"], s["raw"]))}
                    decoded += 1
                except Exception:
                    pass
            s["orc"] = orc
            del s["raw"], s["rawok"]
    tr = os.path.join(w, "bigtrace.ndjson")
    write_ndjson(tr, recs)
    r = tlc("Trace_StreamOpsBig.tla", "Trace_StreamOpsBig.cfg", workers=1, env={"TRACE": tr}, deque=True, timeout=1800, name="c09big")
    chk.add_tlc(r)
    verdicts = r.tagged("VERDICT")
    if len(verdicts) != len(recs):
        raise vlib.ToolError("big trace validator judged %d of %d records" % (len(verdicts), len(recs)))
    vmap = {}
    for v in verdicts:
        rec, prev = recs[v["i"] - 1], recs[v["i"] - 2] if v["i"] > 1 else None
        vmap[v["i"]] = v["v"]
        chk.case(case_key({"op": rec["op"], "arg": rec["arg"]["dig"], "post": [[s["filters"], s["c"]["dig"]] for s in rec["post"]]})
                 if rec["op"] != "reset" else None)
        if v["v"].startswith("ok"):
            chk.traces += 1
            if v["v"] == "ok-drift":
                chk.extra["model_drift"] = chk.extra.get("model_drift", 0) + 1
        else:
            strip = lambda s: {k: s[k] for k in ("filters", "length", "c", "dc", "gp", "orc")}
            chk.violation("C09:big." + v["v"], {"op": rec["op"], "stream": rec["sid"], "arg": rec["arg"], "res": rec["res"],
                                                "pre": [strip(s) for s in prev["post"]] if prev and rec["op"] != "reset" else [],
                                                "post": [strip(s) for s in rec["post"]],
                                                "note": "byte strings as summaries: length, SHA-256, first runs, number of runs; "
                                                        "orc = what Python zlib / a85decode obtain from the encoded content"})
    # (B) the recorded set must contain the class: ratios far beyond 256:1, every size, chains, save + load
    st = {"states_ratio_over_256": 0, "states_ratio_over_256_in_ascii85": 0, "compress_added_filter_ratio_over_256": 0,
          "decompress_restored_big_plain": 0, "save_load": 0, "set_plain_content": 0, "doc_ops": 0, "independently_decoded_states": decoded}
    sizes = set()
    for i in range(1, len(recs)):
        rec, prev = recs[i], recs[i - 1]
        if rec["op"] == "reset":
            continue
        st["save_load"] += rec["op"] == "save_load" and rec["res"] == "ok"
        st["set_plain_content"] += rec["op"] == "set_plain_content"
        st["doc_ops"] += rec["op"].startswith("doc_")
        for a, b in zip(prev["post"], rec["post"]):
            if b["filters"] and b["orc"]["has"] and b["orc"]["s"]["len"] > 256 * b["c"]["len"]:
                st["states_ratio_over_256"] += 1
                sizes.add(b["orc"]["s"]["len"])
            # Flate inside ASCII85: the Flate stage sees 4/5 of the content
            if b["filters"] == ["ASCII85Decode", "FlateDecode"] and b["orc"]["has"] and b["orc"]["s"]["len"] > 256 * b["c"]["len"]:
                st["states_ratio_over_256_in_ascii85"] += 1
            if rec["op"] in ("compress", "doc_compress") and not a["filters"] and b["filters"] and a["c"]["len"] > 256 * b["c"]["len"]:
                st["compress_added_filter_ratio_over_256"] += 1
            if rec["op"] in ("decompress", "doc_decompress") and a["filters"] and not b["filters"] and b["c"]["len"] >= 65536:
                st["decompress_restored_big_plain"] += 1
    for k, n in st.items():
        if n == 0:
            vacuous("big trace set: no %s" % k)
    if not any(n >= 300 * 1024 for n in sizes) or not any(65536 <= n < 300 * 1024 for n in sizes):
        vacuous("big trace set: no 64 KiB / 300 KiB content beyond ratio 256")
    chk.extra["big_trace_stats"] = {k: int(n) for k, n in st.items()}
    chk.extra["big_trace_records"] = len(recs)
    i = next((i for i in range(1, len(recs)) if recs[i]["op"] == "compress" and vmap[i + 1] == "ok"
              and any(not a["filters"] and b["filters"] and a["c"]["len"] > 256 * b["c"]["len"]
                      for a, b in zip(recs[i - 1]["post"], recs[i]["post"]))), None)
    if i is not None:
        chk.sample({"recorded_call": "compress (large content, summarised)", "pre": [s["c"] for s in recs[i - 1]["post"]],
                    "post": [{"filters": s["filters"], "length": s["length"], "content": s["c"],
                              "lopdf_decompressed_content": s["dc"], "python_zlib": s["orc"]} for s in recs[i]["post"]],
                    "verdict": vmap[i + 1]})
    # (B) negative controls: a truncated decode result / a truncated content after decompress must be rejected
    def as_reset(rec):
        x = json.loads(json.dumps(rec))
        x["op"], x["sid"], x["arg"], x["res"] = "reset", 0, summary(b""), "ok"
        return x

    def pick(pred):
        for i in range(1, len(recs)):
            if recs[i]["op"] != "reset" and vmap[i + 1] == "ok" and pred(recs[i - 1], recs[i]):
                return recs[i - 1], json.loads(json.dumps(recs[i]))
        return None

    c1 = pick(lambda p, r: r["op"] == "compress" and not p["post"][r["sid"] - 1]["filters"] and r["post"][r["sid"] - 1]["filters"])
    c2 = pick(lambda p, r: r["op"] == "decompress" and p["post"][r["sid"] - 1]["filters"] and not r["post"][r["sid"] - 1]["filters"])
    if c1 is None or c2 is None:
        vacuous("no accepted record suitable for the negative controls of Trace_StreamOpsBig")
        return
    out = []
    p, r = c1                                # 1. decompressed_content returns a truncated result
    s = r["post"][r["sid"] - 1]
    s["dc"]["s"] = dict(s["dc"]["s"], len=s["dc"]["s"]["len"] // 3)
    out += [as_reset(p), r]
    p, r = json.loads(json.dumps(c1))        # 2. the compressed content inflates to other bytes (lossy)
    s = r["post"][r["sid"] - 1]
    s["orc"]["s"]["dig"] = "00" + s["orc"]["s"]["dig"][2:] if not s["orc"]["s"]["dig"].startswith("00") else "11" + s["orc"]["s"]["dig"][2:]
    s["dc"]["s"]["dig"] = s["gp"]["s"]["dig"] = s["orc"]["s"]["dig"]
    out += [as_reset(p), r]
    p, r = c2                                # 3. decompress stored truncated bytes with a matching Length
    s = r["post"][r["sid"] - 1]
    s["c"] = dict(s["c"], len=s["c"]["len"] // 3)
    s["length"] = s["c"]["len"]
    s["gp"]["s"] = s["c"]
    out += [as_reset(p), r]
    ntr = os.path.join(w, "bigneg.ndjson")
    write_ndjson(ntr, out)
    t = tlc("Trace_StreamOpsBig.tla", "Trace_StreamOpsBig.cfg", workers=1, env={"TRACE": ntr}, deque=True, name="c09bigneg")
    got = {v["i"]: v["v"] for v in t.tagged("VERDICT")}
    seen, expect = [got.get(2), got.get(4), got.get(6)], ["decompressed_content", "compress.lossy", "decompress.content"]
    if seen != expect:
        raise vlib.ToolError("negative controls: Trace_StreamOpsBig answered %s, expected %s" % (seen, expect))
    chk.extra["negative_controls_rejected"] = chk.extra.get("negative_controls_rejected", 0) + 3


def run(tier):
    del VACUITY[:]
    for f in os.listdir(vlib.REPLAYS) if os.path.isdir(vlib.REPLAYS) else []:      # replay files of earlier C09 runs are stale
        if f.startswith("C09-"):
            os.remove(os.path.join(vlib.REPLAYS, f))
    chk = Check("C09", META["level"], tier)
    chk.rule = ("cases enumerated by TLC (MC_Codecs: one state per input x encoder choice) and calls recorded from seeded random "
                "operation sequences; a generated case is non-trivial when its plain data is non-empty (or it is a single PNG row), "
                "a recorded call when it is not the initial build; distinct by the full case / by (op, argument, resulting streams)")
    chk.assumptions = [
        "Real (Huffman) deflate is not modelled: decode cases use zlib streams of stored blocks, and lopdf's own compressor "
        "output is inflated by Python's zlib before TLC judges losslessness",
        "LZW and ASCII85 are transcribed from ISO 32000-1 7.4.3/7.4.4.2 (TIFF 6.0 for the encoder side) and PNG filters from "
        "the PNG specification section 9; vectors: ISO LZW example, 'Man ' -> 9jqo^, adler32('Wikipedia')",
        "BitsPerComponent is 8 or 16 and Predictor is 1 or 10..15 (the property's domain); TIFF predictor 2 is not covered",
        "Large contents (4 KiB - 300 KiB, highly compressible) reach TLC as summaries (length, SHA-256, first runs, number of runs) "
        "computed by the harness; equality of byte strings is equality of summaries, and the reference decode of lopdf's "
        "deflate / ASCII85 output is Python's zlib / base64.a85decode",
        "History independence: the disturbing streams are generated by TLC (damaged at every offset of one wide predictor "
        "frame); 'fresh' results come from a thread that has never decoded anything, not from a fresh process",
        "TLC -coverage is not used (15-300x slowdown on fold-heavy modules); action coverage is taken from the emitted case "
        "families and ACTION/WITNESS lines",
    ]
    w = workdir("c09")
    codec_phase(chk, tier, w)          # (M)+(G) Codecs
    streamops_model(chk, tier)         # (M) StreamOps, as repaired and as the code is
    trace_phase(chk, tier, w)          # (V)+(B)
    big_phase(chk, tier, w)            # (V)+(B) large / highly compressible contents, summarised
    if tier != "quick":
        # the reference pairs of CodecsExt used as stages here (ASCIIHex, RunLength, TIFF predictor of every component
        # width) invert each other on every string over 5 symbols up to length 5
        x = tlc("MC_CodecsExt.tla", "MC_CodecsExt.cfg", workers=8, timeout=1500)
        chk.add_tlc(x)
        paeth_cube(chk, w)
        chk.extra["paeth"] = "full 2^24 cube compared (TLC rows vs decode_row table)"
    else:
        chk.extra["paeth"] = "stratified cube 11^3 via decode_row; full cube only in the thorough tier"
    chk.exhaustive = True
    if VACUITY and not chk.violations:
        raise vlib.ToolError("vacuous: " + "; ".join(VACUITY))
    chk.extra["vacuity_notes"] = list(VACUITY)
    return chk.finish()
