"""C11 — editing operations keep the document sound."""
import json, os, glob, hashlib, random
from concurrent.futures import ThreadPoolExecutor
import vlib
from vlib import Check, tlc, run_bin, workdir, write_ndjson, read_ndjson, log

META = {
    "property_id": "C11",
    "level": "model_checking",
    "technique": "TLA+ spec (Editing/EditingSys: abstract documents, one action per public editing call, ghost state, "
                 "declarative judge on objects, page bytes and page operation sequences) model-checked by TLC; TLC-generated "
                 "call sequences replayed into lopdf; recorded lopdf programs validated call by call by Trace_Editing",
    "text": "The specification models a PDF document as an object graph with a page tree (catalog, Pages nodes with "
            "Kids/Count/Parent, pages whose Contents is a single reference, an array of 1 or 2, an array naming one stream "
            "twice, a reference to an array, shared by two pages, not decodable, or missing; Resources on the root, on the "
            "page, on both, inline or behind a reference, one object shared by two pages, an XObject category that already "
            "has the name X<next object number>; annotation arrays; an Info dictionary; a stream whose dictionary references another object) and has "
            "one action per public call (new_object_id, add_object, set_object, delete_object, remove_object, prune_objects, "
            "delete_pages, renumber_objects, compress, decompress, add_page_contents, change_page_content, "
            "change_content_stream, get_or_create_resources, add_xobject, add_graphics_state, build_outline, save, "
            "save+load, and the compositions of parser_aux.rs add_to_page_content, insert_image, insert_form_object in the "
            "order the code performs their steps, error paths included) with ghost state (issued ids, the bytes and the "
            "operation sequence every page must show; operation sequences are observed through Content::decode and kept "
            "abstract as tokens). For the three compositions the judge demands: the stored stream has a fresh id; the "
            "edited page decodes to old..., new... / old..., q, cm, Do /X, Q / q, old..., Q, Do /X; the page can use the "
            "new XObject under the name drawn and no page loses any resource it could use before (also not one of the "
            "same name); every other page keeps its content; an error leaves all content as it was. The declarative layer judges "
            "every step: FreshIds, Frame (nothing reachable outside the call's documented write set changes), NoStaleRef, "
            "PruneExact, CountsOk, ContentOk, ResMonotone (resources in effect by the ISO nearest-ancestor rule), MaxIdOk "
            "and the post-state the abstract model prescribes. The impl-shaped layer transcribes lopdf's algorithms with "
            "switches for the confirmed deviations; TLC explores every call sequence up to the depth bound from every "
            "starting document as the code is (the only violations are the listed findings), with the repaired defects seeded back "
            "(additionally exactly the eight former findings) and with every confirmed deviation repaired (none). Page trees "
            "with the Resources 127-201 levels above a page, indirect Kids / Count, set_object above max_id and bookmarks on "
            "deleted pages are part of the generated inputs. "
            "Sampled behaviours (breadth-first and random simulation to depth 10) are stepped through the real lopdf API "
            "and seeded random programs of 5-40 calls on generated documents and on documents loaded from bytes saved by "
            "lopdf are recorded; Trace_Editing binds every logged call to its action, checks effect and invariants on the "
            "logged post-state, names the violated clause and re-synchronises.",
    "note": "Trusted: TLC, the projection in harness/src/bin/c11.rs (streams are inflated with flate2, not with lopdf), "
            "Editing!Judge as the reading of the statement. Readings: 'no reference left behind' is required of the "
            "trailer and of objects still reachable from it; 'no operation other than an explicit deletion alters an "
            "object' is read with each call's documented write set; calls are judged only while the document is sound "
            "(no reachable dangling reference), a step that breaks this is reported once. Caller errors are outside the "
            "domain: replacing or deleting page-tree nodes (with the objects behind their indirect Kids / Count) or the "
            "objects of a page's Contents through the object-level calls. set_object under a number above max_id is inside "
            "the domain (the allocators must still hand out fresh ids). Indirect objects whose whole value is a reference "
            "(9 0 obj 8 0 R) are outside it: a reference is not one of the object types of ISO 32000-1 7.3.1. The clauses on operation sequences apply where the decoder reads the whole "
            "old content (content it reads only in part is malformed input). A Resources object shared by two pages is the "
            "edited page's own entry: adding to it is inside the write set and only grows the other page's resources. Renumbering is summarised (C10 checks the renaming itself); the byte "
            "level of save/load belongs to C01-C03 (a load that changes objects is counted as drift here). Exhaustive only "
            "within the model bounds; beyond that sampled.",
    "bins": ["c11"],
    "modules": ["MC_Editing.tla", "Trace_Editing.tla"],
    "design_ref": "DESIGN.md section 4 C11",
}

OPS = ["NewObjectId", "AddObject", "Replace", "DeleteObject", "RemoveAnnot", "Prune", "DeletePages", "Renumber",
       "Compress", "Decompress", "AddPageContents", "ChangePageContent", "ChangeContentStream",
       "GetOrCreateResources", "AddXObject", "AddGraphicsState", "BuildOutline", "Save", "SaveLoad",
       "AddToPageContent", "InsertImage", "InsertFormObject"]
# violation tags the model produces "as the code is" (the Allowed constant of the cfgs): the known findings
MODEL_FINDINGS = []          # repaired: resources.shadow.deep 8ecb6b6, fresh.aboveMax / maxid.setObject 692e806, counts.indirect 517c497, delete.bookmark d56c356
# ... and with the repaired defects seeded back (Editing!DevSeeded / FormerFindings): the negative control of the Judge
FORMER_FINDINGS = ["delete.array.dup", "delete.streamdict", "delete.trailer", "resources.shadow", "contents.refToArray",
                   "content.streamBoundary", "content.sharedStream", "resources.nameCollision", "resources.shadow.deep", "fresh.aboveMax", "maxid.setObject", "counts.indirect", "delete.bookmark", "resources.shadow.incremental"]
DRIFT = ("drift.",)


def is_drift(t):
    return t.startswith(DRIFT)


# ------------------------------------------------------------------------------------------------ (M)
def model_runs(tier):
    if tier == "quick":
        return [("MC_Editing_quick_all.cfg", 4), ("MC_Editing_quick_content.cfg", 3), ("MC_Editing_quick_res.cfg", 3),
                ("MC_Editing_quick_obj.cfg", 3), ("MC_Editing_quick_ins.cfg", 3), ("MC_Editing_quick_audit.cfg", 2)]
    return [("MC_Editing_thorough_all.cfg", 6), ("MC_Editing_thorough_content.cfg", 4), ("MC_Editing_thorough_content2.cfg", 2),
            ("MC_Editing_thorough_res.cfg", 2), ("MC_Editing_thorough_obj.cfg", 3), ("MC_Editing_thorough_starts.cfg", 3),
            ("MC_Editing_thorough_ins.cfg", 3), ("MC_Editing_thorough_ins4.cfg", 2), ("MC_Editing_thorough_audit.cfg", 3)]


def run_models(chk, tier):
    """every cfg explores `as the code is` and `with the repaired defects seeded back`; the invariant Refines fails
    (ToolError) if the design as the code is violates a clause outside the listed findings (there are none), or the
    seeded design one outside the former findings"""
    runs = model_runs(tier)

    def one(x):
        cfg, w = x
        return tlc("MC_Editing.tla", cfg, workers=w, env={"C11_PICK": vlib.seed()}, timeout=3400,
                   xmx="3g" if tier == "quick" else "6g", name=os.path.splitext(cfg)[0])

    with ThreadPoolExecutor(max_workers=len(runs)) as ex:
        results = list(ex.map(one, runs))
    cases = []
    for (cfg, _), r in zip(runs, results):
        chk.add_tlc(r)
        cs = r.tagged("REPLAY")
        for c in cs:
            c["cfg"] = cfg
        if not cs:
            raise vlib.ToolError("generator produced no behaviours for " + cfg)
        cases += cs
        chk.extra.setdefault("model_runs", {})[cfg] = {"states": r.distinct, "transitions": r.generated, "depth": r.depth,
                                                        "behaviours_printed": len(cs)}
    # random simulation to depth 10 (two TLC steps per call + Finish)
    nsim = 30 if tier == "quick" else 400
    r = tlc("MC_Editing.tla", "MC_Editing_sim.cfg", workers=4, simulate=nsim, depth=24, env={"C11_PICK": 0},
            timeout=1800, name="MC_Editing_sim")
    sim = r.tagged("REPLAY")
    for c in sim:
        c["cfg"] = "sim"
    if len(sim) < nsim:
        raise vlib.ToolError("simulation printed %d behaviours" % len(sim))
    chk.extra["model_runs"]["MC_Editing_sim.cfg"] = {"behaviours_printed": len(sim), "states": r.generated}
    chk.transitions += r.generated
    return cases, sim


def model_vacuity(cases):
    """(B) every action was taken, all variants were explored, exactly the listed findings are reached as the code is,
    the five former findings (besides the listed ones) with the repaired defects seeded back, and nothing at all with
    everything repaired (computed from the printed behaviours; -coverage is unusably slow here)"""
    ops = set()
    tags = {"asis": set(), "seeded": set(), "repaired": set()}
    for c in cases:
        for st in c["calls"]:
            ops.add(st["c"]["op"])
            for t in st["v"]:
                if not is_drift(t):
                    tags[c["mode"]].add(t)
    missing = [o for o in OPS if o not in ops]
    if missing:
        raise vlib.ToolError("vacuous model run: actions never taken in a printed behaviour: %s" % missing)
    if tags["seeded"] - set(MODEL_FINDINGS) != set(FORMER_FINDINGS):
        raise vlib.ToolError("model with the repaired defects seeded back reaches %s, expected the listed findings and exactly %s"
                             % (sorted(tags["seeded"]), FORMER_FINDINGS))
    if tags["asis"] != set(MODEL_FINDINGS):
        raise vlib.ToolError("as-the-code-is model reaches %s, expected exactly %s" % (sorted(tags["asis"]), MODEL_FINDINGS))
    if tags["repaired"]:
        raise vlib.ToolError("the model with every deviation repaired violates %s" % sorted(tags["repaired"]))
    for m in ("asis", "seeded", "repaired"):
        if not any(c["mode"] == m for c in cases):
            raise vlib.ToolError("vacuous: no behaviour of variant %s printed" % m)


def norm(x):
    """TLC prints the empty function as []: the empty dictionary of the harness is {}"""
    if isinstance(x, dict):
        y = {k: norm(v) for k, v in x.items()}
        if y.get("k") == "dict" and y["v"] == []:
            y["v"] = {}
        if y.get("k") == "stream" and y["d"] == []:
            y["d"] = {}
        return y
    if isinstance(x, list):
        return [norm(v) for v in x]
    return x


def pick_cases(cases, cap, rnd):
    """bound the number of replayed behaviours: per (cfg, variant, last verdict, last op) bucket keep a seeded sample"""
    buckets = {}
    for c in cases:
        last = c["calls"][-1] if c["calls"] else {"v": [], "c": {"op": "-"}}
        key = (c["cfg"], c["mode"], tuple(sorted(last["v"])), last["c"]["op"])
        buckets.setdefault(key, []).append(c)
    keys = sorted(buckets, key=lambda k: json.dumps(k))
    per = max(1, cap // max(1, len(keys)))
    out = []
    for k in keys:
        b = buckets[k]
        rnd.shuffle(b)
        out += b[:per]
    return out


# ------------------------------------------------------------------------------------------------ (G) (V)
def judge_records(chk, recs, name, chunks, strict=True):
    """Trace_Editing over recs; returns verdict dicts in record order"""
    bounds = [i for i, r in enumerate(recs) if r["ev"] == "Start"]
    vs, st, tr = vlib.validate_trace("Trace_Editing.tla", "Trace_Editing.cfg", recs, name, boundaries=bounds,
                                     chunks=chunks, timeout=3000)
    chk.states += st
    chk.transitions += tr
    if len(vs) != len(recs) or [v["i"] for v in vs] != list(range(len(recs))):
        raise vlib.ToolError("trace validator judged %d of %d records" % (len(vs), len(recs)))
    bad = [v for v in vs if v["v"] == "spec-inconsistent"]
    if bad and strict:
        raise vlib.ToolError("spec and driver read the logged objects differently at record %d (%s)" % (bad[0]["i"], bad[0]["tags"]))
    return vs


def program_detail(recs, i, v):
    """the program up to record i, replayable by hand: starting document + calls"""
    j = i
    while recs[j]["ev"] != "Start":
        j -= 1
    s = recs[j]
    calls = [{"c": r["c"], "res": r.get("res")} for r in recs[j + 1:i + 1] if r["ev"] in ("Call", "Panic")]
    r = recs[i]
    d = {"verdict": v["v"], "tags": v["tags"], "source": r.get("src"), "program": r.get("prog"),
         "start": {"objects": s["objects"], "trailer": s["trailer"], "max_id": s["max_id"], "bms": s["bms"]},
         "calls": calls[-12:], "calls_before_shown": max(0, len(calls) - 12)}
    if r["ev"] == "Call":
        d["failing_call"] = r["c"]
        d["result"] = r["res"]
        d["objects_written"] = r["set"]
        d["objects_removed"] = r["del"]
        d["page_content_after"] = r["pc"]
    if r["ev"] == "Panic":
        d["panic"] = r["msg"]
    return d


def shape_of(objs, page):
    c = objs[page]["v"].get("Contents")
    if c is None:
        return "missing"
    if c["k"] == "arr":
        return "array"
    if c["k"] == "ref":
        return "refToArray" if objs.get(c["n"], {}).get("k") == "arr" else "ref"
    return "other"


def content_ids(objs, page):
    """(ids on the page's Contents chain, stream ids) by the check's own reading of the projected objects"""
    c = objs.get(page, {}).get("v", {}).get("Contents") if objs.get(page, {}).get("k") == "dict" else None
    chain, arr = [], None
    if c is None:
        return [], []
    if c["k"] == "ref":
        chain.append(c["n"])
        t = objs.get(c["n"], {})
        if t.get("k") == "arr":
            arr = t["v"]
        else:
            return chain, [c["n"]]
    elif c["k"] == "arr":
        arr = c["v"]
    ids = [e["n"] for e in (arr or []) if e.get("k") == "ref"]
    return chain + ids, ids


def has_key(x, key):
    if isinstance(x, dict):
        return key in x or any(has_key(v, key) for v in x.values())
    if isinstance(x, list):
        return any(has_key(v, key) for v in x)
    return False


def input_classes(recs):
    """classes of the judged INPUTS (anti-vacuity bookkeeping, independent of verdicts): starting documents, calls, and
    for the calls of parser_aux.rs the situation of the edited page when the call is made (the check replays the logged
    object deltas itself)"""
    cl = set()
    n = 0
    objs, pages, max_id, bms = {}, [], 0, []
    for i, r in enumerate(recs):
        if r["ev"] == "Start":
            objs = {o[0]: o[1] for o in r["objects"]}
            for p in r["pages"]:
                if objs.get(p, {}).get("k") == "dict":
                    cl.add("contents:" + shape_of(objs, p))
                    cl.add("resources:own" if "Resources" in objs[p]["v"] else "resources:inherited-or-none")
                    if "Annots" in objs[p]["v"]:
                        cl.add("annots")
            if len(r["pages"]) >= 3:
                cl.add("pages>=3")
            if any(o[1].get("k") == "dict" and o[1]["v"].get("Type", {}).get("v") == "Pages" and "Parent" in o[1]["v"]
                   for o in r["objects"]):
                cl.add("nested-tree")
            if any(o[1].get("k") == "stream" and o[1]["d"].get("Type", {}).get("v") == "XRef" for o in r["objects"]):
                cl.add("loaded-xref-stream")
            if r.get("loaded"):
                cl.add("loaded")
            if r.get("levels"):
                cl.add("resources:%d-levels-up" % r["levels"])
            for o in r["objects"]:
                if o[1].get("k") == "dict" and o[1]["v"].get("Type", {}).get("v") == "Pages":
                    if o[1]["v"].get("Count", {}).get("k") == "ref":
                        cl.add("count:indirect")
                    if o[1]["v"].get("Kids", {}).get("k") == "ref":
                        cl.add("kids:indirect")
            if any(o[1].get("k") == "stream" and o[1]["z"] for o in r["objects"]):
                cl.add("compressed-stream")
            res = [objs[p]["v"].get("Resources") for p in r["pages"] if objs.get(p, {}).get("k") == "dict"]
            refs = [x["n"] for x in res if x and x["k"] == "ref"]
            if len(refs) != len(set(refs)):
                cl.add("resources:shared")
            n = 0
        elif r["ev"] == "Call":
            n += 1
            op = r["c"]["op"]
            cl.add("op:" + op)
            if n >= 20:
                cl.add("program>=20")
            if op == "Replace" and r["c"]["id"] > max_id:
                cl.add("replace:above-max_id")
            if op == "DeletePages" and any(1 <= x <= len(pages) and pages[x - 1] in bms for x in r["c"]["nums"]):
                cl.add("deletepages:bookmarked-page")
            if op == "DeletePages":
                hit = [pages[x - 1] for x in r["c"]["nums"] if 1 <= x <= len(pages)]
                def anc(n, seen=()):
                    par = objs.get(n, {}).get("v", {}).get("Parent") if objs.get(n, {}).get("k") == "dict" else None
                    return [] if not par or par.get("k") != "ref" or par["n"] in seen else [par["n"]] + anc(par["n"], seen + (par["n"],))
                if any(objs.get(a, {}).get("v", {}).get("Count", {}).get("k") == "ref" for p_ in hit for a in anc(p_)):
                    cl.add("deletepages:indirect-count-above")
            if op == "Renumber":             # renumber_objects_with(start): start inside / above the numbers in use, gaps
                ids = sorted(objs)
                st = r["c"]["x"] or 1
                gap = bool(ids) and ids != list(range(ids[0], ids[0] + len(ids)))
                if ids and ids[0] < st <= ids[-1]:
                    cl.add("renumber:start-inside" + ("+gap" if gap else ""))
                if ids and st > ids[-1]:
                    cl.add("renumber:start-above")
                if st == 1 and gap:
                    cl.add("renumber:from-1+gap")
            if op in ("AddXObject", "AddGraphicsState", "GetOrCreateResources") and r["c"]["fmt"] == "inc" and r["c"]["id"] in pages:
                own = objs.get(r["c"]["id"], {}).get("v", {}).get("Resources")
                cl.add("inc-resource-call-on:" + ("own-resources" if own else "inheriting-page"))
            if op == "AddGraphicsState" and r["c"]["id"] in pages:
                own = objs.get(r["c"]["id"], {}).get("v", {}).get("Resources")
                if own and own["k"] == "ref":
                    own = objs.get(own["n"])
                if own and own.get("k") == "dict":
                    e = own["v"].get("ExtGState")
                    cl.add("addgs-on:extgstate-" + ("absent" if e is None else "ref" if e["k"] == "ref" else "inline"))
            if op == "DeletePages":          # argument lists: repeats, out of range, 0, unsorted
                nums = r["c"]["nums"]
                if len(nums) != len(set(nums)) and any(1 <= x <= len(pages) and nums.count(x) > 1 for x in nums):
                    cl.add("deletepages:repeat")
                if any(x > len(pages) for x in nums):
                    cl.add("deletepages:out-of-range")
                if 0 in nums:
                    cl.add("deletepages:zero")
                if nums != sorted(nums):
                    cl.add("deletepages:unsorted")
                if any(1 <= x <= len(pages) for x in nums) and len(r["pages"]) >= 1 and any(
                        o[1].get("k") == "dict" and o[1]["v"].get("Type", {}).get("v") == "Pages" and "Parent" in o[1]["v"]
                        for o in objs.items()):
                    cl.add("deletepages:nested-tree")
            if op in ("InsertImage", "InsertFormObject", "AddToPageContent") and r["c"]["id"] in pages:
                p = r["c"]["id"]
                pre = "insert-on:" if op != "AddToPageContent" else "addto-on:"
                cl.add(pre + "contents-" + shape_of(objs, p))
                chain, streams = content_ids(objs, p)
                if any(q != p and set(content_ids(objs, q)[0]) & set(chain) for q in pages):
                    cl.add(pre + "shared-contents")
                data = [b for sid in streams for b in objs.get(sid, {}).get("c", [])]
                if bytes(data).split() and b"BI" in bytes(data).split():
                    cl.add(pre + "undecodable")
                if data and bytes(data[-1:]) not in (b"\n", b" ", b"\r", b"\t"):
                    cl.add(pre + "no-trailing-space")
                if op != "AddToPageContent" and has_key([o for o in objs.values() if o.get("k") == "dict"], "X%d" % (max_id + 1)):
                    cl.add(pre + "name-taken")
                rp = objs.get(p, {}).get("v", {}).get("Resources")
                if rp and rp["k"] == "ref" and any(q != p and objs.get(q, {}).get("v", {}).get("Resources") == rp for q in pages):
                    cl.add(pre + "shared-resources")
            for sid, o in r["set"]:
                objs[sid] = o
            for sid in r["del"]:
                objs.pop(sid, None)
        if r["ev"] in ("Start", "Call"):
            pages, max_id, bms = r["pages"], r["max_id"], r["bms"]
    return cl


def triage(chk, recs, vs, seen_ops):
    ok_programs = 0
    cur_ok = True
    for i, (r, v) in enumerate(zip(recs, vs)):
        if r["ev"] == "Start":
            if i > 0 and cur_ok:
                ok_programs += 1
            cur_ok = True
        tags = [t for t in v["tags"] if not is_drift(t)]
        drift = [t for t in v["tags"] if is_drift(t)]
        if r["ev"] == "Call":
            key = hashlib.sha1(json.dumps([r["c"], r["set"], r["del"]], sort_keys=True).encode()).hexdigest()
            chk.case(key if (r["set"] or r["del"] or r["c"]["op"] in ("NewObjectId", "Save")) else None)
            if v["v"] != "ok-outside-domain":
                seen_ops.add(r["c"]["op"])
            else:
                chk.extra["outside_domain_steps"] = chk.extra.get("outside_domain_steps", 0) + 1
        else:
            chk.case(None)
        if drift and r["ev"] == "Call" and r["c"]["op"] != "SaveLoad":
            chk.extra["model_drift"] = chk.extra.get("model_drift", 0) + 1
        if v["v"] == "violation":
            cur_ok = False
            pre = "C11:start." if r["ev"] == "Start" else "C11:"
            for t in tags:
                chk.violation(pre + t, program_detail(recs, i, v))
        elif v["v"] == "panic":
            cur_ok = False
            chk.violation("C11:" + v["tags"][0], program_detail(recs, i, v))
    if recs and cur_ok:
        ok_programs += 1
    return ok_programs


# ------------------------------------------------------------------------------------------------ (B) negative controls
def R(n):
    return {"k": "ref", "n": n}


def N(s):
    return {"k": "name", "v": s}


def I(i):
    return {"k": "int", "v": i}


def D(**kw):
    return {"k": "dict", "v": kw}


def A(*xs):
    return {"k": "arr", "v": list(xs)}


def S(c, **d):
    return {"k": "stream", "d": d, "c": list(c), "z": False}


def synthetic_program():
    """a hand-made conforming program (what a correct implementation logs), independent of the tree under test"""
    page = D(Type=N("Page"), Parent=R(2), Contents=R(4), Annots=A(R(5), R(5)), Resources=D(Font=D(F1=R(7))))
    objs = [[1, D(Type=N("Catalog"), Pages=R(2))], [2, D(Type=N("Pages"), Kids=A(R(3)), Count=I(1))], [3, page],
            [4, S([65])], [5, D(Type=N("Annot"))], [6, D(Title={"k": "str", "v": "T"})], [7, D(Type=N("Font"))]]
    trailer = {"Root": R(1), "Info": R(6)}
    er = [[3, [["Font", "F1"]]]]

    def call(op, **kw):
        c = {"op": op, "id": 0, "x": 0, "name": "", "b": [], "o": {"k": "null"}, "nums": [], "fmt": "", "ops": []}
        c.update(kw)
        return c

    def rec(c, res, set_, del_, max_id, pc, er_=er, tr=trailer):
        return {"ev": "Call", "prog": 0, "c": c, "res": res, "set": set_, "del": del_, "trailer": tr, "max_id": max_id,
                "bms": [], "pages": [3], "pc": pc, "po": [[3, [pc[0][1]] if pc[0][1] else []]], "xn": NOXN, "er": er_}

    ok = {"ok": True, "id": 0, "ids": []}
    start = {"ev": "Start", "prog": 0, "objects": objs, "trailer": trailer, "max_id": 7, "bms": [], "pages": [3],
             "pc": [[3, [65, 10]]], "po": [[3, [[65]]]], "er": er, "content": [[3, [65, 10]]]}
    page2 = D(Type=N("Page"), Parent=R(2), Contents=R(4), Annots=A(), Resources=D(Font=D(F1=R(7))))
    page3 = D(Type=N("Page"), Parent=R(2), Contents=A(R(4), R(9)), Annots=A(), Resources=D(Font=D(F1=R(7))))
    page4 = D(Type=N("Page"), Parent=R(2), Contents=A(R(4), R(9)), Annots=A(),
              Resources=D(Font=D(F1=R(7)), XObject=D(X1=R(4))))
    prog = [
        start,
        rec(call("AddObject", o=I(7)), {"ok": True, "id": 8, "ids": []}, [[8, I(7)]], [], 8, [[3, [65, 10]]]),
        rec(call("DeleteObject", id=5), ok, [[3, page2]], [5], 8, [[3, [65, 10]]]),
        rec(call("AddPageContents", id=3, b=[66]), ok, [[3, page3], [9, S([66])]], [], 9, [[3, [65, 10, 66, 10]]]),
        rec(call("AddXObject", id=3, name="X1", x=4), ok, [[3, page4]], [], 9, [[3, [65, 10, 66, 10]]],
            er_=[[3, [["Font", "F1"], ["XObject", "X1"]]]]),
        rec(call("Prune"), {"ok": True, "id": 0, "ids": [8]}, [], [8], 9, [[3, [65, 10, 66, 10]]],
            er_=[[3, [["Font", "F1"], ["XObject", "X1"]]]]),
    ]
    return prog


NOXN = {"s": "", "b": []}


def B(text):
    return list(text.encode())


def J(*streams):
    """a page's content: the data of each of its streams followed by a newline"""
    return [b for t in streams for b in B(t + "\n")]


def synthetic_inserts():
    """a hand-made conforming program of add_to_page_content / insert_image / insert_form_object as an implementation
    without the known findings logs it (the name X10 is taken: the image is registered as X11)"""
    res_root = D(Font=D(F1=R(7)), XObject=D(X10=R(5)))
    img = S([1, 2], Type=N("XObject"), Subtype=N("Image"))
    form = S(B("0 0 m\nS"), Type=N("XObject"), Subtype=N("Form"))
    objs = [[1, D(Type=N("Catalog"), Pages=R(2))],
            [2, D(Type=N("Pages"), Kids=A(R(3), R(8)), Count=I(2), Resources=res_root)],
            [3, D(Type=N("Page"), Parent=R(2), Contents=R(4))], [4, S(B("A\n"))], [5, S([9], Type=N("XObject"))],
            [6, S(B("B\n"))], [7, D(Type=N("Font"))], [8, D(Type=N("Page"), Parent=R(2), Contents=R(6))]]
    trailer = {"Root": R(1)}
    inh = [["Font", "F1"], ["XObject", "X10"]]

    def call(op, **kw):
        c = {"op": op, "id": 0, "x": 0, "name": "", "b": [], "o": {"k": "null"}, "nums": [], "fmt": "", "ops": []}
        c.update(kw)
        return c

    def rec(c, set_, max_id, pc, po, er, xn=NOXN, ok=True):
        return {"ev": "Call", "prog": 0, "c": c, "res": {"ok": ok, "id": 0, "ids": []}, "set": set_, "del": [],
                "trailer": trailer, "max_id": max_id, "bms": [], "pages": [3, 8], "pc": pc, "po": po, "xn": xn, "er": er}

    start = {"ev": "Start", "prog": 0, "objects": objs, "trailer": trailer, "max_id": 8, "bms": [], "pages": [3, 8],
             "pc": [[3, J("A\n")], [8, J("B\n")]], "po": [[3, [B("A")]], [8, [B("B")]]], "er": [[3, inh], [8, inh]],
             "content": [[3, J("A\n")], [8, J("B\n")]]}
    # 1. add_to_page_content(page 3, [q, Q])
    s1 = rec(call("AddToPageContent", id=3, ops=[B("q"), B("Q")]),
             [[3, D(Type=N("Page"), Parent=R(2), Contents=A(R(4), R(9)))], [9, S(B("q\nQ"))]], 9,
             [[3, J("A\n", "q\nQ")], [8, J("B\n")]], [[3, [B("A"), B("q"), B("Q")]], [8, [B("B")]]], [[3, inh], [8, inh]])
    # 2. insert_image(page 3, image, position (4, 5), size (2, 3)): object 10, registered as X11
    own3 = D(Font=D(F1=R(7)), XObject=D(X10=R(5), X11=R(10)))
    c3 = "A\nq\nQ\nq\n2 0 0 3 4 5 cm\n/X11 Do\nQ"
    s2 = rec(call("InsertImage", id=3, o=img, nums=[2, 3, 4, 5]),
             [[3, D(Type=N("Page"), Parent=R(2), Contents=R(11), Resources=own3)], [10, img], [11, S(B(c3))]], 11,
             [[3, J(c3)], [8, J("B\n")]], [[3, [B(t) for t in c3.split("\n")]], [8, [B("B")]]],
             [[3, inh + [["XObject", "X11"]]], [8, inh]], xn={"s": "X11", "b": B("X11")})
    # 3. insert_form_object(page 8, form): object 12, registered as X12; the single content stream is rewritten
    own8 = D(Font=D(F1=R(7)), XObject=D(X10=R(5), X12=R(12)))
    c8 = "q\nB\nQ\n/X12 Do"
    s3 = rec(call("InsertFormObject", id=8, o=form),
             [[6, S(B(c8))], [8, D(Type=N("Page"), Parent=R(2), Contents=R(6), Resources=own8)], [12, form]], 12,
             [[3, J(c3)], [8, J(c8)]], [[3, [B(t) for t in c3.split("\n")]], [8, [B(t) for t in c8.split("\n")]]],
             [[3, inh + [["XObject", "X11"]]], [8, inh + [["XObject", "X12"]]]], xn={"s": "X12", "b": B("X12")})
    # 4. add_to_page_content(page 3, [n]): the old content's stream ends with "Q" (no white space); the streams are
    #    kept apart when the page's content is read
    c3b = c3 + "\nn"
    s4 = rec(call("AddToPageContent", id=3, ops=[B("n")]),
             [[3, D(Type=N("Page"), Parent=R(2), Contents=A(R(11), R(13)), Resources=own3)], [13, S(B("n"))]], 13,
             [[3, J(c3, "n")], [8, J(c8)]], [[3, [B(t) for t in c3b.split("\n")]], [8, [B(t) for t in c8.split("\n")]]],
             [[3, inh + [["XObject", "X11"]]], [8, inh + [["XObject", "X12"]]]])
    return [start, s1, s2, s3, s4]


def synthetic_shared():
    """two pages share one content stream; change_page_content(page 3) gives page 3 a stream of its own"""
    objs = [[1, D(Type=N("Catalog"), Pages=R(2))], [2, D(Type=N("Pages"), Kids=A(R(3), R(5)), Count=I(2))],
            [3, D(Type=N("Page"), Parent=R(2), Contents=R(4))], [4, S(B("A\n"))],
            [5, D(Type=N("Page"), Parent=R(2), Contents=R(4))]]
    trailer = {"Root": R(1)}
    start = {"ev": "Start", "prog": 0, "objects": objs, "trailer": trailer, "max_id": 5, "bms": [], "pages": [3, 5],
             "pc": [[3, J("A\n")], [5, J("A\n")]], "po": [[3, [B("A")]], [5, [B("A")]]], "er": [[3, []], [5, []]],
             "content": [[3, J("A\n")], [5, J("A\n")]]}
    c = {"op": "ChangePageContent", "id": 3, "x": 0, "name": "", "b": B("Z\n"), "o": {"k": "null"}, "nums": [], "fmt": "", "ops": []}
    s1 = {"ev": "Call", "prog": 0, "c": c, "res": {"ok": True, "id": 0, "ids": []},
          "set": [[3, D(Type=N("Page"), Parent=R(2), Contents=R(6))], [6, S(B("Z\n"))]], "del": [], "trailer": trailer,
          "max_id": 6, "bms": [], "pages": [3, 5], "pc": [[3, J("Z\n")], [5, J("A\n")]],
          "po": [[3, [B("Z")]], [5, [B("A")]]], "xn": NOXN, "er": [[3, []], [5, []]]}
    return [start, s1]


def synthetic_audit():
    """indirect Count, a bookmark on a deleted page, set_object above max_id then add_object - as an implementation
    without the known findings logs them"""
    objs = [[1, D(Type=N("Catalog"), Pages=R(2))], [2, D(Type=N("Pages"), Kids=A(R(3), R(4)), Count=R(5))],
            [3, D(Type=N("Page"), Parent=R(2), Contents=R(6))], [4, D(Type=N("Page"), Parent=R(2), Contents=R(7))],
            [5, I(2)], [6, S(B("A\n"))], [7, S(B("B\n"))]]
    trailer = {"Root": R(1)}

    def call(op, **kw):
        c = {"op": op, "id": 0, "x": 0, "name": "", "b": [], "o": {"k": "null"}, "nums": [], "fmt": "", "ops": []}
        c.update(kw)
        return c

    def rec(c, res, set_, del_, max_id, bms):
        return {"ev": "Call", "prog": 0, "c": c, "res": res, "set": set_, "del": del_, "trailer": trailer, "max_id": max_id,
                "bms": bms, "pages": [3], "pc": [[3, J("A\n")]], "po": [[3, [B("A")]]], "xn": NOXN, "er": [[3, []]]}

    ok = {"ok": True, "id": 0, "ids": []}
    start = {"ev": "Start", "prog": 0, "objects": objs, "trailer": trailer, "max_id": 7, "bms": [4], "pages": [3, 4],
             "pc": [[3, J("A\n")], [4, J("B\n")]], "po": [[3, [B("A")]], [4, [B("B")]]], "er": [[3, []], [4, []]],
             "content": [[3, J("A\n")], [4, J("B\n")]]}
    s1 = rec(call("DeletePages", nums=[2]), ok, [[2, D(Type=N("Pages"), Kids=A(R(3)), Count=I(1))]], [4], 7, [0])
    s2 = rec(call("Replace", id=8, o=I(1)), ok, [[8, I(1)]], [], 8, [0])
    s3 = rec(call("AddObject", o=I(5)), {"ok": True, "id": 9, "ids": []}, [[9, I(5)]], [], 9, [0])
    return [start, s1, s2, s3]


def audit_corruptions(prog):
    out = []

    def variant(name, idx, tag, edit):
        p = json.loads(json.dumps(prog))
        edit(p)
        out.append((name, idx, tag, p))

    def stale_count(p):          # the indirect Count is skipped
        p[1]["set"] = [[2, D(Type=N("Pages"), Kids=A(R(3)), Count=R(5))]]
    variant("delete_pages leaves an indirect Count", 1, "counts.indirect", stale_count)

    def stale_bookmark(p):       # the bookmark keeps the deleted page
        for r in p[1:]:
            r["bms"] = [4]
    variant("delete_pages leaves a bookmark on the deleted page", 1, "delete.bookmark", stale_bookmark)

    def cursor(p):               # set_object above max_id does not move the allocation cursor
        p[2]["max_id"] = 7
    variant("set_object above max_id leaves max_id", 2, "maxid.setObject", cursor)

    def reuse(p):                # ... and the next add_object hands the number out again
        p[2]["max_id"] = 7
        p[3]["res"]["id"] = 8
        p[3]["set"] = [[8, I(5)]]
        p[3]["max_id"] = 8
    variant("add_object reuses the number set_object stored under", 3, "fresh.aboveMax", reuse)
    return out


def synthetic_deep(levels=128):
    """the only Resources stand `levels` Parent links above the page; add_xobject keeps the inherited font"""
    mids = list(range(10, 10 + levels - 1))
    chain = [2] + mids
    objs = [[1, D(Type=N("Catalog"), Pages=R(2))],
            [2, D(Type=N("Pages"), Kids=A(R(chain[1] if mids else 5)), Count=I(1), Resources=D(Font=D(F1=R(3))))],
            [3, D(Type=N("Font"))], [4, S(B("A\n"))],
            [5, D(Type=N("Page"), Parent=R(chain[-1]), Contents=R(4))]]
    for i, m in enumerate(mids):
        kid = mids[i + 1] if i + 1 < len(mids) else 5
        objs.append([m, D(Type=N("Pages"), Parent=R(chain[i]), Kids=A(R(kid)), Count=I(1))])
    objs.sort(key=lambda o: o[0])
    trailer = {"Root": R(1)}
    mx = max(o[0] for o in objs)
    start = {"ev": "Start", "prog": 0, "objects": objs, "trailer": trailer, "max_id": mx, "bms": [], "pages": [5],
             "pc": [[5, J("A\n")]], "po": [[5, [B("A")]]], "er": [[5, [["Font", "F1"]]]], "content": [[5, J("A\n")]]}
    c = {"op": "AddXObject", "id": 5, "x": 4, "name": "X1", "b": [], "o": {"k": "null"}, "nums": [], "fmt": "", "ops": []}
    own = D(Font=D(F1=R(3)), XObject=D(X1=R(4)))
    s1 = {"ev": "Call", "prog": 0, "c": c, "res": {"ok": True, "id": 0, "ids": []},
          "set": [[5, D(Type=N("Page"), Parent=R(chain[-1]), Contents=R(4), Resources=own)]], "del": [], "trailer": trailer,
          "max_id": mx, "bms": [], "pages": [5], "pc": [[5, J("A\n")]], "po": [[5, [B("A")]]], "xn": NOXN,
          "er": [[5, [["Font", "F1"], ["XObject", "X1"]]]]}
    return [start, s1]


def deep_corruptions(prog):
    p = json.loads(json.dumps(prog))
    p[1]["set"][0][1]["v"]["Resources"] = D(XObject=D(X1=R(4)))     # an empty own dictionary hides the font
    p[1]["er"] = [[5, [["XObject", "X1"]]]]
    return [("add_xobject hides Resources 128 levels up", 1, "resources.shadow.deep", p)]


def incremental_corruptions():
    """IncrementalDocument::add_xobject (c.fmt = "inc") on a page that inherits its Resources hides the font"""
    p = synthetic_deep(levels=2)
    p[1]["c"]["fmt"] = "inc"
    ok = json.loads(json.dumps(p))
    p[1]["set"][0][1]["v"]["Resources"] = D(XObject=D(X1=R(4)))
    p[1]["er"] = [[5, [["XObject", "X1"]]]]
    return ok, [("IncrementalDocument::add_xobject hides inherited Resources", 1, "resources.shadow.incremental", p)]


def shared_corruptions(prog):
    p = json.loads(json.dumps(prog))
    p[1]["set"] = [[4, S(B("Z\n"))]]          # the shared stream is rewritten in place: page 5 changes too
    p[1]["max_id"] = 5
    p[1]["pc"] = [[3, J("Z\n")], [5, J("Z\n")]]
    p[1]["po"] = [[3, [B("Z")]], [5, [B("Z")]]]
    return [("change_page_content rewrites a stream another page shares", 1, "content.sharedStream", p)]


def insert_corruptions(prog):
    out = []

    def variant(name, idx, tag, edit):
        p = json.loads(json.dumps(prog))
        edit(p)
        out.append((name, idx, tag, p))

    def addto_drops_old(p):      # the page shows only the appended operations
        p[1]["po"][0][1] = [B("q"), B("Q")]
    variant("add_to_page_content loses the old operations", 1, "content.ops", addto_drops_old)

    def image_without_cm(p):     # q Do Q without the placement matrix
        p[2]["po"][0][1] = [t for t in p[2]["po"][0][1] if t != B("2 0 0 3 4 5 cm")]
    variant("insert_image omits cm", 2, "content.ops", image_without_cm)

    def image_wrong_matrix(p):   # size and position swapped
        p[2]["po"][0][1] = [B("4 0 0 5 2 3 cm") if t == B("2 0 0 3 4 5 cm") else t for t in p[2]["po"][0][1]]
    variant("insert_image swaps size and position", 2, "content.ops", image_wrong_matrix)

    def name_collision(p):       # the taken name X10 is used: the inherited X10 is replaced
        own = D(Font=D(F1=R(7)), XObject=D(X10=R(10)))
        p[2]["set"][0][1]["v"]["Resources"] = own
        c3 = "A\nq\nQ\nq\n2 0 0 3 4 5 cm\n/X10 Do\nQ"
        p[2]["set"][2][1]["c"] = B(c3)
        p[2]["pc"][0][1] = J(c3)
        p[2]["po"][0][1] = [B(t) for t in c3.split("\n")]
        p[2]["xn"] = {"s": "X10", "b": B("X10")}
        p[2]["er"][0][1] = [["Font", "F1"], ["XObject", "X10"]]
    variant("insert_image replaces an existing XObject name", 2, "resources.nameCollision", name_collision)

    def not_registered(p):       # the page cannot use the new object
        p[2]["set"][0][1]["v"]["Resources"] = D(Font=D(F1=R(7)), XObject=D(X10=R(5)))
        p[2]["xn"] = NOXN
        p[2]["er"][0][1] = [["Font", "F1"], ["XObject", "X10"]]
    variant("insert_image does not register the XObject", 2, "effect.InsertImage", not_registered)

    def shadow(p):               # the own Resources dictionary hides the inherited font
        p[2]["set"][0][1]["v"]["Resources"] = D(XObject=D(X10=R(5), X11=R(10)))
        p[2]["er"][0][1] = [["XObject", "X10"], ["XObject", "X11"]]
    variant("insert_image hides an inherited resource", 2, "resources.shadow", shadow)

    def form_order(p):           # Do inside q ... Q
        p[3]["po"][1][1] = [B("q"), B("B"), B("/X12 Do"), B("Q")]
    variant("insert_form_object draws inside the saved state", 3, "content.ops", form_order)

    def other_page(p):           # the other page's content stream is rewritten too
        p[3]["set"].append([11, S(B("Z\n"))])
        p[3]["pc"][0][1] = J("Z\n")
        p[3]["po"][0][1] = [B("Z")]
    variant("insert_form_object alters another page", 3, "content", other_page)

    def error_with_effect(p):    # an error is reported although the content was changed
        p[3]["res"]["ok"] = False
    variant("insert_form_object fails but changes the content", 3, "content", error_with_effect)

    def boundary(p):             # the streams are joined without white space: the decoder reads Qn
        toks = p[4]["po"][0][1]
        p[4]["po"][0][1] = toks[:-2] + [B("Qn")]
    variant("add_to_page_content merges two operators", 4, "content.streamBoundary", boundary)

    def stale_id(p):             # the stream is stored under an existing id
        p[3]["set"] = [s for s in p[3]["set"] if s[0] != 12] + [[5, p[3]["c"]["o"]]]
        p[3]["set"][1][1]["v"]["Resources"] = D(Font=D(F1=R(7)), XObject=D(X10=R(5), X12=R(5)))
        p[3]["max_id"] = 11
    variant("insert_form_object overwrites an existing object", 3, "frame", stale_id)
    return out


def corruptions(prog):
    """(name, index of the corrupted record, expected tag, trace)"""
    out = []

    def variant(name, idx, tag, edit):
        p = json.loads(json.dumps(prog))
        edit(p)
        out.append((name, idx, tag, p))

    def collide(p):   # add_object hands out an existing id and overwrites the content stream
        p[1]["res"]["id"] = 4
        p[1]["set"] = [[4, I(7)]]
        p[1]["max_id"] = 7
        p[1]["pc"] = [[3, []]]
    variant("allocated id collides", 1, "fresh", collide)

    def maxid(p):     # max_id not bumped
        p[1]["max_id"] = 7
    variant("max_id not bumped", 1, "maxid", maxid)

    def stale(p):     # only the first of two array elements removed
        p[2]["set"][0][1]["v"]["Annots"] = A(R(5))
    variant("stale reference after delete", 2, "delete.array.dup", stale)

    def frame(p):     # a deletion edits an object that never referenced the deleted one
        p[2]["set"].append([6, D(Title={"k": "str", "v": "X"})])
    variant("unrelated object altered", 2, "frame", frame)

    def content(p):   # appended content replaces the old one
        p[3]["set"][0][1]["v"]["Contents"] = A(R(9))
        p[3]["pc"] = [[3, [66, 10]]]
    variant("old content lost on append", 3, "content", content)

    def shadow(p):    # adding an XObject drops the font
        p[4]["set"][0][1]["v"]["Resources"] = D(XObject=D(X1=R(4)))
        p[4]["er"] = p[5]["er"] = [[3, [["XObject", "X1"]]]]
    variant("resource taken away", 4, "resmono", shadow)

    def prune(p):     # prune also removes the (reachable) Info dictionary
        p[5]["del"] = [6, 8]
        p[5]["res"]["ids"] = [6, 8]
    variant("prune removes a reachable object", 5, "prune", prune)

    def counts(p):    # a call that must not touch the tree changes a Count
        p[1]["set"].append([2, D(Type=N("Pages"), Kids=A(R(3)), Count=I(2))])
    variant("Count wrong", 1, "counts", counts)
    return out


def negative_controls(chk, w):
    prog = synthetic_program()
    vs = judge_records(chk, prog, "c11-neg-base", 1)
    if any(v["v"] not in ("ok", "ok-drift") for v in vs):      # (drift: the as-the-code-is model deletes differently)
        raise vlib.ToolError("the hand-made conforming program is not accepted by Trace_Editing: %s" % vs)
    prog2 = synthetic_inserts()
    vs2 = judge_records(chk, prog2, "c11-neg-base2", 1)
    if any(v["v"] not in ("ok", "ok-drift") for v in vs2):     # (drift: the as-the-code-is model picks the taken name)
        raise vlib.ToolError("the hand-made conforming insert program is not accepted by Trace_Editing: %s" % vs2)
    prog3 = synthetic_shared()
    vs3 = judge_records(chk, prog3, "c11-neg-base3", 1)
    if any(v["v"] not in ("ok", "ok-drift") for v in vs3):
        raise vlib.ToolError("the hand-made conforming shared-stream program is not accepted by Trace_Editing: %s" % vs3)
    prog4, prog5 = synthetic_audit(), synthetic_deep()
    for name, pr in (("c11-neg-base4", prog4), ("c11-neg-base5", prog5)):
        vsx = judge_records(chk, pr, name, 1)
        if any(v["v"] not in ("ok", "ok-drift") for v in vsx):
            raise vlib.ToolError("the hand-made conforming program %s is not accepted by Trace_Editing: %s" % (name, vsx))
    prog6, inc_cors = incremental_corruptions()
    vs6 = judge_records(chk, prog6, "c11-neg-base6", 1)
    if any(v["v"] not in ("ok", "ok-drift") for v in vs6):
        raise vlib.ToolError("the hand-made conforming incremental program is not accepted by Trace_Editing: %s" % vs6)
    cors = (corruptions(prog) + insert_corruptions(prog2) + shared_corruptions(prog3) + audit_corruptions(prog4)
            + deep_corruptions(prog5) + inc_cors)
    recs = []
    for _, _, _, p in cors:
        recs += p
    vs = judge_records(chk, recs, "c11-neg", 1, strict=False)
    rejected, verd = 0, {}
    k = 0
    for name, idx, tag, p in cors:
        v = vs[k + idx]
        verd[name] = v["tags"]
        if v["v"] == "violation" and tag in v["tags"]:
            rejected += 1
        k += len(p)
    chk.extra["negative_controls"] = len(cors)
    chk.extra["negative_controls_rejected"] = rejected
    chk.extra["negative_control_verdicts"] = verd
    if rejected != len(cors):
        raise vlib.ToolError("negative controls not rejected as expected: %s" % verd)


# ------------------------------------------------------------------------------------------------ run
def run(tier):
    chk = Check("C11", META["level"], tier)
    for f in glob.glob(os.path.join(vlib.REPLAYS, "C11-*.json")):
        os.remove(f)
    chk.rule = ("call sequences enumerated by TLC (MC_Editing, breadth-first to the depth bound and random simulation to "
                "depth 10) replayed into lopdf, and seeded random programs of 5-40 calls; a case is one executed call; it is "
                "non-trivial when it changed the projected document (or allocated an id / saved); distinct by (call, "
                "objects written, objects removed)")
    chk.assumptions = [
        "object generations are 0 (lopdf allocates generation 0; the projection refuses others)",
        "calls are judged while the document is sound (no reachable reference to a missing object, every content id names a "
        "stream); a step that breaks this is reported and ends the program",
        "replacing / deleting page-tree nodes (and the objects behind their indirect Kids / Count), the catalog or the objects "
        "of a page's Contents through object-level calls are caller errors outside the domain; indirect objects whose whole "
        "value is a reference are not well-formed input",
        "NoStaleRef is required of the trailer and of objects still reachable from it",
        "operation sequences are what lopdf's Content::decode reads (C14 checks the decoder); the clauses on them apply where "
        "it reads the whole old content",
        "whether compress pays off is left open (the encoding flag of a stream is free in the declarative layer)",
    ]
    quick = tier == "quick"
    w = workdir("c11")
    rnd = random.Random(vlib.seed())
    vlib.build_harness("c11")
    # (M) the design, as the code is and with the repaired defects seeded back
    cases, sim = run_models(chk, tier)
    model_vacuity(cases + sim)
    chk.exhaustive = False
    # (G) sampled behaviours replayed into lopdf
    chosen = pick_cases(cases, 260 if quick else 3000, rnd) + sim
    cin, cout = os.path.join(w, "gen.ndjson"), os.path.join(w, "gen.out.ndjson")
    write_ndjson(cin, chosen)
    run_bin("c11", ["replay", "--in", cin, "--out", cout])
    rep = read_ndjson(cout)
    finals = {r["prog"]: r for r in rep if r["ev"] == "Final"}
    rep = [r for r in rep if r["ev"] != "Final"]
    for r in rep:
        r["src"] = "replay:" + chosen[r["prog"]]["cfg"]
    if sum(1 for r in rep if r["ev"] == "Start") != len(chosen):
        raise vlib.ToolError("replay lost cases")
    # (V) recorded programs
    nprog = 90 if quick else 1500
    tr = os.path.join(w, "rec.ndjson")
    ndeep = 4 if quick else 12      # programs on documents whose Resources stand 127 / 128 / 129 / 201 levels above a page
    run_bin("c11", ["record", "--seed", vlib.seed(), "--n", nprog, "--deep", ndeep, "--out", tr])
    recs = read_ndjson(tr)
    for r in recs:
        r["src"] = "record"
    if sum(1 for r in recs if r["ev"] == "Start") != nprog + ndeep:
        raise vlib.ToolError("recorder produced too few programs")
    allrecs = rep + recs
    vs = judge_records(chk, allrecs, "c11", 6 if quick else 14)
    seen_ops = set()
    okp = triage(chk, allrecs, vs, seen_ops)
    chk.traces = okp
    chk.extra["programs"] = len(chosen) + nprog + ndeep
    chk.extra["replayed_behaviours"] = len(chosen)
    chk.extra["recorded_programs"] = nprog + ndeep
    chk.extra["recorded_calls"] = sum(1 for r in recs if r["ev"] == "Call")
    # model drift on replays: the model's verdict of each step of an as-the-code-is behaviour vs lopdf's
    drift = 0
    for i, (r, v) in enumerate(zip(rep, vs[:len(rep)])):
        # (the model world's deep tree is scaled - bound 3 instead of 128 -: lopdf does not show the defect there)
        if r["ev"] != "Call" or not chosen[r["prog"]]["asis"] or v["v"] == "ok-outside-domain" \
                or chosen[r["prog"]]["start"]["tree"] == "deepA":
            continue
        mv = sorted(t for t in r["mv"] if not is_drift(t))
        lv = sorted(t for t in v["tags"] if not is_drift(t)) if v["v"] == "violation" else []
        if mv != lv:
            drift += 1
    for k, c in enumerate(chosen):
        if c["asis"] and k in finals and c["start"]["tree"] != "deepA" and not any(st["c"]["op"] == "SaveLoad" for st in c["calls"]):
            f = finals[k]
            if norm([f["objects"], f["trailer"], f["bms"]]) != norm([c["final"]["objects"], c["final"]["trailer"], c["final"]["bms"]]):
                drift += 1
    chk.extra["model_drift_replay"] = drift
    # (B) anti-vacuity on the judged inputs
    # (a vacuity guard never masks a violation: with violations found the run is reported as such, exit 1)
    missing = [o for o in OPS if o not in seen_ops]
    if missing and not chk.violations:
        raise vlib.ToolError("vacuous: calls never judged inside the domain: %s" % missing)
    cl = input_classes(recs)
    need = {"contents:ref", "contents:array", "contents:refToArray", "contents:missing", "resources:own",
            "resources:inherited-or-none", "annots", "pages>=3", "nested-tree", "loaded", "loaded-xref-stream", "compressed-stream",
            "program>=20", "resources:shared",
            "resources:127-levels-up", "resources:128-levels-up", "resources:129-levels-up", "resources:201-levels-up",
            "inc-resource-call-on:own-resources", "inc-resource-call-on:inheriting-page",
            "count:indirect", "kids:indirect", "replace:above-max_id", "deletepages:bookmarked-page",
            "deletepages:indirect-count-above",
            "renumber:start-inside+gap", "renumber:start-above", "renumber:from-1+gap",
            "addgs-on:extgstate-ref", "addgs-on:extgstate-inline", "addgs-on:extgstate-absent",
            "deletepages:repeat", "deletepages:out-of-range", "deletepages:zero", "deletepages:unsorted", "deletepages:nested-tree",
            # the calls of parser_aux.rs: every Contents shape, shared / not decodable content, a taken name, a shared
            # Resources object, old content that ends without white space
            "insert-on:contents-ref", "insert-on:contents-array", "insert-on:contents-refToArray", "insert-on:contents-missing",
            "insert-on:shared-contents", "insert-on:undecodable", "insert-on:name-taken", "insert-on:shared-resources",
            "addto-on:contents-ref", "addto-on:contents-array", "addto-on:contents-refToArray", "addto-on:contents-missing",
            "addto-on:no-trailing-space"} | {"op:" + o for o in OPS}
    if not need <= cl and not chk.violations:
        raise vlib.ToolError("vacuous recorded set: no input of class %s" % sorted(need - cl))
    chk.extra["input_classes"] = sorted(c for c in cl if not c.startswith("op:"))
    # samples
    mid = chosen[len(chosen) // 2]
    chk.sample({"generated_behaviour": {"start": mid["start"], "as_the_code_is": mid["asis"],
                                        "calls": [{"op": st["c"]["op"], "id": st["c"]["id"], "nums": st["c"]["nums"],
                                                   "model_verdict": st["v"]} for st in mid["calls"]]}})
    j = next((i for i, r in enumerate(recs) if r["ev"] == "Start" and len(r["pages"]) >= 2), 0)
    base = len(rep)
    prog = [(r, vs[base + k]) for k, r in list(enumerate(recs))[j + 1:j + 9] if r["ev"] == "Call"]
    chk.sample({"recorded_program_prefix": [{"op": r["c"]["op"], "id": r["c"]["id"], "result": r["res"],
                                             "written": [s[0] for s in r["set"]], "removed": r["del"], "max_id": r["max_id"],
                                             "verdict": v["v"], "tags": v["tags"]} for r, v in prog],
                "start_pages": recs[j]["pages"], "start_object_ids": [o[0] for o in recs[j]["objects"]]})
    # (B) negative controls
    negative_controls(chk, w)
    return chk.finish()
