"""C11 — editing operations keep the document sound."""
import json, os, glob, hashlib, random
from concurrent.futures import ThreadPoolExecutor
import vlib
from vlib import Check, tlc, run_bin, workdir, write_ndjson, read_ndjson, log

META = {
    "property_id": "C11",
    "level": "model_checking",
    "technique": "TLA+ spec (Editing/EditingSys: abstract documents, one action per public editing call, ghost state, "
                 "declarative judge) model-checked by TLC; TLC-generated call sequences replayed into lopdf; recorded "
                 "lopdf programs validated call by call by Trace_Editing",
    "text": "The specification models a PDF document as an object graph with a page tree (catalog, Pages nodes with "
            "Kids/Count/Parent, pages whose Contents is a single reference, an array of 1 or 2, an array naming one stream "
            "twice, a reference to an array, or missing; Resources on the root, on the page, on both, inline or behind a "
            "reference; annotation arrays; an Info dictionary; a stream whose dictionary references another object) and has "
            "one action per public call (new_object_id, add_object, set_object, delete_object, remove_object, prune_objects, "
            "delete_pages, renumber_objects, compress, decompress, add_page_contents, change_page_content, "
            "change_content_stream, get_or_create_resources, add_xobject, add_graphics_state, build_outline, save, "
            "save+load) with ghost state (issued ids, the content every page must show). The declarative layer judges "
            "every step: FreshIds, Frame (nothing reachable outside the call's documented write set changes), NoStaleRef, "
            "PruneExact, CountsOk, ContentOk, ResMonotone (resources in effect by the ISO nearest-ancestor rule), MaxIdOk "
            "and the post-state the abstract model prescribes. The impl-shaped layer transcribes lopdf's algorithms with "
            "switches for the confirmed deviations; TLC explores every call sequence up to the depth bound from every "
            "starting document both as the code is (no violation since the five fix: commits) and with the repaired defects "
            "seeded back (the only violations are the five former findings). "
            "Sampled behaviours (breadth-first and random simulation to depth 10) are stepped through the real lopdf API "
            "and seeded random programs of 5-40 calls on generated documents and on documents loaded from bytes saved by "
            "lopdf are recorded; Trace_Editing binds every logged call to its action, checks effect and invariants on the "
            "logged post-state, names the violated clause and re-synchronises.",
    "note": "Trusted: TLC, the projection in harness/src/bin/c11.rs (streams are inflated with flate2, not with lopdf), "
            "Editing!Judge as the reading of the statement. Readings: 'no reference left behind' is required of the "
            "trailer and of objects still reachable from it; 'no operation other than an explicit deletion alters an "
            "object' is read with each call's documented write set; calls are judged only while the document is sound "
            "(no reachable dangling reference), a step that breaks this is reported once. Caller errors are outside the "
            "domain: set_object above max_id, replacing or deleting page-tree nodes through the object-level calls, "
            "content streams shared between pages. Renumbering is summarised (C10 checks the renaming itself); the byte "
            "level of save/load belongs to C01-C03 (a load that changes objects is counted as drift here). Exhaustive only "
            "within the model bounds; beyond that sampled.",
    "bins": ["c11"],
    "modules": ["MC_Editing.tla", "Trace_Editing.tla"],
    "design_ref": "DESIGN.md section 4 C11",
}

OPS = ["NewObjectId", "AddObject", "Replace", "DeleteObject", "RemoveAnnot", "Prune", "DeletePages", "Renumber",
       "Compress", "Decompress", "AddPageContents", "ChangePageContent", "ChangeContentStream",
       "GetOrCreateResources", "AddXObject", "AddGraphicsState", "BuildOutline", "Save", "SaveLoad"]
# violation tags the model produces "as the code is" (the Allowed constant of the cfgs): none since the five fix: commits
MODEL_FINDINGS = []
# ... and with the repaired defects seeded back (Editing!DevSeeded / FormerFindings): the negative control of the Judge
FORMER_FINDINGS = ["delete.array.dup", "delete.streamdict", "delete.trailer", "resources.shadow", "contents.refToArray"]
DRIFT = ("drift.",)


def is_drift(t):
    return t.startswith(DRIFT)


# ------------------------------------------------------------------------------------------------ (M)
def model_runs(tier):
    if tier == "quick":
        return [("MC_Editing_quick_all.cfg", 4), ("MC_Editing_quick_content.cfg", 3), ("MC_Editing_quick_res.cfg", 3),
                ("MC_Editing_quick_obj.cfg", 4)]
    return [("MC_Editing_thorough_all.cfg", 6), ("MC_Editing_thorough_content.cfg", 3), ("MC_Editing_thorough_content2.cfg", 2),
            ("MC_Editing_thorough_res.cfg", 3), ("MC_Editing_thorough_obj.cfg", 4), ("MC_Editing_thorough_starts.cfg", 4)]


def run_models(chk, tier):
    """every cfg explores both `as the code is` and `with the repaired defects seeded back`; the invariant Refines fails
    (ToolError) if the design as the code is violates a clause outside the listed findings (there are none), or the
    seeded design one outside the five former findings"""
    runs = model_runs(tier)

    def one(x):
        cfg, w = x
        return tlc("MC_Editing.tla", cfg, workers=w, env={"C11_PICK": vlib.seed()}, timeout=3400,
                   xmx="3g" if tier == "quick" else "6g", name=os.path.splitext(cfg)[0])

    with ThreadPoolExecutor(max_workers=len(runs)) as ex:
        results = list(ex.map(one, runs))
    cases = []
    for (cfg, _), r in zip(runs, results):
        chk.add_tlc(r)
        cs = r.tagged("REPLAY")
        for c in cs:
            c["cfg"] = cfg
        if not cs:
            raise vlib.ToolError("generator produced no behaviours for " + cfg)
        cases += cs
        chk.extra.setdefault("model_runs", {})[cfg] = {"states": r.distinct, "transitions": r.generated, "depth": r.depth,
                                                        "behaviours_printed": len(cs)}
    # random simulation to depth 10 (two TLC steps per call + Finish)
    nsim = 30 if tier == "quick" else 400
    r = tlc("MC_Editing.tla", "MC_Editing_sim.cfg", workers=4, simulate=nsim, depth=24, env={"C11_PICK": 0},
            timeout=1800, name="MC_Editing_sim")
    sim = r.tagged("REPLAY")
    for c in sim:
        c["cfg"] = "sim"
    if len(sim) < nsim:
        raise vlib.ToolError("simulation printed %d behaviours" % len(sim))
    chk.extra["model_runs"]["MC_Editing_sim.cfg"] = {"behaviours_printed": len(sim), "states": r.generated}
    chk.transitions += r.generated
    return cases, sim


def model_vacuity(cases):
    """(B) every action was taken, both variants were explored, exactly the listed findings (none) are reached as the
    code is and exactly the five former findings with the repaired defects seeded back (computed from the printed
    behaviours; -coverage is unusably slow here)"""
    ops, asis_tags, rep_tags = set(), set(), set()
    for c in cases:
        for st in c["calls"]:
            ops.add(st["c"]["op"])
            for t in st["v"]:
                if not is_drift(t):
                    (asis_tags if c["asis"] else rep_tags).add(t)
    missing = [o for o in OPS if o not in ops]
    if missing:
        raise vlib.ToolError("vacuous model run: actions never taken in a printed behaviour: %s" % missing)
    if rep_tags != set(FORMER_FINDINGS):
        raise vlib.ToolError("model with the repaired defects seeded back reaches %s, expected exactly %s" % (sorted(rep_tags), FORMER_FINDINGS))
    if asis_tags != set(MODEL_FINDINGS):
        raise vlib.ToolError("as-the-code-is model reaches %s, expected exactly %s" % (sorted(asis_tags), MODEL_FINDINGS))
    if not any(not c["asis"] for c in cases) or not any(c["asis"] for c in cases):
        raise vlib.ToolError("vacuous: no as-the-code-is / no seeded behaviour printed")


def norm(x):
    """TLC prints the empty function as []: the empty dictionary of the harness is {}"""
    if isinstance(x, dict):
        y = {k: norm(v) for k, v in x.items()}
        if y.get("k") == "dict" and y["v"] == []:
            y["v"] = {}
        if y.get("k") == "stream" and y["d"] == []:
            y["d"] = {}
        return y
    if isinstance(x, list):
        return [norm(v) for v in x]
    return x


def pick_cases(cases, cap, rnd):
    """bound the number of replayed behaviours: per (cfg, variant, last verdict, last op) bucket keep a seeded sample"""
    buckets = {}
    for c in cases:
        last = c["calls"][-1] if c["calls"] else {"v": [], "c": {"op": "-"}}
        key = (c["cfg"], c["asis"], tuple(sorted(last["v"])), last["c"]["op"])
        buckets.setdefault(key, []).append(c)
    keys = sorted(buckets, key=lambda k: json.dumps(k))
    per = max(1, cap // max(1, len(keys)))
    out = []
    for k in keys:
        b = buckets[k]
        rnd.shuffle(b)
        out += b[:per]
    return out


# ------------------------------------------------------------------------------------------------ (G) (V)
def judge_records(chk, recs, name, chunks, strict=True):
    """Trace_Editing over recs; returns verdict dicts in record order"""
    bounds = [i for i, r in enumerate(recs) if r["ev"] == "Start"]
    vs, st, tr = vlib.validate_trace("Trace_Editing.tla", "Trace_Editing.cfg", recs, name, boundaries=bounds,
                                     chunks=chunks, timeout=3000)
    chk.states += st
    chk.transitions += tr
    if len(vs) != len(recs) or [v["i"] for v in vs] != list(range(len(recs))):
        raise vlib.ToolError("trace validator judged %d of %d records" % (len(vs), len(recs)))
    bad = [v for v in vs if v["v"] == "spec-inconsistent"]
    if bad and strict:
        raise vlib.ToolError("spec and driver read the logged objects differently at record %d (%s)" % (bad[0]["i"], bad[0]["tags"]))
    return vs


def program_detail(recs, i, v):
    """the program up to record i, replayable by hand: starting document + calls"""
    j = i
    while recs[j]["ev"] != "Start":
        j -= 1
    s = recs[j]
    calls = [{"c": r["c"], "res": r.get("res")} for r in recs[j + 1:i + 1] if r["ev"] in ("Call", "Panic")]
    r = recs[i]
    d = {"verdict": v["v"], "tags": v["tags"], "source": r.get("src"), "program": r.get("prog"),
         "start": {"objects": s["objects"], "trailer": s["trailer"], "max_id": s["max_id"], "bms": s["bms"]},
         "calls": calls[-12:], "calls_before_shown": max(0, len(calls) - 12)}
    if r["ev"] == "Call":
        d["failing_call"] = r["c"]
        d["result"] = r["res"]
        d["objects_written"] = r["set"]
        d["objects_removed"] = r["del"]
        d["page_content_after"] = r["pc"]
    if r["ev"] == "Panic":
        d["panic"] = r["msg"]
    return d


def shape_of(objs, page):
    c = objs[page]["v"].get("Contents")
    if c is None:
        return "missing"
    if c["k"] == "arr":
        return "array"
    if c["k"] == "ref":
        return "refToArray" if objs.get(c["n"], {}).get("k") == "arr" else "ref"
    return "other"


def input_classes(recs):
    """classes of the judged INPUTS (anti-vacuity bookkeeping, independent of verdicts)"""
    cl = set()
    n = 0
    for i, r in enumerate(recs):
        if r["ev"] == "Start":
            objs = {o[0]: o[1] for o in r["objects"]}
            for p in r["pages"]:
                if objs.get(p, {}).get("k") == "dict":
                    cl.add("contents:" + shape_of(objs, p))
                    cl.add("resources:own" if "Resources" in objs[p]["v"] else "resources:inherited-or-none")
                    if "Annots" in objs[p]["v"]:
                        cl.add("annots")
            if len(r["pages"]) >= 3:
                cl.add("pages>=3")
            if any(o[1].get("k") == "dict" and o[1]["v"].get("Type", {}).get("v") == "Pages" and "Parent" in o[1]["v"]
                   for o in r["objects"]):
                cl.add("nested-tree")
            if any(o[1].get("k") == "stream" and o[1]["d"].get("Type", {}).get("v") == "XRef" for o in r["objects"]):
                cl.add("loaded-xref-stream")
            if r.get("loaded"):
                cl.add("loaded")
            if any(o[1].get("k") == "stream" and o[1]["z"] for o in r["objects"]):
                cl.add("compressed-stream")
            n = 0
        elif r["ev"] == "Call":
            n += 1
            cl.add("op:" + r["c"]["op"])
            if n >= 20:
                cl.add("program>=20")
    return cl


def triage(chk, recs, vs, seen_ops):
    ok_programs = 0
    cur_ok = True
    for i, (r, v) in enumerate(zip(recs, vs)):
        if r["ev"] == "Start":
            if i > 0 and cur_ok:
                ok_programs += 1
            cur_ok = True
        tags = [t for t in v["tags"] if not is_drift(t)]
        drift = [t for t in v["tags"] if is_drift(t)]
        if r["ev"] == "Call":
            key = hashlib.sha1(json.dumps([r["c"], r["set"], r["del"]], sort_keys=True).encode()).hexdigest()
            chk.case(key if (r["set"] or r["del"] or r["c"]["op"] in ("NewObjectId", "Save")) else None)
            if v["v"] != "ok-outside-domain":
                seen_ops.add(r["c"]["op"])
            else:
                chk.extra["outside_domain_steps"] = chk.extra.get("outside_domain_steps", 0) + 1
        else:
            chk.case(None)
        if drift and r["ev"] == "Call" and r["c"]["op"] != "SaveLoad":
            chk.extra["model_drift"] = chk.extra.get("model_drift", 0) + 1
        if v["v"] == "violation":
            cur_ok = False
            pre = "C11:start." if r["ev"] == "Start" else "C11:"
            for t in tags:
                chk.violation(pre + t, program_detail(recs, i, v))
        elif v["v"] == "panic":
            cur_ok = False
            chk.violation("C11:" + v["tags"][0], program_detail(recs, i, v))
    if recs and cur_ok:
        ok_programs += 1
    return ok_programs


# ------------------------------------------------------------------------------------------------ (B) negative controls
def R(n):
    return {"k": "ref", "n": n}


def N(s):
    return {"k": "name", "v": s}


def I(i):
    return {"k": "int", "v": i}


def D(**kw):
    return {"k": "dict", "v": kw}


def A(*xs):
    return {"k": "arr", "v": list(xs)}


def S(c, **d):
    return {"k": "stream", "d": d, "c": list(c), "z": False}


def synthetic_program():
    """a hand-made conforming program (what a correct implementation logs), independent of the tree under test"""
    page = D(Type=N("Page"), Parent=R(2), Contents=R(4), Annots=A(R(5), R(5)), Resources=D(Font=D(F1=R(7))))
    objs = [[1, D(Type=N("Catalog"), Pages=R(2))], [2, D(Type=N("Pages"), Kids=A(R(3)), Count=I(1))], [3, page],
            [4, S([65])], [5, D(Type=N("Annot"))], [6, D(Title={"k": "str", "v": "T"})], [7, D(Type=N("Font"))]]
    trailer = {"Root": R(1), "Info": R(6)}
    er = [[3, [["Font", "F1"]]]]

    def call(op, **kw):
        c = {"op": op, "id": 0, "x": 0, "name": "", "b": [], "o": {"k": "null"}, "nums": [], "fmt": ""}
        c.update(kw)
        return c

    def rec(c, res, set_, del_, max_id, pc, er_=er, tr=trailer):
        return {"ev": "Call", "prog": 0, "c": c, "res": res, "set": set_, "del": del_, "trailer": tr, "max_id": max_id,
                "bms": [], "pages": [3], "pc": pc, "er": er_}

    ok = {"ok": True, "id": 0, "ids": []}
    start = {"ev": "Start", "prog": 0, "objects": objs, "trailer": trailer, "max_id": 7, "bms": [], "pages": [3],
             "pc": [[3, [65]]], "er": er, "content": [[3, [65]]]}
    page2 = D(Type=N("Page"), Parent=R(2), Contents=R(4), Annots=A(), Resources=D(Font=D(F1=R(7))))
    page3 = D(Type=N("Page"), Parent=R(2), Contents=A(R(4), R(9)), Annots=A(), Resources=D(Font=D(F1=R(7))))
    page4 = D(Type=N("Page"), Parent=R(2), Contents=A(R(4), R(9)), Annots=A(),
              Resources=D(Font=D(F1=R(7)), XObject=D(X1=R(4))))
    prog = [
        start,
        rec(call("AddObject", o=I(7)), {"ok": True, "id": 8, "ids": []}, [[8, I(7)]], [], 8, [[3, [65]]]),
        rec(call("DeleteObject", id=5), ok, [[3, page2]], [5], 8, [[3, [65]]]),
        rec(call("AddPageContents", id=3, b=[66]), ok, [[3, page3], [9, S([66])]], [], 9, [[3, [65, 66]]]),
        rec(call("AddXObject", id=3, name="X1", x=4), ok, [[3, page4]], [], 9, [[3, [65, 66]]],
            er_=[[3, [["Font", "F1"], ["XObject", "X1"]]]]),
        rec(call("Prune"), {"ok": True, "id": 0, "ids": [8]}, [], [8], 9, [[3, [65, 66]]],
            er_=[[3, [["Font", "F1"], ["XObject", "X1"]]]]),
    ]
    return prog


def corruptions(prog):
    """(name, index of the corrupted record, expected tag, trace)"""
    out = []

    def variant(name, idx, tag, edit):
        p = json.loads(json.dumps(prog))
        edit(p)
        out.append((name, idx, tag, p))

    def collide(p):   # add_object hands out an existing id and overwrites the content stream
        p[1]["res"]["id"] = 4
        p[1]["set"] = [[4, I(7)]]
        p[1]["max_id"] = 7
        p[1]["pc"] = [[3, []]]
    variant("allocated id collides", 1, "fresh", collide)

    def maxid(p):     # max_id not bumped
        p[1]["max_id"] = 7
    variant("max_id not bumped", 1, "maxid", maxid)

    def stale(p):     # only the first of two array elements removed
        p[2]["set"][0][1]["v"]["Annots"] = A(R(5))
    variant("stale reference after delete", 2, "delete.array.dup", stale)

    def frame(p):     # a deletion edits an object that never referenced the deleted one
        p[2]["set"].append([6, D(Title={"k": "str", "v": "X"})])
    variant("unrelated object altered", 2, "frame", frame)

    def content(p):   # appended content replaces the old one
        p[3]["set"][0][1]["v"]["Contents"] = A(R(9))
        p[3]["pc"] = [[3, [66]]]
    variant("old content lost on append", 3, "content", content)

    def shadow(p):    # adding an XObject drops the font
        p[4]["set"][0][1]["v"]["Resources"] = D(XObject=D(X1=R(4)))
        p[4]["er"] = p[5]["er"] = [[3, [["XObject", "X1"]]]]
    variant("resource taken away", 4, "resmono", shadow)

    def prune(p):     # prune also removes the (reachable) Info dictionary
        p[5]["del"] = [6, 8]
        p[5]["res"]["ids"] = [6, 8]
    variant("prune removes a reachable object", 5, "prune", prune)

    def counts(p):    # a call that must not touch the tree changes a Count
        p[1]["set"].append([2, D(Type=N("Pages"), Kids=A(R(3)), Count=I(2))])
    variant("Count wrong", 1, "counts", counts)
    return out


def negative_controls(chk, w):
    prog = synthetic_program()
    vs = judge_records(chk, prog, "c11-neg-base", 1)
    if any(v["v"] not in ("ok", "ok-drift") for v in vs):      # (drift: the as-the-code-is model deletes differently)
        raise vlib.ToolError("the hand-made conforming program is not accepted by Trace_Editing: %s" % vs)
    cors = corruptions(prog)
    recs = []
    for _, _, _, p in cors:
        recs += p
    vs = judge_records(chk, recs, "c11-neg", 1, strict=False)
    rejected, verd = 0, {}
    k = 0
    for name, idx, tag, p in cors:
        v = vs[k + idx]
        verd[name] = v["tags"]
        if v["v"] == "violation" and tag in v["tags"]:
            rejected += 1
        k += len(p)
    chk.extra["negative_controls"] = len(cors)
    chk.extra["negative_controls_rejected"] = rejected
    chk.extra["negative_control_verdicts"] = verd
    if rejected != len(cors):
        raise vlib.ToolError("negative controls not rejected as expected: %s" % verd)


# ------------------------------------------------------------------------------------------------ run
def run(tier):
    chk = Check("C11", META["level"], tier)
    for f in glob.glob(os.path.join(vlib.REPLAYS, "C11-*.json")):
        os.remove(f)
    chk.rule = ("call sequences enumerated by TLC (MC_Editing, breadth-first to the depth bound and random simulation to "
                "depth 10) replayed into lopdf, and seeded random programs of 5-40 calls; a case is one executed call; it is "
                "non-trivial when it changed the projected document (or allocated an id / saved); distinct by (call, "
                "objects written, objects removed)")
    chk.assumptions = [
        "object generations are 0 (lopdf allocates generation 0; the projection refuses others)",
        "calls are judged while the document is sound (no reachable reference to a missing object, every content id names a "
        "stream); a step that breaks this is reported and ends the program",
        "set_object above max_id, replacing / deleting page-tree nodes or the catalog through object-level calls and content "
        "streams shared between pages are caller errors outside the domain",
        "NoStaleRef is required of the trailer and of objects still reachable from it",
        "stream contents are either shorter than 32 bytes or runs of >= 64 equal bytes (flate pays off exactly on the latter)",
    ]
    quick = tier == "quick"
    w = workdir("c11")
    rnd = random.Random(vlib.seed())
    vlib.build_harness("c11")
    # (M) the design, as the code is and with the repaired defects seeded back
    cases, sim = run_models(chk, tier)
    model_vacuity(cases + sim)
    chk.exhaustive = False
    # (G) sampled behaviours replayed into lopdf
    chosen = pick_cases(cases, 260 if quick else 3000, rnd) + sim
    cin, cout = os.path.join(w, "gen.ndjson"), os.path.join(w, "gen.out.ndjson")
    write_ndjson(cin, chosen)
    run_bin("c11", ["replay", "--in", cin, "--out", cout])
    rep = read_ndjson(cout)
    finals = {r["prog"]: r for r in rep if r["ev"] == "Final"}
    rep = [r for r in rep if r["ev"] != "Final"]
    for r in rep:
        r["src"] = "replay:" + chosen[r["prog"]]["cfg"]
    if sum(1 for r in rep if r["ev"] == "Start") != len(chosen):
        raise vlib.ToolError("replay lost cases")
    # (V) recorded programs
    nprog = 60 if quick else 1500
    tr = os.path.join(w, "rec.ndjson")
    run_bin("c11", ["record", "--seed", vlib.seed(), "--n", nprog, "--out", tr])
    recs = read_ndjson(tr)
    for r in recs:
        r["src"] = "record"
    if sum(1 for r in recs if r["ev"] == "Start") != nprog:
        raise vlib.ToolError("recorder produced too few programs")
    allrecs = rep + recs
    vs = judge_records(chk, allrecs, "c11", 6 if quick else 14)
    seen_ops = set()
    okp = triage(chk, allrecs, vs, seen_ops)
    chk.traces = okp
    chk.extra["programs"] = len(chosen) + nprog
    chk.extra["replayed_behaviours"] = len(chosen)
    chk.extra["recorded_programs"] = nprog
    chk.extra["recorded_calls"] = sum(1 for r in recs if r["ev"] == "Call")
    # model drift on replays: the model's verdict of each step of an as-the-code-is behaviour vs lopdf's
    drift = 0
    for i, (r, v) in enumerate(zip(rep, vs[:len(rep)])):
        if r["ev"] != "Call" or not chosen[r["prog"]]["asis"] or v["v"] == "ok-outside-domain":
            continue
        mv = sorted(t for t in r["mv"] if not is_drift(t))
        lv = sorted(t for t in v["tags"] if not is_drift(t)) if v["v"] == "violation" else []
        if mv != lv:
            drift += 1
    for k, c in enumerate(chosen):
        if c["asis"] and k in finals and not any(st["c"]["op"] == "SaveLoad" for st in c["calls"]):
            f = finals[k]
            if norm([f["objects"], f["trailer"], f["bms"]]) != norm([c["final"]["objects"], c["final"]["trailer"], c["final"]["bms"]]):
                drift += 1
    chk.extra["model_drift_replay"] = drift
    # (B) anti-vacuity on the judged inputs
    # (a vacuity guard never masks a violation: with violations found the run is reported as such, exit 1)
    missing = [o for o in OPS if o not in seen_ops]
    if missing and not chk.violations:
        raise vlib.ToolError("vacuous: calls never judged inside the domain: %s" % missing)
    cl = input_classes(recs)
    need = {"contents:ref", "contents:array", "contents:refToArray", "contents:missing", "resources:own",
            "resources:inherited-or-none", "annots", "pages>=3", "nested-tree", "loaded", "loaded-xref-stream", "compressed-stream",
            "program>=20"} | {"op:" + o for o in OPS}
    if not need <= cl and not chk.violations:
        raise vlib.ToolError("vacuous recorded set: no input of class %s" % sorted(need - cl))
    chk.extra["input_classes"] = sorted(c for c in cl if not c.startswith("op:"))
    # samples
    mid = chosen[len(chosen) // 2]
    chk.sample({"generated_behaviour": {"start": mid["start"], "as_the_code_is": mid["asis"],
                                        "calls": [{"op": st["c"]["op"], "id": st["c"]["id"], "nums": st["c"]["nums"],
                                                   "model_verdict": st["v"]} for st in mid["calls"]]}})
    j = next((i for i, r in enumerate(recs) if r["ev"] == "Start" and len(r["pages"]) >= 2), 0)
    base = len(rep)
    prog = [(r, vs[base + k]) for k, r in list(enumerate(recs))[j + 1:j + 9] if r["ev"] == "Call"]
    chk.sample({"recorded_program_prefix": [{"op": r["c"]["op"], "id": r["c"]["id"], "result": r["res"],
                                             "written": [s[0] for s in r["set"]], "removed": r["del"], "max_id": r["max_id"],
                                             "verdict": v["v"], "tags": v["tags"]} for r, v in prog],
                "start_pages": recs[j]["pages"], "start_object_ids": [o[0] for o in recs[j]["objects"]]})
    # (B) negative controls
    negative_controls(chk, w)
    return chk.finish()
