"""C14 — content streams survive encode and decode."""
import glob, json, os, collections
from concurrent.futures import ThreadPoolExecutor
import vlib
from vlib import Check, tlc, run_bin, workdir, write_ndjson, read_ndjson, log

META = {
    "property_id": "C14",
    "level": "model_checking",
    "technique": "TLA+ content-stream grammar on the shared byte-level StrictReader (Syntax/Content, inline images with computed data "
                 "length) model-checked by TLC against the TLA+ Producer; TLC-generated content replayed into lopdf::content::Content::decode; "
                 "recorded Content::encode / decode calls judged by TLC (Trace_Content)",
    "text": "The specification reads a content stream with the same byte-at-a-time automaton that reads PDF files, in content mode: operands "
            "are grouped under the following operator, an inline image BI..ID..EI is one operation whose data length is computed from "
            "W/H/BPC/CS (full and abbreviated names, ISO 32000-1 8.9.7). TLC proves on test universes (every operand kind next to every "
            "operator incl. operators that are keyword prefixes or end in a quote, star or digit; all strings and names over a 21-byte "
            "critical alphabet up to length 2; sequences of 2-3 operations; inline images of six colour-space names x BPC 1/2/4/8 x "
            "geometries with data containing EI, white-space and delimiters) that whatever the spec's Producer spells, with every lexical "
            "freedom, the StrictReader reads back (RoundTrip). lopdf then (a) encodes seeded random operation lists over all direct object "
            "kinds, fixed hostile cases and the byte-pair sweep inside Tj strings and name operands, and decodes its own bytes: TLC checks "
            "that the strict reading of lopdf's bytes and lopdf's decoding both equal the operations (reals through the exact rounding "
            "interval of the f32, an integral real may return as an integer); (b) decodes content spelled by the Producer and inline "
            "images, re-encodes and decodes again: the second decoding must equal the first.",
    "note": "Trusted: TLC, the transcription of ISO 32000-1 7.2-7.3, 7.8.2, 8.9.7 in Syntax.tla/Content.tla (checked against the "
            "Producer by TLC), the harness projection (wire.rs) incl. its exact-decimal f32 intervals. Domain (Content!Domain): every non-empty operator string over letters, "
            "'*', ''', '\"'; operands are direct objects without references (also nested). Core: encode must succeed and decode(encode(x)) = x. "
            "Refusable (encode may return an error, but must not write bytes that decode differently): the words null/true/false, BI "
            "without its image, ID, EI as operators; reals that are not finite; nesting above 32 levels. Nesting at both limits (arrays or "
            "dictionaries around a literal string with nested parentheses) is decoded on a 2 MiB thread of a supervised worker, in the "
            "optimised and in the unoptimised (dev, opt-level 0) build. Inline images unfiltered with colour space DeviceGray/RGB/CMYK or G/RGB/CMYK, BPC 1,2,4,8, with or without the "
            "optional entries ImageMask false, Interpolate, Decode (abbreviated or full keys, any order). Stencil masks (ImageMask true) "
            "have no colour space: they are read by the spec (one bit per sample) and tried, but what lopdf does with them is a note. "
            "Deviations of lopdf's *decoder* on content it did not write (FF/NUL as white-space, raw CR in literal strings, operators "
            "with digits) are outside the statement and reported as notes, not violations. Random inputs are sampled from VERIF_SEED; "
            "the byte-pair sweep is exhaustive in the thorough tier.",
    "bins": ["c14"],
    "modules": ["MC_Content.tla", "Gen_Content.tla", "Trace_Content.tla", "MC_ContentHist.tla"],
    "design_ref": "DESIGN.md section 4 C14",
}

PRODUCER_ACTIONS = ["A_EmitTok", "A_EmitRaw", "A_XNull", "A_XBool", "A_XInt", "A_XReal", "A_XName", "A_XLit", "A_XHex", "A_XArr",
                    "A_XDict", "Finish"]
OP_ALPHABET = set(b"abcdefghijklmnopqrstuvwxyzABCDEFGHIJKLMNOPQRSTUVWXYZ*'\"")
WS4 = (9, 10, 13, 32)


# ------------------------------------------------------------------ domain and classification (computed from the case)
def walk(o):
    yield o
    k = o.get("k")
    if k == "arr":
        for x in o["v"]:
            yield from walk(x)
    elif k in ("dict", "stream"):
        for p in o["v"]:
            yield from walk(p[1])


def operator_in_domain(opb):
    """the operator alphabet the statement names (Content!IsOperatorString)"""
    s = bytes(opb)
    return len(s) > 0 and all(b in OP_ALPHABET for b in s)


def is_inline_op(op):
    return bytes(op["op"]) == b"BI" and len(op["args"]) == 1 and op["args"][0].get("k") == "stream"


OPT_KEYS = {b"IM": "IM", b"ImageMask": "IM", b"I": "I", b"Interpolate": "I", b"D": "D", b"Decode": "D"}


def is_mask_op(op):
    """an inline image with ImageMask true (a stencil mask: no colour space, outside the quantifier)"""
    if not is_inline_op(op):
        return False
    return any(bytes(p[0]) in (b"IM", b"ImageMask") and p[1].get("k") == "bool" and p[1].get("v") is True for p in op["args"][0]["v"])


def name_needs_escape(b):
    """a name that cannot be written raw: white-space, delimiter, '#', or a byte outside 33..126 (7.3.5)"""
    return len(b) == 0 or any(c in b" \t\r\n\x00\x0c()<>[]{}/%#" or not (33 <= c <= 126) for c in b)


def inline_key_classes(ops):
    """which classes of dictionary keys the inline images of an operation list carry (computed from the case)"""
    out = set()
    for op in ops:
        if is_inline_op(op):
            for p in op["args"][0]["v"]:
                k = bytes(p[0])
                if k != b"Length" and name_needs_escape(k):
                    out.add("hostile-key")
                if p[1].get("k") == "name" and name_needs_escape(bytes(p[1]["v"])):
                    out.add("hostile-name-value")
    return sorted(out)


def ops_in_domain(ops):
    """clause 1 of the property: operators of the documented alphabet, operands direct objects"""
    for op in ops:
        if not operator_in_domain(op["op"]):
            return False
        for a in op["args"]:
            for o in walk(a):
                if o.get("k") in ("ref", "stream") or o.get("nonfinite"):
                    return False
    return True


KEYWORDS3 = (b"null", b"true", b"false")


def edge_signature(enc_rec, enc_v, dec, dec_v):
    """Signature of a failed decode(encode(x)) = x at an edge of the domain (Content!Domain names the edge), computed from
    the failing case; None when no edge class explains it (the generic round-trip signature is used then)."""
    ops = enc_rec["ops"]
    why = set(enc_v.get("dom", {}).get("why", []))
    rd = dec_v["rd"]
    crashed = dec is not None and str(dec["res"]).startswith(("crash", "hang"))
    if crashed:
        # the process died inside Content::decode: which build and stack are part of the signature
        parts = enc_rec["cls"].split(".")
        return "C14:nesting.stack-overflow.%s-2MiB" % (parts[1] if parts[0] == "deep" and len(parts) > 1 else "unknown")
    if "nonfinite-real" in why:
        return "C14:real.nonfinite.written"
    if "nesting-above-core" in why and rd["v"] in ("rt-decode-failed", "op-count"):
        return "C14:nesting.encode-beyond-decode-limit"
    names = [bytes(o["op"]) for o in ops]
    if "unwritable-operator" in why:
        bad = sorted({n.decode() for o, n in zip(ops, names)
                      if n in KEYWORDS3 + (b"ID", b"EI") or (n == b"BI" and not is_inline_op(o))})
        return "C14:operator.unwritable-written[" + "+".join(bad) + "]"
    # core domain: operators that begin like a keyword of the operand grammar
    i = rd.get("i")
    at = [names[i - 1]] if i and 1 <= i <= len(names) and rd["v"] in ("operator", "operand-count", "operand") else names
    if any(n.startswith(k) and len(n) > len(k) for n in at for k in KEYWORDS3):
        if rd["v"] != "operator" or any(bytes(rd["want"]).startswith(k) and bytes(rd["got"]) == bytes(rd["want"])[len(k):] for k in KEYWORDS3):
            return "C14:operator.keyword-prefix"
    if any(n.startswith(b"BI") and len(n) > 2 for n in names) and rd["v"] == "rt-decode-failed":
        return "C14:operator.BI-prefix"
    return None


def rt_signature(enc_rec, enc_v, dec_v):
    """narrow signature of decode(encode(ops)) != ops for in-domain ops"""
    ops = enc_rec["ops"]
    rd = dec_v["rd"]
    side = "decode" if enc_v["v"] == "ok" else "encode"
    what = rd["v"]
    if what == "operand":
        what += "." + str(rd.get("want"))
    return "C14:roundtrip.%s.%s" % (side, what)


# ------------------------------------------------------------------ TLC helpers
def mc(cfg, tier):
    return tlc("MC_Content.tla", cfg, workers=4 if tier == "quick" else 8, timeout=3000, xmx="4g", name="c14-" + cfg[:-4])


def simulate(module, cfg, num, name, env=None):
    r = tlc(module, cfg, workers=1, simulate=num, depth=4000, env=env, timeout=1800, xmx="3g", name=name)
    return r, r.tagged("REPLAY")


def build_debug_worker():
    """The same harness binary in the unoptimised dev profile (what `cargo build` / `cargo test` give the library's users):
    frames are an order of magnitude larger there, so nesting limits dimensioned for it are only testable there.
    Cargo.toml sets opt-level 1 for dev; the environment override makes it 0.  Same crate dir (shadow dir under
    VERIF_REPO) and target dir as the release build, profile `debug`."""
    import subprocess, time
    cdir = vlib._crate_dir("harness")
    t0 = time.time()
    env = dict(os.environ, CARGO_NET_OFFLINE="true", CARGO_PROFILE_DEV_OPT_LEVEL="0")
    p = subprocess.run(["cargo", "build", "--offline", "--bin", "c14"], cwd=cdir, env=env, stdout=subprocess.PIPE,
                       stderr=subprocess.STDOUT, text=True)
    if p.returncode != 0:
        log(p.stdout[-4000:])
        raise vlib.ToolError("cargo build (dev profile) failed for the c14 worker")
    log("[build] harness c14 dev profile, opt-level 0: %.1fs (repo=%s)" % (time.time() - t0, vlib.REPO))
    return os.path.join(cdir, "target", "debug", "c14")


def judge(recs, name, chunks, boundaries):
    vs, st, tr = vlib.validate_trace("Trace_Content.tla", "Trace_Content.cfg", recs, name, boundaries=boundaries, chunks=chunks)
    if len(vs) != len(recs):
        raise vlib.ToolError("trace validator judged %d of %d events (%s)" % (len(vs), len(recs), name))
    return vs, st, tr


def case_starts(recs):
    """indices where an independent case starts: a Given, or an Encode that does not follow a Decode of a Given-chain"""
    out, prev_case = [], None
    for i, r in enumerate(recs):
        key = (r.get("cls"), r.get("case"))
        if key != prev_case:
            out.append(i)
            prev_case = key
    return out


# ------------------------------------------------------------------ evaluation of judged traces
class Eval:
    def __init__(self, chk):
        self.chk = chk
        self.notes = collections.Counter()
        self.note_samples = {}
        self.kinds_seen = collections.Counter()
        self.classes = collections.Counter()
        self.inline_combos = set()
        self.opt_keys_tried = collections.Counter()
        self.masks_tried = 0
        self.first_keys = set()
        self.inline_key_classes = collections.Counter()
        self.domain_classes = collections.Counter()
        self.via_classes = collections.Counter()
        self.edge_classes = collections.Counter()
        self.refused = collections.Counter()
        self.history = collections.Counter()

    def note(self, key, sample):
        self.notes[key] += 1
        self.note_samples.setdefault(key, sample)

    def roundtrip(self, enc, enc_v, dec, dec_v, origin):
        """Encode{ops} -> Decode: the property's first clause (or, for inline images, the second)"""
        chk = self.chk
        ops = enc["ops"]
        inline = any(is_inline_op(o) for o in ops)
        cls = enc["cls"]
        probe = cls.startswith("probe.")
        if any(is_mask_op(o) for o in ops):
            # stencil masks have no colour space: outside "every supported colour space", observations only
            probe, cls = True, "inline.mask"
        dom = enc_v.get("dom", {"cls": "na", "why": []})
        if dom["cls"] == "na":
            raise vlib.ToolError("Encode verdict without the domain class of the spec")
        indom = dom["cls"] in ("core", "refusable")          # Content!Domain: where encode and decode must agree
        self.domain_classes[dom["cls"] + (":" + "+".join(sorted(dom["why"])) if dom["why"] else "")] += 1
        self.edge_classes[".".join(cls.split(".")[:3]) if cls.startswith(("opname.", "deep.")) else ".".join(cls.split(".")[:2])] += 1
        key = json.dumps(enc["bytes"]) if enc["res"] == "ok" else json.dumps(ops)
        chk.case(key if ops else None)
        for op in ops:
            for a in op["args"]:
                for o in walk(a):
                    self.kinds_seen[o["k"]] += 1
        detail = {"class": cls, "origin": origin, "ops": ops, "encode_result": enc["res"], "bytes": enc.get("bytes"),
                  "bytes_ascii": bytes(enc.get("bytes", [])).decode("latin-1")[:400],
                  "decode_result": dec["res"] if dec else None, "decoded": dec["ops"] if dec else None,
                  "strict_reading_of_bytes": enc_v["d"], "roundtrip": dec_v["rd"] if dec_v else None}
        detail["domain"] = dom
        if enc["res"] != "ok":
            if enc_v["v"] == "ok-refused":
                # outside the core domain encode may refuse: that is agreement (Content!Domain)
                self.refused["+".join(sorted(dom["why"]))] += 1
                chk.traces += 1
            elif dom["cls"] == "core" and not probe:
                chk.violation("C14:encode-failed", detail)
            else:
                self.note("probe:" + cls + ":encode-failed", detail)
            return
        ok = dec_v["rt"].startswith("ok")
        if not ok and indom and not probe:
            sig = edge_signature(enc, enc_v, dec, dec_v)
            if sig:
                chk.violation(sig, detail)
                return
        if inline:
            # clause 2: decode -> encode -> decode.  (A content stream with an inline image is valid input;
            # whether its other operators are in the alphabet does not matter for this signature.)
            kc = inline_key_classes(ops)
            if cls.startswith("api."):
                for c in kc:
                    self.inline_key_classes["api:" + c] += 1
            if ok:
                chk.traces += 1
            elif probe:
                self.note(cls + ":reencode", detail)
            else:
                # the classifier of the repaired finding (any inline image) is gone; the signature names the class of
                # dictionary keys / name values the failing image carries
                chk.violation("C14:inline.reencode" + ("[" + "+".join(kc) + "]" if kc else ""), detail)
            return
        if not indom or probe:
            self.note((cls if probe else "out-of-domain") + ":" + ("ok" if ok else dec_v["rt"]), detail)
            return
        if ok:
            chk.traces += 1
            if not enc_v["v"].startswith("ok"):
                # lopdf reads its own bytes back although a strict reader does not: symmetric deviation, not a violation of C14
                self.note("symmetric-deviation:" + enc_v["v"], detail)
                chk.extra["model_drift"] = chk.extra.get("model_drift", 0) + 1
        else:
            chk.violation(rt_signature(enc, enc_v, dec_v), detail)

    def via(self, enc, enc_v, dec, dec_v):
        """DecodeVia: decode through a Stream value (or a document) whose stored content carries a filter chain must be decode of
        the plain bytes: decode(encode(x)) = x whatever container holds the bytes."""
        chk = self.chk
        via, chain = dec["via"], dec["filters"]
        filtered = chain not in ("none", "empty-array")
        self.via_classes[(via, chain)] += 1
        if enc_v.get("dom", {}).get("cls") != "core":
            return
        chk.case(json.dumps([via, chain, enc["bytes"]]))
        if dec_v["rt"].startswith("ok"):
            chk.traces += 1
            return
        detail = {"class": enc["cls"], "origin": "stream-driver", "via": via, "filters": chain, "ops": enc["ops"],
                  "plain_bytes_ascii": bytes(enc["bytes"]).decode("latin-1")[:300], "decode_result": dec["res"], "decoded": dec["ops"],
                  "roundtrip": dec_v["rd"]}
        if filtered and ("decode_content" in via or via.startswith("modify-loop")) and dec["res"] == "ok":
            # Stream::decode_content parsed the stored (filtered) bytes: narrow class -- a filter is present, the call is
            # decode_content (directly or inside the modify loop) and it returned Ok with other operations
            chk.violation("C14:stream.decode_content.filters-ignored", detail)
        else:
            short = via.split("(")[0].split(";")[-1]
            chk.violation("C14:via.%s[%s].%s" % (short, chain, dec_v["rt"]), detail)

    def given_decode(self, given, given_v, dec, dec_v):
        """Decode of content lopdf did not write.  Producer content: observation only (the property quantifies over
        decode(encode(x))).  Inline images: `valid inline images of every supported colour space` must decode."""
        chk = self.chk
        cls = given["cls"]
        detail = {"class": cls, "bytes": given["bytes"], "bytes_ascii": bytes(given["bytes"]).decode("latin-1")[:400],
                  "meta": given.get("meta"), "strict_reading": given_v["d"], "decode_result": dec["res"], "decoded": dec["ops"],
                  "verdict": dec_v["d"]}
        ok = dec_v["v"].startswith("ok")
        if cls.startswith("probe."):
            self.note(cls + ":decode:" + dec_v["v"], detail)
            return
        if cls.startswith("producer."):
            m = given.get("meta", {})
            if m.get("inline"):
                self.inline_decode(given, dec, dec_v, detail, producer=True)
            elif not ok:
                names = [bytes(x) for x in m.get("opnames", [])]
                why = dec_v["v"]
                if any(not operator_in_domain(list(n)) for n in names):
                    why = "operator-outside-alphabet"
                elif any(n.startswith(k) and len(n) > len(k) for n in names for k in (b"null", b"true", b"false", b"BI")):
                    why = "operator-begins-like-keyword:" + why       # the decoder side of C14:operator.keyword-prefix / BI-prefix
                elif why == "lit-raw-eol-kept":
                    pass
                elif m.get("sep") == "all":
                    why += "(separators may be NUL/FF/comments)"
                else:
                    # only SP TAB CR LF between tokens, operators of the alphabet, no raw end-of-line problem:
                    # nothing known explains why lopdf reads this content differently
                    why = "UNEXPLAINED:" + why
                self.note("producer-content:decode:" + why, detail)
            return
        if cls in ("inline", "inline.mask"):
            self.inline_decode(given, dec, dec_v, detail, producer=False)
        elif cls.startswith("literal") and not ok:
            # number literals at / beyond the f32 range in content lopdf did not write: what the decoder makes of them is
            # an observation; what encode does with the decoded operations is judged by roundtrip()
            self.note("number-literal:decode:" + ".".join(cls.split(".")[1:]) + ":" + dec_v["v"], detail)

    def inline_decode(self, given, dec, dec_v, detail, producer):
        chk = self.chk
        ok = dec_v["v"].startswith("ok")
        # facts about the image come from the strict reading of the given bytes (Content!InlineFacts)
        img = detail["strict_reading"].get("img", {"n": 0})
        if img.get("n", 0) < 1:
            raise vlib.ToolError("no inline image in the strict reading of an inline case: %r" % bytes(given["bytes"])[:200])
        cs, bpc, first, idws = bytes(img["cs"]), img["bpc"], img["first"], img["idws"]
        keys = [bytes(k) for k in img["keys"]]
        opt = sorted({OPT_KEYS[k] for k in keys if k in OPT_KEYS})
        if img["mask"]:
            # a stencil mask (ImageMask true, 8.9.6.2) is a valid inline image but has no colour space at all: it is
            # not among "valid inline images of every supported colour space"; what lopdf does with it is an observation
            self.masks_tried += 1
            self.note("inline:imagemask:decode:" + dec_v["v"], detail)
            return
        self.inline_combos.add((cs, bpc))
        for k in keys:
            if k in OPT_KEYS:
                self.opt_keys_tried[k.decode()] += 1
        self.first_keys.add(tuple(keys))
        if any(name_needs_escape(k) for k in keys):
            self.inline_key_classes[("producer" if producer else "harness") + ":hostile-key"] += 1
        chk.case(json.dumps(given["bytes"]))
        if ok:
            return
        suffix = "[" + "+".join(opt) + "]" if opt else ""
        if idws not in WS4 or img["wsbefore"]:
            # FF / NUL as white-space: a decoder limitation outside the statement
            self.note("inline:decode:ff-nul-whitespace:" + dec_v["v"], detail)
        elif dec_v["v"] == "lit-raw-eol-kept":
            self.note("producer-content:decode:lit-raw-eol-kept", detail)
        else:
            # optional entries spelled out with default / neutral values (ImageMask false, Interpolate, Decode) are part
            # of the signature: they must not change how the image is read
            # (the classifiers of the repaired findings C14:inline.abbrev and C14:inline.data-leading-ws were removed with
            # the repairs, DESIGN 2.9; the facts they used stay in the detail for triage)
            detail["image_facts"] = {"cs": cs.decode("latin-1"), "bpc": bpc, "first_data_byte": first, "byte_after_ID": idws,
                                     "keys": [k.decode("latin-1") for k in keys]}
            chk.violation("C14:inline.decode." + dec_v["v"] + suffix, detail)


def evaluate(ev, recs, verdicts, origin):
    """walk one judged trace: Given / Encode / Decode events with their verdicts"""
    i = 0
    n = len(recs)
    while i < n:
        r, v = recs[i], verdicts[i]
        ev.classes[r["cls"].split(".")[0] if not r["cls"].startswith(("special", "probe")) else r["cls"]] += 1 if r["ev"] != "Decode" else 0
        if r["ev"] == "Given":
            if not v["v"].startswith("ok"):
                if r["cls"].startswith("probe."):
                    ev.note(r["cls"] + ":strict-reader:" + v["d"].get("err", ""), {"bytes_ascii": bytes(r["bytes"]).decode("latin-1")[:300]})
                else:
                    # the Producer's RoundTrip invariant / the harness's own arithmetic should have prevented this
                    raise vlib.ToolError("StrictReader rejects in-domain given content (%s): %s / %r" % (
                        r["cls"], v["d"], bytes(r["bytes"])[:200]))
            if i + 1 < n and recs[i + 1]["ev"] == "Decode":
                ev.given_decode(r, v, recs[i + 1], verdicts[i + 1])
                i += 2
            else:
                i += 1
            continue
        if r["ev"] == "Encode":
            if i + 1 < n and recs[i + 1]["ev"] == "Decode" and r["res"] == "ok":
                ev.roundtrip(r, v, recs[i + 1], verdicts[i + 1], origin)
                i += 2
            else:
                ev.roundtrip(r, v, None, None, origin)
                i += 1
            # the same bytes decoded through a Stream value / a document under filter chains
            while i < n and recs[i]["ev"] == "DecodeVia":
                ev.via(r, v, recs[i], verdicts[i])
                i += 1
            continue
        raise vlib.ToolError("unexpected event order at record %d: %s" % (i, r["ev"]))


def evaluate_history(ev, recs, verdicts):
    """ContentHist schedules: Reset, judged cases (fresh), Disturb*, the same judged cases (after).  Every judged call is
    an ordinary case of the property (evaluate -> roundtrip); on top of that the results after the disturbances must be
    the results before them: encode / decode are functions of their argument alone."""
    chk = ev.chk
    i, n = 0, len(recs)
    while i < n:
        if recs[i]["ev"] != "Reset":
            raise vlib.ToolError("history trace does not start a schedule with Reset at %d" % i)
        j = i + 1
        while j < n and recs[j]["ev"] != "Reset":
            j += 1
        reset = recs[i]
        jt = reset["t"]
        seg, segv = recs[i + 1:j], verdicts[i + 1:j]
        dist = [r for r in seg if r["ev"] == "Disturb"]
        same = sorted({d["kind"] for d in dist if d["t"] == jt})
        other = sorted({d["kind"] for d in dist if d["t"] != jt})
        label = "+".join(same) if same else ("other-thread:" + "+".join(other) if other else "none")
        for d in dist:
            ev.history[("disturb", d["kind"], "same-thread" if d["t"] == jt else "other-thread")] += 1
            if d["panic"]:
                ev.note("history:disturbance-panicked:" + d["kind"], {"class": "history", "verdict": d})
        fresh = [(r, v) for r, v in zip(seg, segv) if r.get("cls") == "history.fresh"]
        after = [(r, v) for r, v in zip(seg, segv) if r.get("cls") == "history.after"]
        # each judged call on its own (fresh ones are plain cases; a failing "after" call gets the history signature)
        fr, fv = [x[0] for x in fresh], [x[1] for x in fresh]
        evaluate(ev, fr, fv, "history-fresh")
        fresh_ok = {}
        k = 0
        while k < len(fresh):
            r, v = fresh[k]
            if r["ev"] == "Encode" and k + 1 < len(fresh) and fresh[k + 1][0]["ev"] == "Decode":
                fresh_ok[r["case"]] = (fresh[k + 1][1]["rt"].startswith("ok"), r, fresh[k + 1][0])
                k += 2
            else:
                fresh_ok[r["case"]] = (False, r, None)
                k += 1
        k = 0
        while k < len(after):
            r, v = after[k]
            d, dv = (after[k + 1] if k + 1 < len(after) and after[k + 1][0]["ev"] == "Decode" and r["ev"] == "Encode" else (None, None))
            k += 2 if d is not None else 1
            if r["ev"] != "Encode":
                raise vlib.ToolError("history trace: unexpected event order in schedule %s" % reset["sched"])
            f_ok, f_enc, f_dec = fresh_ok.get(r["case"], (False, None, None))
            chk.case(json.dumps([reset["hist"], r.get("bytes")]))
            ev.history[("judged", "d=%d" % reset["d"], label.split(":")[0] if same else ("other-thread" if other else "none"))] += 1
            if v.get("dom", {}).get("cls") != "core":
                continue
            detail = {"class": "history", "schedule": reset["hist"], "judging_thread": jt, "disturbances": dist,
                      "ops": r["ops"], "bytes_ascii": bytes(r.get("bytes", [])).decode("latin-1")[:300],
                      "fresh": {"encode": f_enc["res"] if f_enc else None, "decode": f_dec["res"] if f_dec else None},
                      "after": {"encode": r["res"], "decode": d["res"] if d else None, "decoded": d["ops"] if d else None,
                                "strict_reading_of_bytes": v["d"], "roundtrip": dv["rd"] if dv else None}}
            a_ok = d is not None and r["res"] == "ok" and dv["rt"].startswith("ok")
            differs = (f_enc is None or f_enc["res"] != r["res"] or f_enc.get("bytes") != r.get("bytes")
                       or (f_dec is None) != (d is None) or (d is not None and (f_dec["res"] != d["res"] or f_dec["ops"] != d["ops"])))
            if not f_ok:
                continue        # the fresh call already failed: reported by evaluate() above under its own signature
            if not a_ok:
                what = "encode-failed" if r["res"] != "ok" else dv["rt"]
                chk.violation("C14:history.%s.%s" % (label, what), detail)
            elif differs:
                chk.violation("C14:history.%s.result-differs" % label, detail)
            else:
                chk.traces += 1
        i = j


# ------------------------------------------------------------------ negative controls (synthetic, independent of the tree)
def B(s):
    return list(s.encode("latin-1"))


def negative_controls():
    i12 = {"k": "int", "neg": False, "v": [1, 2]}
    s_ab = {"k": "str", "v": B("a(b")}
    n_f1 = {"k": "name", "v": B("F 1")}
    ops = [{"op": B("Tf"), "args": [n_f1, i12]}, {"op": B("Tj"), "args": [s_ab]}, {"op": B("T*"), "args": []}]
    good_bytes = B("/F#201 12 Tf\n(a\\(b) Tj\nT*")
    img_d = [[B("BPC"), {"k": "int", "neg": False, "v": [8]}], [B("CS"), {"k": "name", "v": B("RGB")}],
             [B("H"), {"k": "int", "neg": False, "v": [1]}], [B("Length"), {"k": "int", "neg": False, "v": [3]}],
             [B("W"), {"k": "int", "neg": False, "v": [1]}]]
    img_ops = [{"op": B("BI"), "args": [{"k": "stream", "v": img_d, "w": [32, 69, 73]}]}, {"op": B("Q"), "args": []}]
    img_bytes = B("BI /W 1 /H 1 /BPC 8 /CS /RGB ID  EI EI Q")

    def enc(o, b):
        return {"ev": "Encode", "cls": "neg", "case": 0, "ops": o, "res": "ok", "bytes": b}

    def dec(o):
        return {"ev": "Decode", "cls": "neg", "case": 0, "res": "ok", "ops": o}

    def giv(b):
        return {"ev": "Given", "cls": "neg", "case": 0, "bytes": b, "meta": {}}

    cp = lambda x: json.loads(json.dumps(x))
    controls = []
    # 0: conforming records must be accepted (positive control)
    controls.append(("positive", [enc(ops, good_bytes), dec(ops), giv(img_bytes), dec(img_ops)], lambda vs: all(
        v["v"].startswith("ok") and v["rt"].startswith("ok") for v in vs)))
    # 1: a missing separator in the written bytes ("12Tf")
    bad = B("/F#201 12Tf\n(a\\(b) Tj\nT*")
    controls.append(("encode-missing-separator", [enc(ops, bad), dec(ops)], lambda vs: not vs[0]["v"].startswith("ok")))
    # 2: an unescaped parenthesis in the written string
    bad = B("/F#201 12 Tf\n(a(b) Tj\nT*")
    controls.append(("encode-unbalanced-paren", [enc(ops, bad), dec(ops)], lambda vs: not vs[0]["v"].startswith("ok")))
    # 3: the decoder changed a string byte
    o2 = cp(ops)
    o2[1]["args"][0]["v"][0] = 98
    controls.append(("decode-string-byte", [enc(ops, good_bytes), dec(o2)], lambda vs: not vs[1]["rt"].startswith("ok") and not vs[1]["v"].startswith("ok")))
    # 4: the decoder attached an operand to the wrong operator
    o3 = cp(ops)
    o3[0]["args"] = [n_f1]
    o3[1]["args"] = [i12, s_ab]
    controls.append(("decode-operand-moved", [enc(ops, good_bytes), dec(o3)], lambda vs: not vs[1]["rt"].startswith("ok")))
    # 5: the decoder lost the last operation
    controls.append(("decode-lost-operation", [enc(ops, good_bytes), dec(ops[:2])], lambda vs: vs[1]["rt"] == "op-count"))
    # 6: integer returned for a non-integral real
    r = {"k": "real", "neg": False, "lo": {"ip": [0], "fp": [4, 9, 9]}, "hi": {"ip": [0], "fp": [5, 0, 1]}, "incl": True, "int": False, "iv": []}
    ro = [{"op": B("w"), "args": [r]}]
    controls.append(("decode-real-as-int", [enc(ro, B("0.5 w")), dec([{"op": B("w"), "args": [{"k": "int", "neg": False, "v": [0]}]}])],
                     lambda vs: vs[0]["v"] == "ok" and not vs[1]["rt"].startswith("ok")))
    # 7: inline image data shifted by one byte (what eating white-space after ID does)
    o4 = cp(img_ops)
    o4[0]["args"][0]["w"] = [69, 73, 32]
    controls.append(("inline-data-shifted", [giv(img_bytes), dec(o4)], lambda vs: not vs[1]["v"].startswith("ok")))
    # 9: an explicit /IM false must not turn the image into a 1-bit mask: conforming records accepted, a failed decode rejected
    imf_bytes = B("BI /IM false /W 4 /H 1 /BPC 8 /CS /G ID abcd EI")
    imf_d = [[B("BPC"), {"k": "int", "neg": False, "v": [8]}], [B("CS"), {"k": "name", "v": B("G")}],
             [B("H"), {"k": "int", "neg": False, "v": [1]}], [B("IM"), {"k": "bool", "v": False}],
             [B("Length"), {"k": "int", "neg": False, "v": [4]}], [B("W"), {"k": "int", "neg": False, "v": [4]}]]
    imf_ops = [{"op": B("BI"), "args": [{"k": "stream", "v": imf_d, "w": B("abcd")}]}]
    controls.append(("inline-imfalse-positive", [giv(imf_bytes), dec(imf_ops)], lambda vs: all(v["v"].startswith("ok") for v in vs)))
    controls.append(("inline-imfalse-decode-failed", [giv(imf_bytes), {"ev": "Decode", "cls": "neg", "case": 0, "res": "err:Parse(InvalidContentStream)", "ops": []}],
                     lambda vs: vs[0]["v"] == "ok" and vs[1]["v"] == "decode-failed"))
    o5 = cp(imf_ops)
    o5[0]["args"][0]["w"] = B("a")
    controls.append(("inline-imfalse-read-as-mask", [giv(imf_bytes), dec(o5)], lambda vs: not vs[1]["v"].startswith("ok")))
    # 8: inline image written back as a stream object
    sb = B("<</BPC 8/CS/RGB/H 1/Length 3/W 1>>stream\n EI\nendstream BI\nQ")
    controls.append(("inline-written-as-stream", [enc(img_ops, sb), dec(img_ops)], lambda vs: not vs[0]["v"].startswith("ok")))
    # domain edges: refusing is accepted exactly where Content!Domain says so, and writing what decodes differently never is
    nul = [{"op": B("q"), "args": []}, {"op": B("null"), "args": []}]
    controls.append(("refusal-of-unwritable-positive", [{"ev": "Encode", "cls": "neg", "case": 0, "ops": nul, "res": "err:Syntax", "bytes": []}],
                     lambda vs: vs[0]["v"] == "ok-refused"))
    controls.append(("refusal-in-core-domain", [{"ev": "Encode", "cls": "neg", "case": 0, "ops": ops, "res": "err:Syntax", "bytes": []}],
                     lambda vs: vs[0]["v"] == "encode-failed"))
    controls.append(("unwritable-written", [enc(nul, B("q\nnull")), dec(nul[:1])], lambda vs: vs[1]["rt"] == "op-count" and "unwritable-operator" in vs[0]["dom"]["why"]))
    kwp = [{"op": B("nullx"), "args": [i12]}]
    controls.append(("keyword-prefix-split", [enc(kwp, B("12 nullx")), dec([{"op": B("x"), "args": [i12, {"k": "null"}]}])],
                     lambda vs: vs[0]["v"] == "ok" and vs[0]["dom"]["cls"] == "core" and vs[1]["rt"] == "operator"))
    inf = [{"op": B("w"), "args": [{"k": "real", "neg": False, "nonfinite": True, "bits": "2139095040"}]}]
    controls.append(("nonfinite-written", [enc(inf, B("inf w")), dec([{"op": B("inf"), "args": []}, {"op": B("w"), "args": []}])],
                     lambda vs: "nonfinite-real" in vs[0]["dom"]["why"] and not vs[0]["v"].startswith("ok") and vs[1]["rt"] == "op-count"))
    # one TLC run for all controls: a Reset event separates them
    allrecs, spans = [], []
    for name, recs, pred in controls:
        allrecs.append({"ev": "Reset", "sched": name})
        spans.append((len(allrecs), len(allrecs) + len(recs)))
        allrecs += recs
    vs_all, _, _ = vlib.validate_trace("Trace_Content.tla", "Trace_Content.cfg", allrecs, "c14-neg")
    if len(vs_all) != len(allrecs):
        raise vlib.ToolError("negative controls: %d of %d events judged" % (len(vs_all), len(allrecs)))
    rejected = 0
    for (name, recs, pred), (a, b) in zip(controls, spans):
        vs = vs_all[a:b]
        if not pred(vs):
            raise vlib.ToolError("negative control '%s' failed: %s" % (name, [(v["v"], v["rt"]) for v in vs]))
        if not name.endswith("positive"):
            rejected += 1
    return rejected


# ------------------------------------------------------------------ the check
def run(tier):
    for f in glob.glob(os.path.join(vlib.REPLAYS, "C14-*.json")):
        os.remove(f)
    chk = Check("C14", META["level"], tier)
    chk.rule = ("a case is one Encode;Decode pair (random / special / sweep operation lists, or the operations lopdf decoded from "
                "Producer-spelled content and inline images); distinct by encoded bytes; non-trivial when it has at least one operation")
    chk.assumptions = [META["note"]]
    w = workdir("c14")
    quick = tier == "quick"
    sd = vlib.seed()
    vlib.build_harness("c14")       # once, before the worker threads below call run_bin concurrently

    # ---- (M) Producer vs StrictReader in content mode, exhaustive over the test universes
    cfgs = ["MC_Content_adj.cfg", "MC_Content_seq2s.cfg", "MC_Content_inlq.cfg", "MC_Content_inloq.cfg", "MC_Content_inlk.cfg"] if quick else [
        "MC_Content_adj.cfg", "MC_Content_adj_all.cfg", "MC_Content_adjc.cfg", "MC_Content_adj2.cfg", "MC_Content_strs.cfg",
        "MC_Content_seq2.cfg", "MC_Content_seq3.cfg", "MC_Content_inlq.cfg", "MC_Content_inloq.cfg", "MC_Content_inlot.cfg",
        "MC_Content_inlk.cfg", "MC_Content_inlt.cfg"]
    with ThreadPoolExecutor(max_workers=5 if quick else 2) as ex:
        for r in ex.map(lambda c: mc(c, tier), cfgs):
            chk.add_tlc(r)
    chk.extra["mc_universes"] = [c[len("MC_Content_"):-4] for c in cfgs]
    chk.exhaustive = True
    # history independence (ContentHist): every history of <= 2 disturbances x 8 kinds x 2 threads before a judged call;
    # the impl-shaped layer as the code is must be functional, and with the deviation switch (error path keeps the level)
    # TLC must find the counter-example -- otherwise the model could not see the class at all
    rh = tlc("MC_ContentHist.tla", "MC_ContentHist_asis.cfg", workers=2, coverage=True, timeout=600, name="c14-hist-asis")
    vlib.require_coverage(rh, ["Disturb", "Judge"])
    chk.add_tlc(rh)
    schedules = rh.tagged("REPLAY")
    rl = tlc("MC_ContentHist.tla", "MC_ContentHist_leak.cfg", workers=1, timeout=600, name="c14-hist-leak", allow_violation=True)
    if rl.violation != "Functional":
        raise vlib.ToolError("ContentHist with Leak = TRUE does not violate Functional: the model cannot see history dependence")
    if len(schedules) < 100:
        raise vlib.ToolError("ContentHist generated only %d schedules" % len(schedules))

    def gen():
        # ---- (G) content spelled by the Producer, for lopdf to decode
        cases_in = os.path.join(w, "cases.ndjson")
        run_bin("c14", ["cases", "--seed", sd, "--n", 40 if quick else 300, "--out", cases_in])
        jobs = [("Gen_Content.tla", "Gen_Content.cfg", 150 if quick else 1500, "c14-gen-file", {"CASES": cases_in}),
                ("MC_Content.tla", "MC_Content_gen_mixops.cfg", 150 if quick else 1500, "c14-gen-mixops", None),
                ("MC_Content.tla", "MC_Content_gen_mixinl.cfg", 200 if quick else 2500, "c14-gen-mixinl", None),
                ("Gen_Content.tla", "Gen_Content_all.cfg", 40 if quick else 400, "c14-gen-file-all", {"CASES": cases_in})]
        with ThreadPoolExecutor(max_workers=4) as ex:
            return list(ex.map(lambda j: simulate(j[0], j[1], j[2], j[3], j[4]), jobs))

    def cov():
        # anti-vacuity: per-action coverage of the Producer in content mode (separate run without the invariants)
        r = tlc("MC_Content.tla", "MC_Content_cov.cfg", workers=1, simulate=300, depth=4000, coverage=True, timeout=900, name="c14-cov")
        vlib.require_coverage(r, PRODUCER_ACTIONS)
        return r

    def rec():
        # ---- (V) lopdf's own calls
        tr = os.path.join(w, "record.ndjson")
        run_bin("c14", ["record", "--seed", sd, "--n", 250 if quick else 4000, "--rows", "critical" if quick else "all", "--out", tr])
        ti = os.path.join(w, "inline.ndjson")
        run_bin("c14", ["inline", "--seed", sd, "--n", 40 if quick else 1500, "--out", ti])
        # history schedules: all of them in the thorough tier, a seeded sample (every kind on the judging thread at least
        # twice, by construction of the sample) in the quick tier
        import random
        rnd = random.Random(sd)
        sch = list(schedules)
        rnd.shuffle(sch)
        if quick:
            decisive = [x for x in sch if x["hist"][-1]["d"] >= 1 and any(h["a"] == "disturb" and h["t"] == x["hist"][-1]["t"] for h in x["hist"])]
            picked, seen = [], collections.Counter()
            for x in decisive:
                ks = {h["kind"] for h in x["hist"] if h["a"] == "disturb" and h["t"] == x["hist"][-1]["t"]}
                if any(seen[k] < 6 for k in ks):
                    picked.append(x)
                    for k in ks:
                        seen[k] += 1
            rest = [x for x in sch if x not in picked][:120]
            sch = picked + rest
        sin, th = os.path.join(w, "schedules.ndjson"), os.path.join(w, "history.ndjson")
        write_ndjson(sin, sch)
        run_bin("c14", ["history", "--seed", sd, "--in", sin, "--out", th, "--reps", 64])
        ts = os.path.join(w, "streams.ndjson")
        run_bin("c14", ["streams", "--seed", sd, "--n", 8 if quick else 150, "--out", ts])
        # nesting at both limits on a 2 MiB thread of a supervised worker: optimised and unoptimised build
        dbg = build_debug_worker()
        rel = os.path.join(vlib.build_harness("c14"), "c14")
        deep = []
        for label, exe in (("release", rel), ("debug", dbg)):
            td = os.path.join(w, "deep-%s.ndjson" % label)
            run_bin("c14", ["deep", "--exe", exe, "--label", label, "--stack", 2 << 20, "--out", td])
            deep += read_ndjson(td)
        return read_ndjson(tr), read_ndjson(ti), read_ndjson(th), deep, read_ndjson(ts)

    with ThreadPoolExecutor(max_workers=3) as ex:
        f_gen, f_cov, f_rec = ex.submit(gen), ex.submit(cov), ex.submit(rec)
        gens, _, (recs_v, recs_i, recs_h, recs_d, recs_s) = f_gen.result(), f_cov.result(), f_rec.result()

    produced = []
    for r, cases in gens:
        chk.add_tlc(r)
        produced += cases
    if not produced:
        raise vlib.ToolError("Producer generated no content")
    pin, ptr = os.path.join(w, "produced.ndjson"), os.path.join(w, "produced.trace.ndjson")
    write_ndjson(pin, produced)
    run_bin("c14", ["replay", "--in", pin, "--out", ptr])
    recs_p = read_ndjson(ptr)

    # ---- TLC judges every recorded call
    ev = Eval(chk)
    chunks = 1 if quick else 12
    jobs = [("c14-v", recs_v, "lopdf"), ("c14-i", recs_i, "harness-inline"), ("c14-p", recs_p, "tla-producer"),
            ("c14-d", recs_d, "deep-worker"), ("c14-s", recs_s, "stream-driver")]
    resets = [i for i, r in enumerate(recs_h) if r["ev"] == "Reset"]
    with ThreadPoolExecutor(max_workers=6) as ex:
        f_h = ex.submit(judge, recs_h, "c14-h", chunks, resets)
        judged = list(ex.map(lambda j: judge(j[1], j[0], chunks, case_starts(j[1])), jobs))
        vs_h, st_h, tr_h = f_h.result()
    for (name, recs, origin), (vs, st, tr) in zip(jobs, judged):
        chk.states += st
        chk.transitions += tr
        evaluate(ev, recs, vs, origin)
    chk.states += st_h
    chk.transitions += tr_h
    evaluate_history(ev, recs_h, vs_h)

    # ---- (B) anti-vacuity of the recorded / generated sets, computed from the inputs.  A vacuity problem never masks
    # a violation: with violations present the run still ends with exit 1 and lists the problems.
    vac = []
    need_kinds = ["null", "bool", "int", "real", "name", "str", "arr", "dict"]
    missing = [k for k in need_kinds if ev.kinds_seen[k] == 0]
    if missing:
        vac.append("no operand of kind %s in any recorded operation" % missing)
    nsweep = sum(1 for r in recs_v if r["ev"] == "Encode" and r["cls"].startswith(("sweep.str.", "sweep.name.")))
    if not quick and nsweep != 512:
        vac.append("byte-pair sweep incomplete: %d of 512 rows" % nsweep)
    if nsweep < 40:
        vac.append("only %d sweep rows" % nsweep)
    want_combos = {(cs, b) for cs in (b"G", b"DeviceGray", b"RGB", b"DeviceRGB", b"CMYK", b"DeviceCMYK") for b in (1, 2, 4, 8)}
    if not want_combos <= ev.inline_combos:
        vac.append("inline colour space x BPC combinations never tried: %s" % sorted(want_combos - ev.inline_combos))
    missing = [k for k in ("IM", "ImageMask", "I", "Interpolate", "D", "Decode") if ev.opt_keys_tried[k] == 0]
    if missing:
        vac.append("no in-domain inline image spells out the optional entry %s" % missing)
    if ev.masks_tried == 0:
        vac.append("no stencil mask (ImageMask true) tried")
    if len(ev.first_keys) < 12:
        vac.append("only %d distinct inline-image entry sets" % len(ev.first_keys))
    for k in ("api:hostile-key", "api:hostile-name-value", "harness:hostile-key", "producer:hostile-key"):
        if ev.inline_key_classes[k] < 5:
            vac.append("only %d inline images of class %s" % (ev.inline_key_classes[k], k))
    kinds_same = {k[1] for k in ev.history if k[0] == "disturb" and k[2] == "same-thread"}
    want_kinds = {"trunc-array", "trunc-dict", "trunc-string", "too-deep", "unbalanced", "bad-token", "inline-trunc", "load-damaged"}
    if want_kinds - kinds_same:
        vac.append("disturbance kinds never run on the judging thread: %s" % sorted(want_kinds - kinds_same))
    if sum(n for k, n in ev.history.items() if k[0] == "judged" and k[1] != "d=0" and k[2] not in ("none", "other-thread")) < 50:
        vac.append("fewer than 50 judged calls with container operands after a disturbance on their own thread")
    if not any(k[0] == "judged" and k[2] == "other-thread" for k in ev.history):
        vac.append("no judged call after a disturbance on the other thread only")
    for kw in ("null", "true", "false", "BI", "ID", "EI", "R", "obj"):
        for pos in ("alone", "prefix", "suffix", "infix"):
            if ev.edge_classes["opname.%s.%s" % (kw, pos)] < 3:
                vac.append("operator names against the keyword %s (%s): %d cases" % (kw, pos, ev.edge_classes["opname.%s.%s" % (kw, pos)]))
    for c, n in (("number.finite", 10), ("number.nonfinite", 8), ("literal.beyond", 3), ("literal-inline.beyond", 3), ("literal.finite", 2),
                 ("deep.debug.arr", 8), ("deep.debug.dict", 8), ("deep.release.arr", 8), ("deep.release.dict", 8)):
        if ev.edge_classes[c] < n:
            vac.append("only %d cases of class %s" % (ev.edge_classes[c], c))
    for d in (32, 47, 48, 49, 50, 64):
        for k in ("arr", "dict", "mix"):
            if not any(r["ev"] == "Encode" and r["cls"] == "nest.%s.%d" % (k, d) for r in recs_v):
                vac.append("nesting case %s depth %d missing" % (k, d))
    for lbl in ("debug", "release"):
        if not any(r["ev"] == "Encode" and r["cls"] == "deep.%s.arr.48x100" % lbl for r in recs_d):
            vac.append("no %s-profile decode of 48 arrays around 100 parentheses" % lbl)
    for chain in ("none", "compress()", "empty-array", "flate", "a85", "ahx", "a85+flate", "ahx+flate"):
        for via in ("Stream::decode_content", "modify-loop.set_plain_content", "Document::get_and_decode_page_content(save;load)",
                    "Stream::decode_content(save;load)"):
            if ev.via_classes[(via, chain)] < 3:
                vac.append("decode via %s under %s: %d cases" % (via, chain, ev.via_classes[(via, chain)]))
    if ev.via_classes[("add_to_page_content;compress;save;load;Stream::decode_content", "Document::compress")] < 3:
        vac.append("add_to_page_content + Document::compress path with a compressed stream: fewer than 3 cases")
    chk.extra["decode_via"] = {"%s | %s" % k: n for k, n in sorted(ev.via_classes.items())}
    chk.extra["domain_classes"] = dict(ev.domain_classes)
    chk.extra["encode_refusals"] = dict(ev.refused)
    chk.extra["edge_classes"] = {k: n for k, n in sorted(ev.edge_classes.items())
                                 if k.split(".")[0] in ("opname", "number", "nest", "literal", "literal-inline", "deep")}
    chk.extra["inline_optional_entries_tried"] = dict(ev.opt_keys_tried)
    chk.extra["inline_entry_key_sets"] = len(ev.first_keys)
    chk.extra["stencil_masks_tried"] = ev.masks_tried
    chk.extra["inline_hostile_key_images"] = dict(ev.inline_key_classes)
    chk.extra["history_schedules"] = len(resets)
    chk.extra["history_calls"] = {"/".join(k): n for k, n in sorted(ev.history.items())}
    us = collections.Counter(c.get("u") for c in produced)
    if us["file"] == 0 or us["mixops"] == 0 or us["mixinl"] == 0 or not any(c.get("inline") for c in produced):
        vac.append("Producer universes missing: %s" % dict(us))
    if not any(bytes(n) == b"d0" for c in produced for n in c.get("opnames", [])):
        vac.append("no generated content with an operator ending in a digit")
    if vac:
        if chk.violations:
            for m in vac:
                log("VACUITY (not masking the violations): " + m)
            chk.extra["vacuity_problems"] = vac
        else:
            raise vlib.ToolError("vacuous: " + "; ".join(vac))
    chk.extra["sweep_rows"] = nsweep
    chk.extra["byte_pairs_swept"] = nsweep * 256
    chk.extra["producer_cases"] = dict(us)
    chk.extra["operand_kinds_recorded"] = dict(ev.kinds_seen)
    chk.extra["inline_cs_bpc_combinations"] = len(ev.inline_combos)
    chk.extra["notes"] = {k: n for k, n in sorted(ev.notes.items())}
    chk.extra["note_samples"] = {k: {kk: vv for kk, vv in s.items() if kk in ("bytes_ascii", "decode_result", "verdict", "roundtrip", "class")}
                                 for k, s in sorted(ev.note_samples.items())}
    for r in recs_v:
        if r["ev"] == "Encode" and r["cls"] == "random" and len(r["ops"]) >= 2:
            chk.sample({"class": "random", "ops": len(r["ops"]), "lopdf_encoded_ascii": bytes(r["bytes"]).decode("latin-1")[:300]}, cap=2)
    for c in produced:
        if c.get("inline"):
            chk.sample({"class": "tla-producer inline image", "content_ascii": bytes(c["bytes"]).decode("latin-1")[:300]}, cap=3)
            break
    for c in produced:
        if c.get("u") == "file" and c.get("nops", 0) >= 2:
            chk.sample({"class": "tla-producer spelling of seeded operations", "content_ascii": bytes(c["bytes"]).decode("latin-1")[:300]}, cap=4)
            break
    bysig = collections.Counter()
    for sig, det in list(chk.violations) + [(k, d) for k, ds in chk.known_seen.items() for d in ds]:
        bysig["%s | %s" % (sig, det.get("origin") or det.get("class"))] += 1
    chk.extra["violations_by_signature_and_origin"] = dict(bysig)
    chk.extra["negative_controls_rejected"] = negative_controls()
    return chk.finish()
